(* C19 -- theorems about the reference semantics of `jose fmt` (Cli/Fmt.v).
   All statements are for ALL programs / states; no bound except the 255-option premise
   where the 8-bit exit status is concerned. *)
From Coq Require String Ascii.
From JoseV Require Import Cli.Fmt.
Local Open Scope N_scope.

(* ================================================================== A. the store *)

Lemma mapM_impl {A B} (f g : A -> option B) l ys :
  (forall x y, In x l -> f x = Some y -> g x = Some y) -> mapM f l = Some ys -> mapM g l = Some ys.
Proof.
  revert ys. induction l as [|x l IH]; simpl; intros ys H E; [exact E|].
  destruct (f x) as [y|] eqn:Fx; [|discriminate].
  destruct (mapM f l) as [t|] eqn:Ft; [|discriminate].
  rewrite (H x y (or_introl eq_refl) Fx). rewrite (IH t); [exact E| |reflexivity].
  intros x' y' Hin. apply H. right. exact Hin.
Qed.

Lemma mapM_length {A B} (f : A -> option B) l ys : mapM f l = Some ys -> length ys = length l.
Proof.
  revert ys. induction l as [|x l IH]; simpl; intros ys E.
  - inversion E. reflexivity.
  - destruct (f x); [|discriminate]. destruct (mapM f l) eqn:Ft; [|discriminate].
    inversion E; subst. simpl. f_equal. apply IH. reflexivity.
Qed.

(* more fuel and a longer store do not change a value that could be read *)
Lemma reify_weaken f : forall h a v f' e,
  reify f h a = Some v -> (f <= f')%nat -> reify f' (h ++ e) a = Some v.
Proof.
  induction f as [|f IH]; intros h a v f' e E L; [discriminate|].
  destruct f' as [|f']; [lia|]. simpl in *.
  destruct (nth_error h a) as [n|] eqn:Hn; [|discriminate].
  assert (Ha : (a < length h)%nat) by (apply nth_error_Some; congruence).
  rewrite nth_error_app1 by exact Ha. rewrite Hn.
  destruct n as [s|l|m].
  - exact E.
  - destruct (mapM (reify f h) l) as [vs|] eqn:Hm; [|discriminate].
    rewrite (mapM_impl (reify f h) (reify f' (h ++ e)) l vs); [exact E| |exact Hm].
    intros x y _ Hx. apply IH; [exact Hx|lia].
  - remember (fun kv : bytes * addr => option_map (fun v => (fst kv, v)) (reify f h (snd kv))) as F.
    remember (fun kv : bytes * addr => option_map (fun v => (fst kv, v)) (reify f' (h ++ e) (snd kv))) as G.
    destruct (mapM F m) as [vs|] eqn:Hm; [|discriminate].
    rewrite (mapM_impl F G m vs); [exact E| |exact Hm].
    intros x y _ Hx. subst F G. cbv beta in *.
    destruct (reify f h (snd x)) as [w|] eqn:Hw; [|discriminate].
    rewrite (IH h (snd x) w f' e Hw); [exact Hx|lia].
Qed.

Lemma value_ext h a v e : value h a = Some v -> value (h ++ e) a = Some v.
Proof.
  unfold value. intro E. apply (reify_weaken (S (length h))); [exact E|]. rewrite app_length. lia.
Qed.

Fixpoint jdepth (j : json) : nat :=
  match j with
  | JArr l => S ((fix go (l : list json) : nat :=
                    match l with [] => O | x :: r => Nat.max (jdepth x) (go r) end) l)
  | JObj m => S ((fix go (m : list (bytes * json)) : nat :=
                    match m with [] => O | kv :: r => Nat.max (jdepth (snd kv)) (go r) end) m)
  | _ => O
  end.

Fixpoint maxd_list (l : list json) : nat :=
  match l with [] => O | x :: r => Nat.max (jdepth x) (maxd_list r) end.
Fixpoint maxd_members (m : list (bytes * json)) : nat :=
  match m with [] => O | kv :: r => Nat.max (jdepth (snd kv)) (maxd_members r) end.

Lemma jdepth_arr l : jdepth (JArr l) = S (maxd_list l).
Proof. reflexivity. Qed.
Lemma jdepth_obj m : jdepth (JObj m) = S (maxd_members m).
Proof. reflexivity. Qed.

Lemma alloc_arr l h :
  alloc (JArr l) h = let '(h1, al) := alloc_list l h in (h1 ++ [NArr al], length h1).
Proof. reflexivity. Qed.
Lemma alloc_obj m h :
  alloc (JObj m) h = let '(h1, al) := alloc_members m h in (h1 ++ [NObj al], length h1).
Proof. reflexivity. Qed.

Definition alloc_ok (j : json) : Prop :=
  forall h, exists e,
    fst (alloc j h) = h ++ e /\ (jdepth j <= length e)%nat /\
    (length h <= snd (alloc j h))%nat /\
    reify (S (jdepth j)) (h ++ e) (snd (alloc j h)) = Some j.

Lemma alloc_scalar j h :
  alloc j h = (h ++ [NScal j], length h) -> jdepth j = O ->
  exists e, fst (alloc j h) = h ++ e /\ (jdepth j <= length e)%nat /\
            (length h <= snd (alloc j h))%nat /\
            reify (S (jdepth j)) (h ++ e) (snd (alloc j h)) = Some j.
Proof.
  intros E D. exists [NScal j]. rewrite E, D. simpl. repeat split; try lia.
  rewrite nth_error_app2 by lia. rewrite Nat.sub_diag. reflexivity.
Qed.

Lemma mapM_forall2 {A B} (f : A -> option B) al l :
  Forall2 (fun a x => f a = Some x) al l -> mapM f al = Some l.
Proof.
  induction 1 as [|a x al l Hax _ IH]; simpl; [reflexivity|]. rewrite Hax, IH. reflexivity.
Qed.

Lemma alloc_list_spec l : Forall alloc_ok l -> forall h, exists e,
  fst (alloc_list l h) = h ++ e /\ (maxd_list l <= length e)%nat /\
  Forall2 (fun a x => reify (S (jdepth x)) (h ++ e) a = Some x) (snd (alloc_list l h)) l.
Proof.
  induction 1 as [|x l Hx _ IH]; intro h.
  - exists []. simpl. rewrite app_nil_r. repeat split; [lia|constructor].
  - cbn [alloc_list maxd_list]. destruct (Hx h) as [e1 [E1 [D1 [_ R1]]]].
    destruct (alloc x h) as [h1 a] eqn:Ea. cbn [fst snd] in E1, R1. subst h1.
    destruct (IH (h ++ e1)) as [e2 [E2 [D2 R2]]].
    destruct (alloc_list l (h ++ e1)) as [h2 al] eqn:El. cbn [fst snd] in E2, R2 |- *. subst h2.
    exists (e1 ++ e2). rewrite app_assoc. repeat split.
    + rewrite app_length. lia.
    + constructor.
      * eapply reify_weaken; [exact R1|lia].
      * exact R2.
Qed.

Lemma alloc_members_spec m : Forall (fun kv => alloc_ok (snd kv)) m -> forall h, exists e,
  fst (alloc_members m h) = h ++ e /\ (maxd_members m <= length e)%nat /\
  Forall2 (fun (ka : bytes * addr) (kv : bytes * json) =>
             fst ka = fst kv /\ reify (S (jdepth (snd kv))) (h ++ e) (snd ka) = Some (snd kv))
          (snd (alloc_members m h)) m.
Proof.
  induction 1 as [|x l Hx _ IH]; intro h.
  - exists []. simpl. rewrite app_nil_r. repeat split; [lia|constructor].
  - cbn [alloc_members maxd_members]. destruct (Hx h) as [e1 [E1 [D1 [_ R1]]]].
    destruct (alloc (snd x) h) as [h1 a] eqn:Ea. cbn [fst snd] in E1, R1. subst h1.
    destruct (IH (h ++ e1)) as [e2 [E2 [D2 R2]]].
    destruct (alloc_members l (h ++ e1)) as [h2 al] eqn:El. cbn [fst snd] in E2, R2 |- *. subst h2.
    exists (e1 ++ e2). rewrite app_assoc. repeat split.
    + rewrite app_length. lia.
    + constructor.
      * cbn [fst snd]. split; [reflexivity|]. eapply reify_weaken; [exact R1|lia].
      * exact R2.
Qed.

Lemma maxd_list_in x l : In x l -> (jdepth x <= maxd_list l)%nat.
Proof. induction l as [|y l IH]; simpl; intros []; [subst; lia|]. specialize (IH H). lia. Qed.
Lemma maxd_members_in x m : In x m -> (jdepth (snd x) <= maxd_members m)%nat.
Proof. induction m as [|y l IH]; simpl; intros []; [subst; lia|]. specialize (IH H). lia. Qed.

Lemma Forall2_weaken_in {A B} (P Q : A -> B -> Prop) l1 l2 :
  (forall a b, In b l2 -> P a b -> Q a b) -> Forall2 P l1 l2 -> Forall2 Q l1 l2.
Proof.
  intros H F. induction F as [|a b l1 l2 Pab _ IH]; constructor.
  - apply H; [left; reflexivity|exact Pab].
  - apply IH. intros a' b' Hin. apply H. right. exact Hin.
Qed.

Lemma reify_S f h a :
  reify (S f) h a =
  match nth_error h a with
  | None => None
  | Some (NScal v) => Some v
  | Some (NArr l) => option_map JArr (mapM (reify f h) l)
  | Some (NObj m) =>
      option_map JObj (mapM (fun kv => option_map (fun v => (fst kv, v)) (reify f h (snd kv))) m)
  end.
Proof. reflexivity. Qed.

Lemma nth_error_last {A} (l : list A) x : nth_error (l ++ [x]) (length l) = Some x.
Proof. rewrite nth_error_app2 by lia. rewrite Nat.sub_diag. reflexivity. Qed.

Theorem alloc_spec : forall j, alloc_ok j.
Proof.
  induction j using json_ind'; intro h; try (apply alloc_scalar; reflexivity).
  - (* arrays *)
    destruct (alloc_list_spec l H h) as [e [E [D R]]].
    rewrite alloc_arr, jdepth_arr. destruct (alloc_list l h) as [h1 al]. cbn [fst snd] in E, R |- *. subst h1.
    exists (e ++ [NArr al]). rewrite app_assoc. repeat split.
    + rewrite app_length. cbn [length]. lia.
    + rewrite app_length. lia.
    + rewrite reify_S, nth_error_last.
      rewrite (mapM_forall2 (reify (S (maxd_list l)) ((h ++ e) ++ [NArr al])) al l); [reflexivity|].
      eapply Forall2_weaken_in; [|exact R]. intros a b Hin Hr. cbv beta in *.
      eapply reify_weaken; [exact Hr|]. apply maxd_list_in in Hin. lia.
  - (* objects *)
    destruct (alloc_members_spec m H h) as [e [E [D R]]].
    rewrite alloc_obj, jdepth_obj. destruct (alloc_members m h) as [h1 al]. cbn [fst snd] in E, R |- *. subst h1.
    exists (e ++ [NObj al]). rewrite app_assoc. repeat split.
    + rewrite app_length. cbn [length]. lia.
    + rewrite app_length. lia.
    + rewrite reify_S, nth_error_last.
      match goal with |- option_map _ (mapM ?F al) = _ => rewrite (mapM_forall2 F al m); [reflexivity|] end.
      eapply Forall2_weaken_in; [|exact R]. intros a b Hin [Hk Hr]. cbv beta in *.
      rewrite (reify_weaken _ _ _ _ (S (maxd_members m)) [NObj al] Hr).
      * rewrite Hk. destruct b; reflexivity.
      * apply maxd_members_in in Hin. lia.
Qed.

(* what allocation does: the store is extended, the new address is fresh and holds the tree *)
Theorem alloc_value j h :
  exists e, fst (alloc j h) = h ++ e /\ (length h <= snd (alloc j h))%nat /\
            value (fst (alloc j h)) (snd (alloc j h)) = Some j.
Proof.
  destruct (alloc_spec j h) as [e [E [D [F R]]]]. exists e. repeat split; [exact E|exact F|].
  rewrite E. unfold value. rewrite <- (app_nil_r (h ++ e)) at 2.
  eapply reify_weaken; [exact R|]. rewrite app_length. lia.
Qed.

Lemma upd_other {A} (l : list A) a x b : a <> b -> nth_error (upd l a x) b = nth_error l b.
Proof.
  revert a b. induction l as [|y l IH]; intros [|a] [|b] N; simpl; try reflexivity; try congruence.
  apply IH. congruence.
Qed.

Lemma upd_same {A} (l : list A) a x : (a < length l)%nat -> nth_error (upd l a x) a = Some x.
Proof.
  revert a. induction l as [|y l IH]; intros [|a] L; simpl in *; try lia; [reflexivity|]. apply IH. lia.
Qed.

Lemma store_update (l : heap) a x :
  (forall b, a <> b -> nth_error (upd l a x) b = nth_error l b) /\
  ((a < length l)%nat -> nth_error (upd l a x) a = Some x).
Proof. split; [intros b; exact (upd_other l a x b)|exact (upd_same l a x)]. Qed.

Lemma upd_length {A} (l : list A) a x : length (upd l a x) = length l.
Proof. revert a. induction l as [|y l IH]; intros [|a]; simpl; try reflexivity. f_equal. apply IH. Qed.

(* ================================================================== B. programs: exit status *)

(* [reaches st pre rest st']: running the options [pre] (which are followed by [rest]) from [st],
   every one of them succeeding, can lead to [st'] *)
Inductive reaches : state -> list opt -> list opt -> state -> Prop :=
| reaches_nil st rest : reaches st [] rest st
| reaches_cons st o pre rest st1 st' :
    In (Ok st1) (step st o (hd_error (pre ++ rest))) ->
    reaches st1 pre rest st' ->
    reaches st (o :: pre) rest st'.

Definition ends_ok (st : state) (p : list opt) (r : result) : Prop :=
  exists st', reaches st p [] st' /\ r = (0, out st', files st').

Definition ends_fail (st : state) (i : nat) (p : list opt) (r : result) : Prop :=
  exists pre o rest st' fs,
    p = pre ++ o :: rest /\
    reaches st pre (o :: rest) st' /\
    In (Fail fs) (step st' o (hd_error rest)) /\
    r = (N.of_nat (S (i + length pre)), out st', fs).

Theorem runs_from_spec p : forall st i r,
  In r (runs_from st i p) <-> ends_ok st p r \/ ends_fail st i p r.
Proof.
  induction p as [|o rest IH]; intros st i r; simpl.
  - split.
    + intros [E|[]]. left. exists st. split; [constructor|symmetry; exact E].
    + intros [[st' [R E]]|[pre [o [rest [st' [fs [E _]]]]]]].
      * inversion R; subst. left. reflexivity.
      * destruct pre; discriminate.
  - rewrite in_flat_map. split.
    + intros [[fs|st1] [Hin Hr]].
      * destruct Hr as [E|[]]. right. exists [], o, rest, st, fs. simpl.
        rewrite Nat.add_0_r. repeat split; [constructor|exact Hin|symmetry; exact E].
      * apply IH in Hr. destruct Hr as [[st' [R E]]|[pre [o' [rest' [st' [fs [E [R [F Er]]]]]]]]].
        -- left. exists st'. split; [|exact E]. econstructor; [|exact R]. rewrite app_nil_r. exact Hin.
        -- right. exists (o :: pre), o', rest', st', fs. subst rest. simpl. repeat split.
           ++ econstructor; [exact Hin|exact R].
           ++ exact F.
           ++ rewrite Er. replace (S (S i + length pre)) with (S (i + length (o :: pre))) by (simpl; lia). reflexivity.
    + intros [[st' [R E]]|[pre [o' [rest' [st' [fs [E [R [F Er]]]]]]]]].
      * inversion R; subst. rewrite app_nil_r in *. exists (Ok st1). split; [assumption|].
        apply IH. left. exists st'. split; [assumption|reflexivity].
      * destruct pre as [|o1 pre].
        -- simpl in E. inversion E; subst o' rest'. inversion R; subst.
           exists (Fail fs). split; [exact F|]. left. rewrite Nat.add_0_r. reflexivity.
        -- simpl in E. inversion E; subst o1 rest. inversion R; subst.
           exists (Ok st1). split; [assumption|]. apply IH. right.
           exists pre, o', rest', st', fs. repeat split; [assumption|exact F|].
           replace (S (S i + length pre)) with (S (i + length (o :: pre))) by (simpl; lia). reflexivity.
Qed.

(* the exit status is 0 iff every option succeeded; otherwise it is the 1-based index k of the
   first option that failed: the k-1 options before it succeeded, stdout is exactly what they
   wrote, nothing after option k is executed; with at most 255 options it fits the 8-bit status *)
Theorem exit_index p k so fs :
  (length p <= 255)%nat ->
  In (k, so, fs) (runs p) ->
  (k = 0 /\ exists st', reaches init p [] st' /\ so = out st' /\ fs = files st')
  \/
  (exists pre o rest st',
      p = pre ++ o :: rest /\ k = N.of_nat (S (length pre)) /\
      1 <= k /\ k <= N.of_nat (length p) /\ k < 256 /\
      reaches init pre (o :: rest) st' /\
      In (Fail fs) (step st' o (hd_error rest)) /\
      so = out st').
Proof.
  intros L H. apply runs_from_spec in H.
  destruct H as [[st' [R E]]|[pre [o [rest [st' [fs' [E [R [F Er]]]]]]]]].
  - left. inversion E; subst. split; [reflexivity|]. exists st'. repeat split. exact R.
  - right. inversion Er; subst. exists pre, o, rest, st'. simpl.
    rewrite app_length in *. simpl in *. repeat split; try assumption; lia.
Qed.

Theorem exit_index_complete p :
  (forall st', reaches init p [] st' -> In (0, out st', files st') (runs p)) /\
  (forall pre o rest st' fs,
      p = pre ++ o :: rest -> reaches init pre (o :: rest) st' ->
      In (Fail fs) (step st' o (hd_error rest)) ->
      In (N.of_nat (S (length pre)), out st', fs) (runs p)).
Proof.
  split.
  - intros st' R. apply runs_from_spec. left. exists st'. split; [exact R|reflexivity].
  - intros pre o rest st' fs E R F. apply runs_from_spec. right.
    exists pre, o, rest, st', fs. repeat split; assumption.
Qed.


(* ================================================================== C. reading outcome lists *)

Lemma set_inv_false_id st : inv st = false -> set_inv false st = st.
Proof. destruct st; simpl; intros ->; reflexivity. Qed.

Definition plain (o : opt) : bool := match o with OAssert _ | ONot => false | _ => true end.

Lemma step_ok_plain st o nxt st' :
  plain o = true -> In (Ok st') (step st o nxt) -> In (Ok st') (step_plain (set_inv false st) o).
Proof.
  destruct o; try discriminate; intros _ H; unfold step in H; destruct (inv st) eqn:I;
    try (destruct H as [H|H]; [discriminate H|exact H]);
    rewrite set_inv_false_id by exact I; exact H.
Qed.

Lemma step_fail_plain st o nxt :
  plain o = true -> (forall r, In r (step_plain (set_inv false st) o) -> is_fail r = true) ->
  forall r, In r (step st o nxt) -> is_fail r = true.
Proof.
  destruct o; try discriminate; intros _ H r Hr; unfold step in Hr; destruct (inv st) eqn:I;
    try (destruct Hr as [Hr|Hr]; [subst r; reflexivity|apply H; exact Hr]);
    rewrite set_inv_false_id in H by exact I; apply H; exact Hr.
Qed.

Lemma guard_cyc_ok p s' s x : In (Ok x) (guard_cyc p s' s) -> x = s'.
Proof.
  unfold guard_cyc. destruct (value (hp s') p).
  - intros [E|[]]. inversion E. reflexivity.
  - intros [E|[]]. discriminate E.
Qed.

Lemma fail_w_not_ok d s x : In (Ok x) (fail_w d s) -> False.
Proof.
  destruct d; simpl.
  - intros [E|[]]. discriminate E.
  - intros [E|[E|[]]]; discriminate E.
Qed.

Lemma fail_w_fails d s r : In r (fail_w d s) -> is_fail r = true.
Proof.
  destruct d; simpl.
  - intros [E|[]]. subst. reflexivity.
  - intros [E|[E|[]]]; subst; reflexivity.
Qed.

(* take an hypothesis  H : In (Ok st') <outcome list>  apart *)
Ltac crack H :=
  repeat match type of H with
  | In _ (match ?x with _ => _ end) => destruct x eqn:?
  | In _ (if ?x then _ else _) => destruct x eqn:?
  | In _ (guard_cyc _ _ _) => apply guard_cyc_ok in H; subst
  | In _ (fail_w _ _) => apply fail_w_not_ok in H; destruct H
  | In _ (_ :: _) => destruct H as [H|H]
  | In _ [] => destruct H
  | fail _ = Ok _ => discriminate H
  | Fail _ = Ok _ => discriminate H
  | Ok _ = Ok _ => inversion H; clear H; subst
  end.

Lemma push_val_stk v st : stk (push_val v st) = snd (alloc v (hp st)) :: stk st.
Proof. unfold push_val. destruct (alloc v (hp st)). reflexivity. Qed.
Lemma push_val_hp v st : hp (push_val v st) = fst (alloc v (hp st)).
Proof. unfold push_val. destruct (alloc v (hp st)). reflexivity. Qed.
Lemma push_val_out v st : out (push_val v st) = out st.
Proof. unfold push_val. destruct (alloc v (hp st)). reflexivity. Qed.
Lemma push_val_files v st : files (push_val v st) = files st.
Proof. unfold push_val. destruct (alloc v (hp st)). reflexivity. Qed.
Lemma push_val_inv v st : inv (push_val v st) = inv st.
Proof. unfold push_val. destruct (alloc v (hp st)). reflexivity. Qed.

(* pushing a value: one new cell on the stack, the store is extended (old cells untouched),
   the new cell is fresh and holds exactly the value *)
Lemma push_val_spec v st :
  exists a e, stk (push_val v st) = a :: stk st /\ hp (push_val v st) = hp st ++ e /\
              (length (hp st) <= a)%nat /\ value (hp (push_val v st)) a = Some v /\
              out (push_val v st) = out st /\ files (push_val v st) = files st /\
              inv (push_val v st) = inv st.
Proof.
  destruct (alloc_value v (hp st)) as [e [E [F V]]].
  exists (snd (alloc v (hp st))), e.
  rewrite push_val_stk, push_val_hp, push_val_out, push_val_files, push_val_inv.
  repeat split; assumption.
Qed.

Lemma step_assert_ok a st st' : In (Ok st') (step_assert a st) -> st' = set_inv false st.
Proof. unfold step_assert. intro H. crack H; reflexivity. Qed.

Lemma step_not_ok st nxt st' : In (Ok st') (step st ONot nxt) -> st' = set_inv true st.
Proof. unfold step. intro H. apply in_app_or in H. destruct H as [H|H]; crack H; reflexivity. Qed.

(* ================================================================== D. frame: the stack *)

Inductive seffect := SPush | SPop | SSame | SMove (n : nat).

Definition stack_effect (o : opt) : seffect :=
  match o with
  | OQuery | OJson _ | OCopy | OQuote _ | OLength | OGet _ | OB64Load | OB64Dump => SPush
  | OUnwind => SPop
  | OMove n => SMove n
  | _ => SSame
  end.

Definition stack_frame (o : opt) (s s' : list addr) : Prop :=
  match stack_effect o with
  | SPush => exists a, s' = a :: s
  | SPop => exists t, s = t :: s'
  | SSame => s' = s
  | SMove n => exists t r, s = t :: r /\
                 (((n <= length r)%nat /\ s' = firstn n r ++ t :: skipn n r) \/
                  ((length r < n)%nat /\ s' = r ++ [t]))
  end.

Lemma frame_stack_plain s o st' : In (Ok st') (step_plain s o) -> stack_frame o (stk s) (stk st').
Proof.
  destruct o; unfold stack_frame; cbn [stack_effect step_plain]; intro H.
  - apply step_assert_ok in H. subst. reflexivity.
  - crack H. reflexivity.
  - crack H; rewrite push_val_stk; eexists; reflexivity.
  - crack H.
    + exists a, l. split; [reflexivity|]. left. split; [apply Nat.leb_le; assumption|reflexivity].
    + exists a, l. split; [reflexivity|]. right. split; [apply Nat.leb_gt; assumption|reflexivity].
  - crack H. eexists; reflexivity.
  - crack H. rewrite push_val_stk; eexists; reflexivity.
  - crack H. rewrite push_val_stk; eexists; reflexivity.
  - crack H. rewrite push_val_stk; eexists; reflexivity.
  - crack H; destruct d; reflexivity.
  - crack H; destruct d; reflexivity.
  - crack H; destruct d; reflexivity.
  - crack H; reflexivity.
  - crack H; reflexivity.
  - crack H; reflexivity.
  - crack H; reflexivity.
  - crack H; reflexivity.
  - crack H; rewrite push_val_stk; eexists; reflexivity.
  - crack H; reflexivity.
  - crack H; eexists; reflexivity.
  - crack H; reflexivity.
  - crack H; rewrite push_val_stk; eexists; reflexivity.
  - crack H; rewrite push_val_stk; eexists; reflexivity.
Qed.

(* for EVERY option: which cells of the stack a successful execution touches *)
Theorem frame_stack st o nxt st' : In (Ok st') (step st o nxt) -> stack_frame o (stk st) (stk st').
Proof.
  intro H. destruct (plain o) eqn:P.
  - exact (frame_stack_plain _ _ _ (step_ok_plain _ _ _ _ P H)).
  - destruct o; try discriminate.
    + apply step_assert_ok in H. subst. reflexivity.
    + apply step_not_ok in H. subst. reflexivity.
Qed.

(* ================================================================== E. frame: the store *)

Inductive heffect := HSame | HAlloc | HTop | HPrev.

Definition heap_effect (o : opt) : heffect :=
  match o with
  | OQuery | OJson _ | OCopy | OQuote _ | OLength | OB64Load | OB64Dump => HAlloc
  | OTrunc _ | ODelete _ | OEmpty => HTop
  | OInsert _ | OAppend | OExtend | OSet _ => HPrev
  | _ => HSame
  end.

Definition heap_frame (o : opt) (s : state) (h' : heap) : Prop :=
  match heap_effect o with
  | HSame => h' = hp s
  | HAlloc => exists e, h' = hp s ++ e
  | HTop => h' = hp s \/ exists t n, top_addr s = Some t /\ h' = upd (hp s) t n
  | HPrev => exists p n, prev_addr s = Some p /\ h' = upd (hp s) p n
  end.

Lemma push_val_ext v st : exists e, hp (push_val v st) = hp st ++ e.
Proof. destruct (push_val_spec v st) as [a [e [_ [E _]]]]. exists e. exact E. Qed.

Lemma frame_heap_plain s o st' : In (Ok st') (step_plain s o) -> heap_frame o s (hp st').
Proof.
  destruct o; unfold heap_frame; cbn [heap_effect step_plain]; intro H;
    try (apply step_assert_ok in H; subst; reflexivity);
    try (crack H; try reflexivity; try apply push_val_ext; try (destruct d; reflexivity); fail).
  - (* -t *) crack H; try (left; reflexivity); right; eexists; eexists; (split; [reflexivity|reflexivity]).
  - (* -i *) crack H; eexists; eexists; (split; [reflexivity|reflexivity]).
  - (* -a *) crack H; eexists; eexists; (split; [reflexivity|reflexivity]).
  - (* -x *) crack H; eexists; eexists; (split; [reflexivity|reflexivity]).
  - (* -d *) crack H; try (left; reflexivity); right; eexists; eexists; (split; [reflexivity|reflexivity]).
  - (* -e *) crack H; right; eexists; eexists; (split; [reflexivity|reflexivity]).
  - (* -s *) crack H; eexists; eexists; (split; [reflexivity|reflexivity]).
Qed.

(* for EVERY option: which cells of the store a successful execution touches.  HAlloc: the old
   store is a prefix of the new one; HTop / HPrev: only the node of TOP / PREV is replaced
   ([upd_other]: every other address keeps its node) *)
Theorem frame_heap st o nxt st' : In (Ok st') (step st o nxt) -> heap_frame o st (hp st').
Proof.
  intro H. destruct (plain o) eqn:P.
  - exact (frame_heap_plain _ _ _ (step_ok_plain _ _ _ _ P H)).
  - destruct o; try discriminate.
    + apply step_assert_ok in H. subst. reflexivity.
    + apply step_not_ok in H. subst. reflexivity.
Qed.

(* values that could be read before an allocating option read the same afterwards *)
Corollary frame_heap_alloc_values st o nxt st' b v :
  heap_effect o = HAlloc -> In (Ok st') (step st o nxt) ->
  value (hp st) b = Some v -> value (hp st') b = Some v.
Proof.
  intros E H V. apply frame_heap in H. unfold heap_frame in H. rewrite E in H.
  destruct H as [e ->]. apply value_ext. exact V.
Qed.

(* ================================================================== F. frame: stdout, files, the -X flag *)

Definition io_frame (o : opt) (s s' : state) : Prop :=
  match o with
  | OOutput d | OForeach d | OUnquote d =>
      exists data,
        match d with
        | DStdout => out s' = out s ++ data /\ files s' = files s
        | DFile p => out s' = out s /\ files s' = aset p data (files s)
        end
  | _ => out s' = out s /\ files s' = files s
  end.

Lemma write_io d data s :
  match d with
  | DStdout => out (write d data s) = out s ++ data /\ files (write d data s) = files s
  | DFile p => out (write d data s) = out s /\ files (write d data s) = aset p data (files s)
  end.
Proof. destruct d; split; reflexivity. Qed.

Lemma frame_io_plain s o st' : In (Ok st') (step_plain s o) -> io_frame o s st'.
Proof.
  destruct o; unfold io_frame; cbn [step_plain]; intro H;
    try (apply step_assert_ok in H; subst; split; reflexivity);
    try (crack H; try (split; reflexivity); try (rewrite push_val_out, push_val_files; split; reflexivity); fail).
  - crack H. eexists. apply write_io.
  - crack H. eexists. apply write_io.
  - crack H; eexists; apply write_io.
Qed.

(* only -o -f -u write, and they only append to stdout resp. (re)write their file *)
Theorem frame_io st o nxt st' : In (Ok st') (step st o nxt) -> io_frame o st st'.
Proof.
  intro H. destruct (plain o) eqn:P.
  - exact (frame_io_plain _ _ _ (step_ok_plain _ _ _ _ P H)).
  - destruct o; try discriminate.
    + apply step_assert_ok in H. subst. split; reflexivity.
    + apply step_not_ok in H. subst. split; reflexivity.
Qed.

Lemma frame_flag_plain s o st' : inv s = false -> In (Ok st') (step_plain s o) -> o <> ONot -> inv st' = false.
Proof.
  destruct o; cbn [step_plain]; intros I H N; try congruence;
    try (apply step_assert_ok in H; subst; reflexivity);
    try (crack H; try exact I; try (rewrite push_val_inv; exact I); try (destruct d; exact I); fail).
Qed.

(* the -X flag is set by -X only and never survives another option *)
Theorem frame_flag st o nxt st' :
  In (Ok st') (step st o nxt) -> inv st' = match o with ONot => true | _ => false end.
Proof.
  intro H. destruct (plain o) eqn:P.
  - assert (inv st' = false).
    { eapply frame_flag_plain; [|exact (step_ok_plain _ _ _ _ P H)|destruct o; discriminate]. reflexivity. }
    destruct o; try discriminate; assumption.
  - destruct o; try discriminate.
    + apply step_assert_ok in H. subst. reflexivity.
    + apply step_not_ok in H. subst. reflexivity.
Qed.

(* ================================================================== G. type errors and missing operands *)

Inductive kind := KNull | KTrue | KFalse | KInt | KReal | KStr | KArr | KObj.

Definition kind_of (n : node) : kind :=
  match n with
  | NArr _ => KArr
  | NObj _ => KObj
  | NScal (JStr _) => KStr
  | NScal (JInt _) => KInt
  | NScal (JReal _) => KReal
  | NScal (JBool true) => KTrue
  | NScal (JBool false) => KFalse
  | NScal _ => KNull
  end.

Definition kind_eqb (a b : kind) : bool :=
  match a, b with
  | KNull, KNull | KTrue, KTrue | KFalse, KFalse | KInt, KInt | KReal, KReal
  | KStr, KStr | KArr, KArr | KObj, KObj => true
  | _, _ => false
  end.

Definition top_kind (st : state) : option kind := option_map kind_of (top_node st).
Definition prev_kind (st : state) : option kind := option_map kind_of (prev_node st).
Definition top_present (st : state) : bool := match top_addr st with Some _ => true | None => false end.
Definition prev_present (st : state) : bool := match prev_addr st with Some _ => true | None => false end.

(* what the manual demands of an operand: nothing, that it is there, or that it is there with one
   of the listed types ("TOP (arr.)", "PREV (obj.)", "Assert TOP to be ...") *)
Inductive need := NoNeed | Any | OneOf (ks : list kind).

Definition all_kinds : list kind := [KNull; KTrue; KFalse; KInt; KReal; KStr; KArr; KObj].

Definition assert_kinds (a : assertion) : list kind :=
  match a with
  | AObject => [KObj] | AArray => [KArr] | AString => [KStr] | AInteger => [KInt] | AReal => [KReal]
  | ANumber => [KInt; KReal] | ATrue => [KTrue] | AFalse => [KFalse] | ABoolean => [KTrue; KFalse]
  | ANull => [KNull]
  | AEqual => all_kinds
  end.

Definition req_top (o : opt) : need :=
  match o with
  | OAssert a => OneOf (assert_kinds a)
  | ONot | OQuery | OJson _ | OQuote _ => NoNeed
  | OMove _ | OUnwind | OCopy | OOutput _ | OB64Dump | OInsert _ | OAppend | OSet _ => Any
  | OForeach _ | OEmpty | ODelete _ | OGet _ | OExtend => OneOf [KArr; KObj]
  | OUnquote _ | OB64Load => OneOf [KStr]
  | OTrunc _ => OneOf [KArr]
  | OLength => OneOf [KArr; KStr; KObj]
  end.

Definition req_prev (o : opt) : need :=
  match o with
  | OAssert AEqual => OneOf all_kinds
  | OInsert _ => OneOf [KArr]
  | OAppend | OExtend | OSet _ => OneOf [KArr; KObj]
  | _ => NoNeed
  end.

(* -a into an object needs an object on TOP; -x needs two of a kind *)
Definition req_joint (o : opt) (t p : option kind) : bool :=
  match o, t, p with
  | OAppend, Some t, Some KObj => kind_eqb t KObj
  | OExtend, Some t, Some p => kind_eqb t p
  | _, _, _ => true
  end.

Definition meets (nd : need) (present : bool) (k : option kind) : bool :=
  match nd with
  | NoNeed => true
  | Any => present
  | OneOf ks => match k with Some k => existsb (kind_eqb k) ks | None => false end
  end.

Definition operands_ok (st : state) (o : opt) : bool :=
  meets (req_top o) (top_present st) (top_kind st) &&
  meets (req_prev o) (prev_present st) (prev_kind st) &&
  req_joint o (top_kind st) (prev_kind st).

Ltac crackf H :=
  repeat match type of H with
  | In _ (match ?x with _ => _ end) => destruct x eqn:?
  | In _ (if ?x then _ else _) => destruct x eqn:?
  | In _ (fail_w _ _) => apply fail_w_fails in H
  | In _ (guard_cyc _ _ _) => unfold guard_cyc in H
  | In _ (_ :: _) => destruct H as [H|H]
  | In _ [] => destruct H
  end.

Lemma assert_wrong a st :
  inv st = false -> operands_ok st (OAssert a) = false ->
  forall r, In r (step_assert a st) -> is_fail r = true.
Proof.
  intros I M r H. unfold step_assert in H. rewrite I in H.
  unfold operands_ok, top_kind, prev_kind in M. cbn [req_top req_prev req_joint] in M.
  assert (V : holds a st = VMissing \/ holds a st = VHolds false).
  { unfold holds.
    destruct a; try (destruct (top_node st) as [[[]|?|?]|]; cbn in *; try discriminate; auto;
                     try destruct b; try discriminate; auto; fail).
    destruct (top_node st) as [n|], (prev_node st) as [n'|]; cbn in *; auto.
    exfalso. destruct n as [[]|?|?]; try destruct b; destruct n' as [[]|?|?]; try destruct b; discriminate. }
  destruct V as [V|V]; rewrite V in H; cbn in H; destruct H as [H|[]]; subst; reflexivity.
Qed.

Lemma type_errors_plain s o :
  plain o = true -> operands_ok s o = false -> forall r, In r (step_plain s o) -> is_fail r = true.
Proof.
  intros P M r H. unfold operands_ok, top_kind, prev_kind, top_present, prev_present in M.
  destruct o; try discriminate P; cbn [step_plain req_top req_prev req_joint meets] in *;
    try discriminate M.
  - (* -M *) unfold top_addr in M. destruct (stk s); [|discriminate M]. destruct H as [H|[]]. subst. reflexivity.
  - (* -U *) unfold top_addr in M. destruct (stk s); [|discriminate M]. destruct H as [H|[]]. subst. reflexivity.
  - (* -c *) crackf H; subst; try reflexivity; try assumption; cbn in M; discriminate.
  - (* -o *) crackf H; subst; try reflexivity; try assumption; cbn in M; discriminate.
  - (* -f *) unfold foreach_lines in H. destruct (top_node s) as [[v|l|m]|]; crackf H; subst; try reflexivity; try assumption; cbn in M; discriminate.
  - (* -u *) crackf H; subst; try reflexivity; try assumption; cbn in M; discriminate.
  - (* -t *) crackf H; subst; try reflexivity; try assumption; cbn in M; discriminate.
  - (* -i *) crackf H; subst; try reflexivity; try assumption; cbn in M; discriminate.
  - (* -a *) crackf H; subst; try reflexivity; try assumption; cbn in M;
      try discriminate; repeat match goal with n : node |- _ => destruct n as [[]|?|?] end;
      try match goal with b : bool |- _ => destruct b end; cbn in M; discriminate.
  - (* -x *) crackf H; subst; try reflexivity; try assumption; cbn in M; discriminate.
  - (* -d *) crackf H; subst; try reflexivity; try assumption; cbn in M; discriminate.
  - (* -l *) crackf H; subst; try reflexivity; try assumption; cbn in M; discriminate.
  - (* -e *) crackf H; subst; try reflexivity; try assumption; cbn in M; discriminate.
  - (* -g *) crackf H; subst; try reflexivity; try assumption; cbn in M; discriminate.
  - (* -s *) crackf H; subst; try reflexivity; try assumption; cbn in M; discriminate.
  - (* -y *) crackf H; subst; try reflexivity; try assumption; cbn in M; discriminate.
  - (* -Y *) crackf H; subst; try reflexivity; try assumption; cbn in M; discriminate.
Qed.

(* an option applied to a value of the wrong type, or to a missing TOP / PREV, FAILS in every
   reading -- it is never ignored.  (Assertions: when not inverted by a pending -X.) *)
Theorem type_errors st o nxt :
  operands_ok st o = false ->
  (is_assert o = true -> inv st = false) ->
  forall r, In r (step st o nxt) -> is_fail r = true.
Proof.
  intros M IA. destruct (plain o) eqn:P.
  - apply step_fail_plain; [exact P|]. apply type_errors_plain; [exact P|exact M].
  - destruct o; try discriminate.
    intros r H. exact (assert_wrong a st (IA eq_refl) M r H).
Qed.

(* ================================================================== H. -X *)

(* an assertion whose truth value is b: passes iff (pending -X) xor b; nothing else changes *)
Theorem assertion_law a st nxt b :
  holds a st = VHolds b ->
  step st (OAssert a) nxt = if xorb (inv st) b then [Ok (set_inv false st)] else [Fail (files st)].
Proof. unfold step, step_assert. intros ->. reflexivity. Qed.

(* -X inverts exactly the next assertion: the assertion right after it is judged inverted and
   consumes the flag, the one after that is judged plainly *)
Theorem not_applies_once st a a' nxt b b' :
  inv st = false -> holds a st = VHolds b -> holds a' st = VHolds b' ->
  step st ONot (Some (OAssert a)) = [Ok (set_inv true st)] /\
  step (set_inv true st) (OAssert a) (Some (OAssert a')) =
    (if b then [Fail (files st)] else [Ok (set_inv false st)]) /\
  step (set_inv false st) (OAssert a') nxt =
    (if b' then [Ok (set_inv false st)] else [Fail (files st)]).
Proof.
  intros I Ha Ha'. repeat split.
  - unfold step. rewrite I. reflexivity.
  - rewrite (assertion_law a (set_inv true st) _ b Ha). destruct b; reflexivity.
  - rewrite (assertion_law a' (set_inv false st) _ b' Ha'). destruct b'; reflexivity.
Qed.

(* ================================================================== I. indices *)

(* "#" counts from the start, "-#" from the end, everything else is out of range *)
Theorem conv_index_spec len z :
  match conv_index len z with
  | Some i => (i < len)%nat /\
              (((0 <= z)%Z /\ Z.of_nat i = z) \/ ((z < 0)%Z /\ Z.of_nat i = (Z.of_nat len + z)%Z))
  | None => (Z.of_nat len <= z)%Z \/ (z < - Z.of_nat len)%Z
  end.
Proof.
  unfold conv_index. destruct (z <? 0)%Z eqn:N.
  - apply Z.ltb_lt in N.
    destruct ((0 <=? z + Z.of_nat len)%Z && (z + Z.of_nat len <? Z.of_nat len)%Z) eqn:R.
    + apply andb_true_iff in R as [R1 R2]. apply Z.leb_le in R1. apply Z.ltb_lt in R2.
      split; [lia|]. right. split; [exact N|]. rewrite Z2Nat.id by lia. lia.
    + apply andb_false_iff in R as [R|R]; [apply Z.leb_gt in R|apply Z.ltb_ge in R]; lia.
  - apply Z.ltb_ge in N.
    destruct ((0 <=? z)%Z && (z <? Z.of_nat len)%Z) eqn:R.
    + apply andb_true_iff in R as [R1 R2]. apply Z.ltb_lt in R2.
      split; [lia|]. left. split; [exact N|]. rewrite Z2Nat.id by lia. reflexivity.
    + apply andb_false_iff in R as [R|R]; [apply Z.leb_gt in R|apply Z.ltb_ge in R]; lia.
Qed.

Lemma conv_index_in_range len z :
  (- Z.of_nat len <= z < Z.of_nat len)%Z ->
  conv_index len z = Some (Z.to_nat (if (z <? 0)%Z then Z.of_nat len + z else z)%Z).
Proof.
  intro R. unfold conv_index. destruct (z <? 0)%Z eqn:N.
  - apply Z.ltb_lt in N. rewrite (Z.add_comm z).
    replace ((0 <=? Z.of_nat len + z)%Z && (Z.of_nat len + z <? Z.of_nat len)%Z) with true; [reflexivity|].
    symmetry. apply andb_true_iff. split; [apply Z.leb_le|apply Z.ltb_lt]; lia.
  - apply Z.ltb_ge in N.
    replace ((0 <=? z)%Z && (z <? Z.of_nat len)%Z) with true; [reflexivity|].
    symmetry. apply andb_true_iff. split; [apply Z.leb_le|apply Z.ltb_lt]; lia.
Qed.

Lemma conv_index_out_of_range len z :
  (Z.of_nat len <= z)%Z \/ (z < - Z.of_nat len)%Z -> conv_index len z = None.
Proof.
  intro R. pose proof (conv_index_spec len z) as S. destruct (conv_index len z); [|reflexivity]. lia.
Qed.

(* -g on an array: inside the range the element (counted from the start or from the end) is
   pushed -- its ADDRESS, the store is not touched; outside the range the option fails *)
Theorem get_by_index st arg nxt l z :
  inv st = false -> top_node st = Some (NArr l) -> parse_index arg = Some z ->
  ((- Z.of_nat (length l) <= z < Z.of_nat (length l))%Z ->
     exists a, nth_error l (Z.to_nat (if (z <? 0)%Z then Z.of_nat (length l) + z else z)%Z) = Some a /\
               step st (OGet arg) nxt = [Ok (push_addr a st)]) /\
  ((Z.of_nat (length l) <= z)%Z \/ (z < - Z.of_nat (length l))%Z ->
     step st (OGet arg) nxt = [Fail (files st)]).
Proof.
  intros I T P. unfold step. rewrite I. cbn [step_plain]. rewrite T. unfold arg_index. rewrite P. split.
  - intro R. rewrite (conv_index_in_range _ _ R).
    set (i := Z.to_nat _). assert (L : (i < length l)%nat) by (subst i; destruct (z <? 0)%Z eqn:N; [apply Z.ltb_lt in N|apply Z.ltb_ge in N]; lia).
    destruct (nth_error l i) as [a|] eqn:E; [exists a; split; reflexivity|].
    apply nth_error_None in E. lia.
  - intro R. rewrite (conv_index_out_of_range _ _ R). reflexivity.
Qed.

Theorem delete_by_index st arg nxt t l z :
  inv st = false -> top_addr st = Some t -> top_node st = Some (NArr l) -> parse_index arg = Some z ->
  ((- Z.of_nat (length l) <= z < Z.of_nat (length l))%Z ->
     step st (ODelete arg) nxt =
       [Ok (set_node t (NArr (remove_at (Z.to_nat (if (z <? 0)%Z then Z.of_nat (length l) + z else z)%Z) l)) st)]) /\
  ((Z.of_nat (length l) <= z)%Z \/ (z < - Z.of_nat (length l))%Z ->
     step st (ODelete arg) nxt = [Fail (files st)]).
Proof.
  intros I A T P. unfold step. rewrite I. cbn [step_plain]. rewrite A, T. unfold arg_index. rewrite P. split.
  - intro R. rewrite (conv_index_in_range _ _ R). reflexivity.
  - intro R. rewrite (conv_index_out_of_range _ _ R). reflexivity.
Qed.

(* ================================================================== J. -t *)

(* -t #: shrink to length #;  -t -#: discard the last # items.  Only the node of TOP is replaced,
   by a prefix of the old array of exactly the documented length. *)
Theorem trunc_spec st z nxt t l :
  inv st = false -> top_addr st = Some t -> top_node st = Some (NArr l) ->
  ((0 <= z <= Z.of_nat (length l))%Z ->
     step st (OTrunc z) nxt = [Ok (set_node t (NArr (firstn (Z.to_nat z) l)) st)] /\
     length (firstn (Z.to_nat z) l) = Z.to_nat z) /\
  ((- Z.of_nat (length l) <= z < 0)%Z ->
     step st (OTrunc z) nxt = [Ok (set_node t (NArr (firstn (length l - Z.to_nat (- z)) l)) st)] /\
     length (firstn (length l - Z.to_nat (- z)) l) = (length l - Z.to_nat (- z))%nat).
Proof.
  intros I A T. unfold step. rewrite I. cbn [step_plain]. rewrite A, T. split; intro R.
  - replace (0 <=? z)%Z with true by (symmetry; apply Z.leb_le; lia).
    replace (Z.to_nat z <=? length l)%nat with true by (symmetry; apply Nat.leb_le; lia).
    split; [reflexivity|]. apply firstn_length_le. lia.
  - replace (0 <=? z)%Z with false by (symmetry; apply Z.leb_gt; lia).
    replace (Z.to_nat (- z) <=? length l)%nat with true by (symmetry; apply Nat.leb_le; lia).
    split; [reflexivity|]. apply firstn_length_le. lia.
Qed.

(* -t on anything but an array fails *)
Theorem trunc_non_array st z nxt :
  (forall l, top_node st <> Some (NArr l)) -> forall r, In r (step st (OTrunc z) nxt) -> is_fail r = true.
Proof.
  intros N. apply step_fail_plain; [reflexivity|]. intros r H. cbn [step_plain] in H.
  change (top_node (set_inv false st)) with (top_node st) in H.
  crackf H; subst; try reflexivity; exfalso; eapply N; reflexivity.
Qed.

(* ================================================================== K. frames of the main option families *)

Definition same_io (s s' : state) : Prop := out s' = out s /\ files s' = files s.

(* a fresh cell holding v is pushed; nothing else changes *)
Definition pushes_value (v : json) (st st' : state) : Prop :=
  exists a e, stk st' = a :: stk st /\ hp st' = hp st ++ e /\ (length (hp st) <= a)%nat /\
              value (hp st') a = Some v /\ same_io st st' /\ inv st' = false.

Lemma push_val_pushes v st : pushes_value v st (push_val v (set_inv false st)).
Proof.
  destruct (push_val_spec v (set_inv false st)) as [a [e [S [H [F [V [O [Fi I]]]]]]]].
  exists a, e. repeat split; assumption.
Qed.

Theorem frame_json st v nxt st' : In (Ok st') (step st (OJson v) nxt) -> pushes_value v st st'.
Proof.
  intro H. apply step_ok_plain in H; [|reflexivity]. cbn [step_plain] in H. crack H. apply push_val_pushes.
Qed.

Theorem frame_quote st s nxt st' : In (Ok st') (step st (OQuote s) nxt) -> pushes_value (JStr s) st st'.
Proof.
  intro H. apply step_ok_plain in H; [|reflexivity]. cbn [step_plain] in H. crack H. apply push_val_pushes.
Qed.

(* -c: the value of TOP is pushed as a FRESH tree (no sharing with the original) *)
Theorem frame_copy st nxt st' :
  In (Ok st') (step st OCopy nxt) ->
  exists t v, top_addr st = Some t /\ value (hp st) t = Some v /\ pushes_value v st st'.
Proof.
  intro H. apply step_ok_plain in H; [|reflexivity]. cbn [step_plain] in H. crack H.
  exists a, j. repeat split; try assumption. apply push_val_pushes.
Qed.

(* -l: the integer length of TOP (arr./str./obj.) is pushed *)
Theorem frame_length st nxt st' :
  In (Ok st') (step st OLength nxt) ->
  exists n, pushes_value (JInt (Z.of_nat n)) st st' /\
            ((exists l, top_node st = Some (NArr l) /\ n = length l) \/
             (exists m, top_node st = Some (NObj m) /\ n = length m) \/
             (exists s, top_node st = Some (NScal (JStr s)) /\ n = length s)).
Proof.
  intro H. apply step_ok_plain in H; [|reflexivity]. cbn [step_plain] in H.
  change (top_node (set_inv false st)) with (top_node st) in H. crack H.
  - eexists. split; [apply push_val_pushes|]. right. right. eexists. split; reflexivity.
  - eexists. split; [apply push_val_pushes|]. left. eexists. split; reflexivity.
  - eexists. split; [apply push_val_pushes|]. right. left. eexists. split; reflexivity.
Qed.

(* -g: the ADDRESS of the member is pushed: TOP's value is not altered, the store is untouched,
   and the new TOP is shared with its parent *)
Theorem frame_get st arg nxt st' :
  In (Ok st') (step st (OGet arg) nxt) ->
  hp st' = hp st /\ same_io st st' /\
  exists a, stk st' = a :: stk st /\
    ((exists m, top_node st = Some (NObj m) /\ alookup arg m = Some a) \/
     (exists l i, top_node st = Some (NArr l) /\ arg_index (length l) arg = Some i /\ nth_error l i = Some a)).
Proof.
  intro H. apply step_ok_plain in H; [|reflexivity]. cbn [step_plain] in H.
  change (top_node (set_inv false st)) with (top_node st) in H. crack H.
  - repeat split. exists a. split; [reflexivity|]. right. exists l, n0. repeat split; assumption.
  - repeat split. exists a. split; [reflexivity|]. left. exists m. split; [reflexivity|assumption].
Qed.

(* -U pops and does nothing else *)
Theorem frame_unwind st nxt st' :
  In (Ok st') (step st OUnwind nxt) -> exists t, stk st = t :: stk st' /\ hp st' = hp st /\ same_io st st'.
Proof.
  intro H. apply step_ok_plain in H; [|reflexivity]. cbn [step_plain] in H.
  change (stk (set_inv false st)) with (stk st) in H. crack H. exists a. repeat split.
Qed.

(* -s: only the node of PREV is replaced; it now REFERS to TOP's cell (no copy) *)
Theorem frame_set st arg nxt st' :
  In (Ok st') (step st (OSet arg) nxt) ->
  stk st' = stk st /\ same_io st st' /\
  exists t p, top_addr st = Some t /\ prev_addr st = Some p /\
    ((exists m, prev_node st = Some (NObj m) /\ hp st' = upd (hp st) p (NObj (aset arg t m))) \/
     (exists l i, prev_node st = Some (NArr l) /\ arg_index (length l) arg = Some i /\
                  hp st' = upd (hp st) p (NArr (upd l i t)))).
Proof.
  intro H. apply step_ok_plain in H; [|reflexivity]. cbn [step_plain] in H.
  change (top_addr (set_inv false st)) with (top_addr st) in H.
  change (prev_addr (set_inv false st)) with (prev_addr st) in H.
  change (prev_node (set_inv false st)) with (prev_node st) in H.
  change (top_node (set_inv false st)) with (top_node st) in H.
  crack H; repeat split; exists a, a0; repeat split.
  - right. exists l, n1. repeat split; assumption.
  - left. exists m. split; reflexivity.
Qed.

(* -a: PREV (arr.) gets a reference to TOP's cell at its end; PREV (obj.) gets the members of
   TOP (obj.) it does not have yet *)
Theorem frame_append st nxt st' :
  In (Ok st') (step st OAppend nxt) ->
  stk st' = stk st /\ same_io st st' /\
  exists t p, top_addr st = Some t /\ prev_addr st = Some p /\
    ((exists l, prev_node st = Some (NArr l) /\ hp st' = upd (hp st) p (NArr (l ++ [t]))) \/
     (exists m o, prev_node st = Some (NObj m) /\ top_node st = Some (NObj o) /\
                   hp st' = upd (hp st) p (NObj (add_missing m o)))).
Proof.
  intro H. apply step_ok_plain in H; [|reflexivity]. cbn [step_plain] in H.
  change (top_addr (set_inv false st)) with (top_addr st) in H.
  change (prev_addr (set_inv false st)) with (prev_addr st) in H.
  change (prev_node (set_inv false st)) with (prev_node st) in H.
  change (top_node (set_inv false st)) with (top_node st) in H.
  crack H; repeat split; exists a, a0; repeat split;
    try (left; eexists; split; reflexivity);
    try (right; eexists; eexists; split; [reflexivity|split; reflexivity]).
Qed.

(* -o: the serialization of TOP's value goes to stdout / the file; nothing else changes *)
Theorem frame_output st d nxt st' :
  In (Ok st') (step st (OOutput d) nxt) ->
  stk st' = stk st /\ hp st' = hp st /\
  exists t v, top_addr st = Some t /\ value (hp st) t = Some v /\
    match d with
    | DStdout => out st' = out st ++ dump v /\ files st' = files st
    | DFile p => out st' = out st /\ files st' = aset p (dump v) (files st)
    end.
Proof.
  intro H. apply step_ok_plain in H; [|reflexivity]. cbn [step_plain] in H. crack H.
  split; [destruct d; reflexivity|]. split; [destruct d; reflexivity|].
  exists a, j. repeat split; try assumption. exact (write_io d (dump j) (set_inv false st)).
Qed.

(* assertions and -X touch nothing but the flag *)
Theorem frame_assert st a nxt st' :
  In (Ok st') (step st (OAssert a) nxt) -> st' = set_inv false st.
Proof. apply step_assert_ok. Qed.

Theorem frame_not st nxt st' : In (Ok st') (step st ONot nxt) -> st' = set_inv true st.
Proof. apply step_not_ok. Qed.

(* a failing option leaves stdout alone: the result of the run carries the stdout of the state
   before it (see exit_index); a successful one only ever appends *)
Theorem out_monotone st o nxt st' : In (Ok st') (step st o nxt) -> exists d, out st' = out st ++ d.
Proof.
  intro H. apply frame_io in H. unfold io_frame in H.
  destruct o; try (exists []; rewrite app_nil_r; apply H);
    destruct H as [data H]; destruct d; try (exists data; apply H); exists []; rewrite app_nil_r; apply H.
Qed.

Lemma runs_from_nonempty p : forall st i, runs_from st i p <> [].
Proof.
  induction p as [|o rest IH]; intros st i; simpl; [discriminate|].
  assert (S : exists r l, step st o (hd_error rest) = r :: l).
  { unfold step. destruct o; try (destruct (inv st); [eexists; eexists; reflexivity|]).
    all: try (unfold step_assert; destruct (holds a st); try destruct (inv st); try destruct (xorb _ _); eexists; eexists; reflexivity).
    all: try (destruct (next_is_assert (hd_error rest)); eexists; eexists; reflexivity).
    all: cbn [step_plain]; unfold guard_cyc, fail_w;
      repeat match goal with |- context [match ?x with _ => _ end] => destruct x end;
      eexists; eexists; reflexivity. }
  destruct S as [r [l E]]. rewrite E. simpl. destruct r.
  - discriminate.
  - specialize (IH st0 (S i)). destruct (runs_from st0 (S i) rest); [congruence|discriminate].
Qed.

(* the manual always allows at least one behaviour, and [run] is one of them *)
Theorem run_in_runs p : In (run p) (runs p).
Proof.
  unfold run, runs. pose proof (runs_from_nonempty p init 0). destruct (runs_from init 0 p); [congruence|].
  left. reflexivity.
Qed.

(* ASCII text as bytes, for examples *)
Fixpoint s2b (s : String.string) : bytes :=
  match s with
  | String.EmptyString => []
  | String.String c r => Ascii.N_of_ascii c :: s2b r
  end.
Arguments s2b _%string_scope.
