(* C19 -- theorems about the reference semantics of `jose fmt` (Cli/Fmt.v).
   All statements are for ALL programs / states; no bound except the 255-option premise
   where the 8-bit exit status is concerned. *)
From JoseV Require Import Cli.Fmt.
Local Open Scope N_scope.

(* ================================================================== A. the store *)

Lemma mapM_impl {A B} (f g : A -> option B) l ys :
  (forall x y, In x l -> f x = Some y -> g x = Some y) -> mapM f l = Some ys -> mapM g l = Some ys.
Proof.
  revert ys. induction l as [|x l IH]; simpl; intros ys H E; [exact E|].
  destruct (f x) as [y|] eqn:Fx; [|discriminate].
  destruct (mapM f l) as [t|] eqn:Ft; [|discriminate].
  rewrite (H x y (or_introl eq_refl) Fx). rewrite (IH t); [exact E| |reflexivity].
  intros x' y' Hin. apply H. right. exact Hin.
Qed.

Lemma mapM_length {A B} (f : A -> option B) l ys : mapM f l = Some ys -> length ys = length l.
Proof.
  revert ys. induction l as [|x l IH]; simpl; intros ys E.
  - inversion E. reflexivity.
  - destruct (f x); [|discriminate]. destruct (mapM f l) eqn:Ft; [|discriminate].
    inversion E; subst. simpl. f_equal. apply IH. reflexivity.
Qed.

(* more fuel and a longer store do not change a value that could be read *)
Lemma reify_weaken f : forall h a v f' e,
  reify f h a = Some v -> (f <= f')%nat -> reify f' (h ++ e) a = Some v.
Proof.
  induction f as [|f IH]; intros h a v f' e E L; [discriminate|].
  destruct f' as [|f']; [lia|]. simpl in *.
  destruct (nth_error h a) as [n|] eqn:Hn; [|discriminate].
  assert (Ha : (a < length h)%nat) by (apply nth_error_Some; congruence).
  rewrite nth_error_app1 by exact Ha. rewrite Hn.
  destruct n as [s|l|m].
  - exact E.
  - destruct (mapM (reify f h) l) as [vs|] eqn:Hm; [|discriminate].
    rewrite (mapM_impl _ (reify f' (h ++ e)) l vs); [exact E| |exact Hm].
    intros x y _ Hx. apply IH; [exact Hx|lia].
  - match type of E with option_map _ (mapM ?F m) = _ => destruct (mapM F m) as [vs|] eqn:Hm; [|discriminate] end.
    match goal with |- option_map _ (mapM ?G m) = _ => rewrite (mapM_impl _ G m vs); [exact E| |exact Hm] end.
    intros x y _ Hx. cbv beta in *.
    destruct (reify f h (snd x)) as [w|] eqn:Hw; [|discriminate].
    rewrite (IH h (snd x) w f' e Hw); [exact Hx|lia].
Qed.

Lemma value_ext h a v e : value h a = Some v -> value (h ++ e) a = Some v.
Proof.
  unfold value. intro E. apply reify_weaken; [exact E|]. rewrite app_length. lia.
Qed.

Fixpoint jdepth (j : json) : nat :=
  match j with
  | JArr l => S ((fix go (l : list json) : nat :=
                    match l with [] => O | x :: r => Nat.max (jdepth x) (go r) end) l)
  | JObj m => S ((fix go (m : list (bytes * json)) : nat :=
                    match m with [] => O | kv :: r => Nat.max (jdepth (snd kv)) (go r) end) m)
  | _ => O
  end.

Fixpoint maxd_list (l : list json) : nat :=
  match l with [] => O | x :: r => Nat.max (jdepth x) (maxd_list r) end.
Fixpoint maxd_members (m : list (bytes * json)) : nat :=
  match m with [] => O | kv :: r => Nat.max (jdepth (snd kv)) (maxd_members r) end.

Lemma jdepth_arr l : jdepth (JArr l) = S (maxd_list l).
Proof. reflexivity. Qed.
Lemma jdepth_obj m : jdepth (JObj m) = S (maxd_members m).
Proof. reflexivity. Qed.

Lemma alloc_arr l h :
  alloc (JArr l) h = let '(h1, al) := alloc_list l h in (h1 ++ [NArr al], length h1).
Proof. reflexivity. Qed.
Lemma alloc_obj m h :
  alloc (JObj m) h = let '(h1, al) := alloc_members m h in (h1 ++ [NObj al], length h1).
Proof. reflexivity. Qed.

Definition alloc_ok (j : json) : Prop :=
  forall h, exists e,
    fst (alloc j h) = h ++ e /\ (jdepth j < length e)%nat /\
    (length h <= snd (alloc j h))%nat /\
    reify (S (jdepth j)) (h ++ e) (snd (alloc j h)) = Some j.

Lemma alloc_scalar j h :
  alloc j h = (h ++ [NScal j], length h) -> jdepth j = O ->
  exists e, fst (alloc j h) = h ++ e /\ (jdepth j < length e)%nat /\
            (length h <= snd (alloc j h))%nat /\
            reify (S (jdepth j)) (h ++ e) (snd (alloc j h)) = Some j.
Proof.
  intros E D. exists [NScal j]. rewrite E, D. simpl. repeat split; try lia.
  rewrite nth_error_app2 by lia. rewrite Nat.sub_diag. reflexivity.
Qed.

Lemma mapM_forall2 {A B} (f : A -> option B) al l :
  Forall2 (fun a x => f a = Some x) al l -> mapM f al = Some l.
Proof.
  induction 1 as [|a x al l Hax _ IH]; simpl; [reflexivity|]. rewrite Hax, IH. reflexivity.
Qed.

Lemma alloc_list_spec l : Forall alloc_ok l -> forall h, exists e,
  fst (alloc_list l h) = h ++ e /\ (maxd_list l <= length e)%nat /\
  Forall2 (fun a x => reify (S (jdepth x)) (h ++ e) a = Some x) (snd (alloc_list l h)) l.
Proof.
  induction 1 as [|x l Hx _ IH]; intro h.
  - exists []. simpl. rewrite app_nil_r. repeat split; [lia|constructor].
  - simpl. destruct (Hx h) as [e1 [E1 [D1 [_ R1]]]].
    destruct (alloc x h) as [h1 a] eqn:Ea. simpl in E1, R1. subst h1.
    destruct (IH (h ++ e1)) as [e2 [E2 [D2 R2]]].
    destruct (alloc_list l (h ++ e1)) as [h2 al] eqn:El. simpl in E2, R2 |- *. subst h2.
    exists (e1 ++ e2). rewrite app_assoc. repeat split.
    + rewrite app_length. lia.
    + constructor.
      * apply reify_weaken; [exact R1|lia].
      * exact R2.
Qed.

Lemma alloc_members_spec m : Forall (fun kv => alloc_ok (snd kv)) m -> forall h, exists e,
  fst (alloc_members m h) = h ++ e /\ (maxd_members m <= length e)%nat /\
  Forall2 (fun (ka : bytes * addr) (kv : bytes * json) =>
             fst ka = fst kv /\ reify (S (jdepth (snd kv))) (h ++ e) (snd ka) = Some (snd kv))
          (snd (alloc_members m h)) m.
Proof.
  induction 1 as [|x l Hx _ IH]; intro h.
  - exists []. simpl. rewrite app_nil_r. repeat split; [lia|constructor].
  - simpl. destruct (Hx h) as [e1 [E1 [D1 [_ R1]]]].
    destruct (alloc (snd x) h) as [h1 a] eqn:Ea. simpl in E1, R1. subst h1.
    destruct (IH (h ++ e1)) as [e2 [E2 [D2 R2]]].
    destruct (alloc_members l (h ++ e1)) as [h2 al] eqn:El. simpl in E2, R2 |- *. subst h2.
    exists (e1 ++ e2). rewrite app_assoc. repeat split.
    + rewrite app_length. lia.
    + constructor.
      * simpl. split; [reflexivity|]. apply reify_weaken; [exact R1|lia].
      * exact R2.
Qed.

Lemma maxd_list_in x l : In x l -> (jdepth x <= maxd_list l)%nat.
Proof. induction l as [|y l IH]; simpl; intros []; [subst; lia|]. specialize (IH H). lia. Qed.
Lemma maxd_members_in x m : In x m -> (jdepth (snd x) <= maxd_members m)%nat.
Proof. induction m as [|y l IH]; simpl; intros []; [subst; lia|]. specialize (IH H). lia. Qed.

Lemma Forall2_weaken_in {A B} (P Q : A -> B -> Prop) l1 l2 :
  (forall a b, In b l2 -> P a b -> Q a b) -> Forall2 P l1 l2 -> Forall2 Q l1 l2.
Proof.
  intros H F. induction F as [|a b l1 l2 Pab _ IH]; constructor.
  - apply H; [left; reflexivity|exact Pab].
  - apply IH. intros a' b' Hin. apply H. right. exact Hin.
Qed.

Theorem alloc_spec : forall j, alloc_ok j.
Proof.
  induction j using json_ind'; intro h; try (apply alloc_scalar; reflexivity).
  - (* arrays *)
    destruct (alloc_list_spec l H h) as [e [E [D R]]].
    rewrite alloc_arr. destruct (alloc_list l h) as [h1 al]. simpl in E, R |- *. subst h1.
    exists (e ++ [NArr al]). rewrite app_assoc. repeat split.
    + rewrite app_length. simpl. fold (maxd_list l). lia.
    + rewrite app_length. lia.
    + fold (maxd_list l). rewrite nth_error_app2 by lia. rewrite Nat.sub_diag. simpl.
      rewrite (mapM_forall2 _ al l); [reflexivity|].
      eapply Forall2_weaken_in; [|exact R]. intros a b Hin Hr. cbv beta in *.
      apply reify_weaken; [exact Hr|]. apply maxd_list_in in Hin. lia.
  - (* objects *)
    destruct (alloc_members_spec m H h) as [e [E [D R]]].
    rewrite alloc_obj. destruct (alloc_members m h) as [h1 al]. simpl in E, R |- *. subst h1.
    exists (e ++ [NObj al]). rewrite app_assoc. repeat split.
    + rewrite app_length. simpl. fold (maxd_members m). lia.
    + rewrite app_length. lia.
    + fold (maxd_members m). rewrite nth_error_app2 by lia. rewrite Nat.sub_diag. simpl.
      match goal with |- option_map _ (mapM ?F al) = _ => rewrite (mapM_forall2 F al m); [reflexivity|] end.
      eapply Forall2_weaken_in; [|exact R]. intros a b Hin [Hk Hr]. cbv beta in *.
      rewrite (reify_weaken _ _ _ _ (S (maxd_members m)) [] Hr).
      * rewrite Hk. destruct b; reflexivity.
      * apply maxd_members_in in Hin. lia.
Qed.

(* what allocation does: the store is extended, the new address is fresh and holds the tree *)
Theorem alloc_value j h :
  exists e, fst (alloc j h) = h ++ e /\ (length h <= snd (alloc j h))%nat /\
            value (fst (alloc j h)) (snd (alloc j h)) = Some j.
Proof.
  destruct (alloc_spec j h) as [e [E [D [F R]]]]. exists e. repeat split; [exact E|exact F|].
  rewrite E. unfold value. rewrite <- (app_nil_r (h ++ e)) at 2.
  apply reify_weaken; [exact R|]. rewrite app_length. lia.
Qed.

Lemma upd_other {A} (l : list A) a x b : a <> b -> nth_error (upd l a x) b = nth_error l b.
Proof.
  revert a b. induction l as [|y l IH]; intros [|a] [|b] N; simpl; try reflexivity; try congruence.
  apply IH. congruence.
Qed.

Lemma upd_same {A} (l : list A) a x : (a < length l)%nat -> nth_error (upd l a x) a = Some x.
Proof.
  revert a. induction l as [|y l IH]; intros [|a] L; simpl in *; try lia; [reflexivity|]. apply IH. lia.
Qed.

Lemma upd_length {A} (l : list A) a x : length (upd l a x) = length l.
Proof. revert a. induction l as [|y l IH]; intros [|a]; simpl; try reflexivity. f_equal. apply IH. Qed.

(* ================================================================== B. programs: exit status *)

(* [reaches st pre rest st']: running the options [pre] (which are followed by [rest]) from [st],
   every one of them succeeding, can lead to [st'] *)
Inductive reaches : state -> list opt -> list opt -> state -> Prop :=
| reaches_nil st rest : reaches st [] rest st
| reaches_cons st o pre rest st1 st' :
    In (Ok st1) (step st o (hd_error (pre ++ rest))) ->
    reaches st1 pre rest st' ->
    reaches st (o :: pre) rest st'.

Definition ends_ok (st : state) (p : list opt) (r : result) : Prop :=
  exists st', reaches st p [] st' /\ r = (0, out st', files st').

Definition ends_fail (st : state) (i : nat) (p : list opt) (r : result) : Prop :=
  exists pre o rest st' fs,
    p = pre ++ o :: rest /\
    reaches st pre (o :: rest) st' /\
    In (Fail fs) (step st' o (hd_error rest)) /\
    r = (N.of_nat (S (i + length pre)), out st', fs).

Theorem runs_from_spec p : forall st i r,
  In r (runs_from st i p) <-> ends_ok st p r \/ ends_fail st i p r.
Proof.
  induction p as [|o rest IH]; intros st i r; simpl.
  - split.
    + intros [E|[]]. left. exists st. split; [constructor|symmetry; exact E].
    + intros [[st' [R E]]|[pre [o [rest [st' [fs [E _]]]]]]].
      * inversion R; subst. left. reflexivity.
      * destruct pre; discriminate.
  - rewrite in_flat_map. split.
    + intros [[fs|st1] [Hin Hr]].
      * destruct Hr as [E|[]]. right. exists [], o, rest, st, fs. simpl.
        rewrite Nat.add_0_r. repeat split; [constructor|exact Hin|symmetry; exact E].
      * apply IH in Hr. destruct Hr as [[st' [R E]]|[pre [o' [rest' [st' [fs [E [R [F Er]]]]]]]]].
        -- left. exists st'. split; [|exact E]. econstructor; [|exact R]. rewrite app_nil_r. exact Hin.
        -- right. exists (o :: pre), o', rest', st', fs. subst rest. simpl. repeat split.
           ++ econstructor; [exact Hin|exact R].
           ++ exact F.
           ++ rewrite Er. repeat f_equal. lia.
    + intros [[st' [R E]]|[pre [o' [rest' [st' [fs [E [R [F Er]]]]]]]]].
      * inversion R; subst. rewrite app_nil_r in *. exists (Ok st1). split; [assumption|].
        apply IH. left. exists st'. split; [assumption|reflexivity].
      * destruct pre as [|o1 pre].
        -- simpl in E. inversion E; subst o' rest'. inversion R; subst.
           exists (Fail fs). split; [exact F|]. left. rewrite Nat.add_0_r. reflexivity.
        -- simpl in E. inversion E; subst o1 rest. inversion R; subst.
           exists (Ok st1). split; [assumption|]. apply IH. right.
           exists pre, o', rest', st', fs. repeat split; [assumption|exact F|].
           repeat f_equal. simpl. lia.
Qed.

(* the exit status is 0 iff every option succeeded; otherwise it is the 1-based index k of the
   first option that failed: the k-1 options before it succeeded, stdout is exactly what they
   wrote, nothing after option k is executed; with at most 255 options it fits the 8-bit status *)
Theorem exit_index p k so fs :
  (length p <= 255)%nat ->
  In (k, so, fs) (runs p) ->
  (k = 0 /\ exists st', reaches init p [] st' /\ so = out st' /\ fs = files st')
  \/
  (exists pre o rest st',
      p = pre ++ o :: rest /\ k = N.of_nat (S (length pre)) /\
      1 <= k /\ k <= N.of_nat (length p) /\ k < 256 /\
      reaches init pre (o :: rest) st' /\
      In (Fail fs) (step st' o (hd_error rest)) /\
      so = out st').
Proof.
  intros L H. apply runs_from_spec in H.
  destruct H as [[st' [R E]]|[pre [o [rest [st' [fs' [E [R [F Er]]]]]]]]].
  - left. inversion E; subst. split; [reflexivity|]. exists st'. repeat split. exact R.
  - right. inversion Er; subst. exists pre, o, rest, st'. simpl.
    rewrite app_length in *. simpl in *. repeat split; try assumption; lia.
Qed.

Theorem exit_index_complete p :
  (forall st', reaches init p [] st' -> In (0, out st', files st') (runs p)) /\
  (forall pre o rest st' fs,
      p = pre ++ o :: rest -> reaches init pre (o :: rest) st' ->
      In (Fail fs) (step st' o (hd_error rest)) ->
      In (N.of_nat (S (length pre)), out st', fs) (runs p)).
Proof.
  split.
  - intros st' R. apply runs_from_spec. left. exists st'. split; [exact R|reflexivity].
  - intros pre o rest st' fs E R F. apply runs_from_spec. right.
    exists pre, o, rest, st', fs. repeat split; assumption.
Qed.

