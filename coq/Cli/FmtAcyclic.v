(* C19 -- the ACYCLICITY INVARIANT of the reference interpreter of `jose fmt` (Cli/Fmt.v).

   -a -i -s -x store REFERENCES; when that would close a cycle the only outcome is failure
   ([guard_cyc]).  Consequently, in EVERY state reachable by ANY program, every address of the
   store reads back ([value h a <> None]) and every stack cell is an address of the store.
   User-visible consequences: -o -f -c -Y -Q never fail on account of an unreadable value and
   -E never gives the verdict [VUndef].

   Structure
     A. readability with arbitrary fuel ([rd f h a]) and its unfolding through [children]
     B. pigeonhole: whatever can be read with SOME fuel can be read with fuel S (length h)
        (this is the remark "an acyclic value is never deeper than the number of nodes")
     C. the store invariant [heap_ok] under allocation, shrinking of a node, guarded mutation
     D. the state invariant [acyclic] is preserved by every option; reachable states
     E. consequences *)
From JoseV Require Import Cli.Fmt Cli.FmtProofs.
Local Open Scope nat_scope.

(* ================================================================== A. readability *)

Definition children (n : node) : list addr :=
  match n with
  | NScal _ => []
  | NArr l => l
  | NObj m => map snd m
  end.

(* the tree below [a] can be read back with fuel [f] *)
Definition rd (f : nat) (h : heap) (a : addr) : Prop := reify f h a <> None.

Lemma rd_dec f h a : {rd f h a} + {~ rd f h a}.
Proof.
  unfold rd. destruct (reify f h a) as [v|].
  - left. discriminate.
  - right. intro H. apply H. reflexivity.
Qed.

Lemma mapM_some_iff {A B} (f : A -> option B) l :
  mapM f l <> None <-> Forall (fun x => f x <> None) l.
Proof.
  induction l as [|x l IH]; cbn [mapM].
  - split; [constructor|discriminate].
  - split.
    + intro H. destruct (f x) as [y|] eqn:Fx; [|congruence].
      destruct (mapM f l) as [t|] eqn:Ft; [|congruence].
      constructor; [congruence|]. apply IH. discriminate.
    + intro H. inversion H as [|? ? Hx Hl]; subst. apply IH in Hl.
      destruct (f x) as [y|]; [|congruence]. destruct (mapM f l) as [t|]; [discriminate|congruence].
Qed.

Lemma option_map_some_iff {A B} (g : A -> B) (o : option A) : option_map g o <> None <-> o <> None.
Proof. destruct o; cbn; split; congruence. Qed.

Lemma rd_0 h a : ~ rd 0 h a.
Proof. unfold rd. cbn [reify]. congruence. Qed.

Lemma rd_S f h a :
  rd (S f) h a <-> exists n, nth_error h a = Some n /\ Forall (rd f h) (children n).
Proof.
  unfold rd. rewrite reify_S. destruct (nth_error h a) as [[v|l|m]|].
  - split; [|discriminate]. intros _. exists (NScal v). split; [reflexivity|constructor].
  - rewrite option_map_some_iff, mapM_some_iff. split.
    + intro H. exists (NArr l). split; [reflexivity|exact H].
    + intros [n [E H]]. inversion E; subst n. exact H.
  - rewrite option_map_some_iff, mapM_some_iff. split.
    + intro H. exists (NObj m). split; [reflexivity|]. cbn [children]. apply Forall_map.
      eapply Forall_impl; [|exact H]. intros kv Hkv. cbv beta in Hkv.
      apply option_map_some_iff in Hkv. exact Hkv.
    + intros [n [E H]]. inversion E; subst n. cbn [children] in H.
      apply (proj1 (Forall_map snd (fun c => reify f h c <> None) m)) in H.
      eapply Forall_impl; [|exact H]. intros kv Hkv. cbv beta in *.
      apply option_map_some_iff. exact Hkv.
  - split; [congruence|]. intros [n [E _]]. discriminate E.
Qed.

Lemma rd_mono f h a f' e : rd f h a -> f <= f' -> rd f' (h ++ e) a.
Proof.
  unfold rd. intros H L. destruct (reify f h a) as [v|] eqn:E; [|congruence].
  rewrite (reify_weaken f h a v f' e E L). discriminate.
Qed.

Lemma rd_mono0 f h a f' : rd f h a -> f <= f' -> rd f' h a.
Proof. intros H L. rewrite <- (app_nil_r h). exact (rd_mono f h a f' [] H L). Qed.

Lemma rd_lt f h a : rd f h a -> a < length h.
Proof.
  destruct f as [|f]; intro H; [destruct (rd_0 h a H)|].
  apply rd_S in H. destruct H as [n [E _]]. apply nth_error_Some. congruence.
Qed.

Lemma value_rd1 h a : value h a <> None -> rd (S (length h)) h a.
Proof. exact (fun H => H). Qed.
Lemma value_rd2 h a : rd (S (length h)) h a -> value h a <> None.
Proof. exact (fun H => H). Qed.

(* ================================================================== B. pigeonhole *)

(* [a] needs exactly fuel S k *)
Definition exact (k : nat) (h : heap) (a : addr) : Prop := rd (S k) h a /\ ~ rd k h a.

Lemma exact_unique k k' h a : exact k h a -> exact k' h a -> k = k'.
Proof.
  intros [R1 N1] [R2 N2].
  destruct (Nat.lt_trichotomy k k') as [L|[E|L]]; [|exact E|].
  - exfalso. apply N2. apply (rd_mono0 (S k)); [exact R1|lia].
  - exfalso. apply N1. apply (rd_mono0 (S k')); [exact R2|lia].
Qed.

(* a node that needs fuel S (S k) has a child that needs fuel S k *)
Lemma exact_child k h a :
  exact (S k) h a -> exists c, exact k h c.
Proof.
  intros [R N]. apply rd_S in R. destruct R as [n [E F]].
  assert (NF : ~ Forall (rd k h) (children n)).
  { intro F'. apply N. apply rd_S. exists n. split; [exact E|exact F']. }
  apply neg_Forall_Exists_neg in NF; [|exact (rd_dec k h)].
  apply Exists_exists in NF. destruct NF as [c [Hin Hc]].
  exists c. split; [|exact Hc].
  rewrite Forall_forall in F. apply F. exact Hin.
Qed.

Lemma exact_chain k : forall h a, exact k h a ->
  exists l, length l = S k /\ NoDup l /\ (forall x, In x l -> x < length h) /\
            (forall x, In x l -> exists j, j <= k /\ exact j h x).
Proof.
  induction k as [|k IH]; intros h a X.
  - exists [a]. repeat split.
    + constructor; [intros []|constructor].
    + intros x [<-|[]]. destruct X as [R _]. exact (rd_lt _ _ _ R).
    + intros x [<-|[]]. exists 0. split; [lia|exact X].
  - destruct (exact_child k h a X) as [c Xc].
    destruct (IH h c Xc) as [l [Ll [ND [Rg Ex]]]].
    exists (a :: l). repeat split.
    + cbn [length]. rewrite Ll. reflexivity.
    + constructor; [|exact ND]. intro Hin. destruct (Ex a Hin) as [j [Lj Xj]].
      pose proof (exact_unique _ _ _ _ X Xj). lia.
    + intros x [<-|Hin]; [|exact (Rg x Hin)]. destruct X as [R _]. exact (rd_lt _ _ _ R).
    + intros x [<-|Hin].
      * exists (S k). split; [lia|exact X].
      * destruct (Ex x Hin) as [j [Lj Xj]]. exists j. split; [lia|exact Xj].
Qed.

(* ... hence no node needs more fuel than there are nodes *)
Lemma exact_bound k h a : exact k h a -> S k <= length h.
Proof.
  intro X. destruct (exact_chain k h a X) as [l [Ll [ND [Rg _]]]].
  rewrite <- Ll, <- (seq_length (length h) 0). apply NoDup_incl_length; [exact ND|].
  intros x Hin. apply in_seq. specialize (Rg x Hin). lia.
Qed.

Lemma rd_least f : forall h a, rd f h a -> exists k, exact k h a /\ S k <= f.
Proof.
  induction f as [|f IH]; intros h a R; [destruct (rd_0 h a R)|].
  destruct (rd_dec f h a) as [R'|N].
  - destruct (IH h a R') as [k [X L]]. exists k. split; [exact X|lia].
  - exists f. split; [split; assumption|lia].
Qed.

(* "an acyclic value is never deeper than the number of nodes": whatever can be read back with
   SOME fuel can be read back by [value] *)
Theorem rd_value f h a : rd f h a -> value h a <> None.
Proof.
  intro R. destruct (rd_least f h a R) as [k [X _]].
  pose proof (exact_bound k h a X) as B. destruct X as [Rk _].
  apply value_rd2. apply (rd_mono0 (S k)); [exact Rk|lia].
Qed.

(* ================================================================== C. the store invariant *)

(* every address of the store reads back *)
Definition heap_ok (h : heap) : Prop := forall a, a < length h -> value h a <> None.

(* the same with arbitrary fuel; equivalent by [rd_value] *)
Definition hok (h : heap) : Prop := forall a, a < length h -> exists f, rd f h a.

Lemma heap_ok_hok h : heap_ok h <-> hok h.
Proof.
  split; intros H a L.
  - exists (S (length h)). apply value_rd1. exact (H a L).
  - destruct (H a L) as [f R]. exact (rd_value f h a R).
Qed.

(* consequently every address stored in a node is an address of the store *)
Lemma heap_ok_children h a n c :
  heap_ok h -> nth_error h a = Some n -> In c (children n) -> c < length h.
Proof.
  intros H E Hin. assert (L : a < length h) by (apply nth_error_Some; congruence).
  specialize (H a L). apply value_rd1 in H. apply rd_S in H. destruct H as [n' [E' F]].
  rewrite E in E'. inversion E'; subst n'. rewrite Forall_forall in F.
  exact (rd_lt _ _ _ (F c Hin)).
Qed.

Lemma heap_ok_nil : heap_ok [].
Proof. intros a L. cbn in L. lia. Qed.

(* ---- allocation *)

Lemma hok_snoc h n : hok h -> (forall c, In c (children n) -> c < length h) -> hok (h ++ [n]).
Proof.
  intros H C a L. rewrite app_length in L. cbn [length] in L.
  destruct (Nat.eq_dec a (length h)) as [->|N].
  - exists (S (S (length h))). apply rd_S. exists n. split; [apply nth_error_last|].
    apply Forall_forall. intros c Hin. destruct (H c (C c Hin)) as [f R].
    apply (rd_mono (S (length h))); [|lia]. apply value_rd1. exact (rd_value f h c R).
  - assert (L' : a < length h) by lia. destruct (H a L') as [f R].
    exists f. exact (rd_mono f h a f [n] R (le_n f)).
Qed.

Lemma Forall2_in_l {A B} (P : A -> B -> Prop) l1 l2 a :
  Forall2 P l1 l2 -> In a l1 -> exists b, In b l2 /\ P a b.
Proof.
  induction 1 as [|x y l1 l2 Pxy _ IH]; intros Hin; [destruct Hin|].
  destruct Hin as [<-|Hin].
  - exists y. split; [left; reflexivity|exact Pxy].
  - destruct (IH Hin) as [b [Hb Pb]]. exists b. split; [right; exact Hb|exact Pb].
Qed.

Lemma all_alloc_ok_list (l : list json) : Forall alloc_ok l.
Proof. apply Forall_forall. intros j _. apply alloc_spec. Qed.

Lemma all_alloc_ok_members (m : list (bytes * json)) : Forall (fun kv => alloc_ok (snd kv)) m.
Proof. apply Forall_forall. intros kv _. apply alloc_spec. Qed.

Lemma alloc_list_range l h c :
  In c (snd (alloc_list l h)) -> c < length (fst (alloc_list l h)).
Proof.
  intro Hin. destruct (alloc_list_spec l (all_alloc_ok_list l) h) as [e [E [_ F]]].
  destruct (Forall2_in_l _ _ _ c F Hin) as [x [_ R]]. cbv beta in R. rewrite E.
  apply (rd_lt (S (jdepth x))). unfold rd. rewrite R. discriminate.
Qed.

Lemma alloc_members_range m h c :
  In c (map snd (snd (alloc_members m h))) -> c < length (fst (alloc_members m h)).
Proof.
  intro Hin. apply in_map_iff in Hin. destruct Hin as [ka [<- Hin]].
  destruct (alloc_members_spec m (all_alloc_ok_members m) h) as [e [E [_ F]]].
  destruct (Forall2_in_l _ _ _ ka F Hin) as [x [_ [_ R]]]. rewrite E.
  apply (rd_lt (S (jdepth (snd x)))). unfold rd. rewrite R. discriminate.
Qed.

Definition alloc_hok (j : json) : Prop := forall h, hok h -> hok (fst (alloc j h)).

Lemma alloc_list_hok l : Forall alloc_hok l -> forall h, hok h -> hok (fst (alloc_list l h)).
Proof.
  induction 1 as [|x l Hx _ IH]; intros h H; [exact H|].
  cbn [alloc_list]. specialize (Hx h H). destruct (alloc x h) as [h1 a]. cbn [fst] in Hx.
  specialize (IH h1 Hx). destruct (alloc_list l h1) as [h2 al]. exact IH.
Qed.

Lemma alloc_members_hok m :
  Forall (fun kv => alloc_hok (snd kv)) m -> forall h, hok h -> hok (fst (alloc_members m h)).
Proof.
  induction 1 as [|x l Hx _ IH]; intros h H; [exact H|].
  cbn [alloc_members]. specialize (Hx h H). destruct (alloc (snd x) h) as [h1 a]. cbn [fst] in Hx.
  specialize (IH h1 Hx). destruct (alloc_members l h1) as [h2 al]. exact IH.
Qed.

Lemma alloc_scalar_hok j : (forall h, alloc j h = (h ++ [NScal j], length h)) -> alloc_hok j.
Proof.
  intros E h H. rewrite E. cbn [fst]. apply hok_snoc; [exact H|]. intros c [].
Qed.

Theorem alloc_preserves_hok : forall j, alloc_hok j.
Proof.
  induction j using json_ind'; try (apply alloc_scalar_hok; reflexivity).
  - intros h Hh. rewrite alloc_arr.
    pose proof (alloc_list_hok l H h Hh) as H1. pose proof (alloc_list_range l h) as R1.
    destruct (alloc_list l h) as [h1 al]. cbn [fst snd] in *.
    apply hok_snoc; [exact H1|exact R1].
  - intros h Hh. rewrite alloc_obj.
    pose proof (alloc_members_hok m H h Hh) as H1. pose proof (alloc_members_range m h) as R1.
    destruct (alloc_members m h) as [h1 al]. cbn [fst snd] in *.
    apply hok_snoc; [exact H1|exact R1].
Qed.

Lemma alloc_heap_ok j h : heap_ok h -> heap_ok (fst (alloc j h)).
Proof. rewrite !heap_ok_hok. apply alloc_preserves_hok. Qed.

Lemma alloc_addr_lt j h : snd (alloc j h) < length (fst (alloc j h)).
Proof.
  destruct (alloc_value j h) as [e [_ [_ V]]].
  apply (rd_lt (S (length (fst (alloc j h))))). apply value_rd1. rewrite V. discriminate.
Qed.

Lemma alloc_length_le j h : length h <= length (fst (alloc j h)).
Proof. destruct (alloc_value j h) as [e [E _]]. rewrite E, app_length. lia. Qed.

(* ---- one node replaced by a node with FEWER children (-d -e -t) *)

Lemma upd_shrink_rd h t n n' :
  nth_error h t = Some n -> incl (children n') (children n) ->
  forall f a, rd f h a -> rd f (upd h t n') a.
Proof.
  intros E I. induction f as [|f IH]; intros a R; [destruct (rd_0 h a R)|].
  apply rd_S in R. destruct R as [m [Em F]]. apply rd_S. rewrite Forall_forall in F.
  destruct (Nat.eq_dec t a) as [<-|N].
  - exists n'. split.
    + apply upd_same. apply nth_error_Some. congruence.
    + apply Forall_forall. intros c Hin. apply IH. apply F.
      rewrite E in Em. inversion Em; subst m. apply I. exact Hin.
  - exists m. split.
    + rewrite upd_other by exact N. exact Em.
    + apply Forall_forall. intros c Hin. apply IH. apply F. exact Hin.
Qed.

Lemma upd_shrink_ok h t n n' :
  heap_ok h -> nth_error h t = Some n -> incl (children n') (children n) -> heap_ok (upd h t n').
Proof.
  intros H E I a L. rewrite upd_length in L. apply value_rd2. rewrite upd_length.
  apply (upd_shrink_rd h t n n' E I). apply value_rd1. exact (H a L).
Qed.

(* ---- one node replaced by ANY node, the replaced node reads back afterwards (-a -i -s -x):
        every cycle of the new store would have to pass through the replaced node *)

Lemma upd_guard_rd h p n :
  value (upd h p n) p <> None ->
  forall f a, rd f h a -> rd (f + S (length h)) (upd h p n) a.
Proof.
  intros G. apply value_rd1 in G. rewrite upd_length in G.
  induction f as [|f IH]; intros a R; [destruct (rd_0 h a R)|].
  destruct (Nat.eq_dec p a) as [<-|N].
  - apply (rd_mono0 (S (length h))); [exact G|lia].
  - apply rd_S in R. destruct R as [m [Em F]]. change (S f + S (length h)) with (S (f + S (length h))).
    apply rd_S. exists m. split.
    + rewrite upd_other by exact N. exact Em.
    + eapply Forall_impl; [|exact F]. intros c Rc. apply IH. exact Rc.
Qed.

Theorem upd_guard_ok h p n :
  heap_ok h -> value (upd h p n) p <> None -> heap_ok (upd h p n).
Proof.
  intros H G a L. rewrite upd_length in L.
  apply (rd_value (S (length h) + S (length h))). apply upd_guard_rd; [exact G|].
  apply value_rd1. exact (H a L).
Qed.

(* ================================================================== D. the state invariant *)

(* every address of the store reads back, and every stack cell is an address of the store *)
Definition acyclic (st : state) : Prop :=
  (forall a, a < length (hp st) -> value (hp st) a <> None) /\
  (forall a, In a (stk st) -> a < length (hp st)).

Theorem acyclic_init : acyclic init.
Proof. split; [exact heap_ok_nil|intros a []]. Qed.

(* what the invariant is for: every stack cell has a (finite) value *)
Lemma acyclic_stack_value st a : acyclic st -> In a (stk st) -> exists v, value (hp st) a = Some v.
Proof.
  intros [H S] Hin. specialize (H a (S a Hin)).
  destruct (value (hp st) a) as [v|]; [exists v; reflexivity|congruence].
Qed.

Lemma acyclic_same st st' :
  hp st' = hp st -> incl (stk st') (stk st) -> acyclic st -> acyclic st'.
Proof.
  intros Eh I [H S]. split.
  - rewrite Eh. exact H.
  - intros a Hin. rewrite Eh. apply S. apply I. exact Hin.
Qed.

Lemma acyclic_set_inv b st : acyclic st -> acyclic (set_inv b st).
Proof. apply acyclic_same; [reflexivity|apply incl_refl]. Qed.

Lemma acyclic_write d data st : acyclic st -> acyclic (write d data st).
Proof. apply acyclic_same; destruct d; try reflexivity; apply incl_refl. Qed.

Lemma acyclic_set_stk s st : incl s (stk st) -> acyclic st -> acyclic (set_stk s st).
Proof. intro I. apply acyclic_same; [reflexivity|exact I]. Qed.

Lemma acyclic_push_addr a st : a < length (hp st) -> acyclic st -> acyclic (push_addr a st).
Proof.
  intros L [H S]. split; [exact H|]. intros x [<-|Hin]; [exact L|exact (S x Hin)].
Qed.

Lemma acyclic_push_val v st : acyclic st -> acyclic (push_val v st).
Proof.
  intros [H S]. split.
  - rewrite push_val_hp. apply alloc_heap_ok. exact H.
  - rewrite push_val_hp, push_val_stk. intros x [<-|Hin]; [apply alloc_addr_lt|].
    pose proof (alloc_length_le v (hp st)). specialize (S x Hin). lia.
Qed.

Lemma acyclic_set_node_shrink t n n' st :
  acyclic st -> nth_error (hp st) t = Some n -> incl (children n') (children n) ->
  acyclic (set_node t n' st).
Proof.
  intros [H S] E I. split; cbn [set_node hp stk].
  - exact (upd_shrink_ok _ _ _ _ H E I).
  - rewrite upd_length. exact S.
Qed.

Lemma acyclic_set_node_guard p n st :
  acyclic st -> value (hp (set_node p n st)) p <> None -> acyclic (set_node p n st).
Proof.
  intros [H S] G. split; cbn [set_node hp stk] in *.
  - exact (upd_guard_ok _ _ _ H G).
  - rewrite upd_length. exact S.
Qed.

Lemma top_addr_in st t : top_addr st = Some t -> In t (stk st).
Proof. apply nth_error_In. Qed.
Lemma prev_addr_in st p : prev_addr st = Some p -> In p (stk st).
Proof. apply nth_error_In. Qed.

Lemma top_node_at st t n : top_addr st = Some t -> top_node st = Some n -> nth_error (hp st) t = Some n.
Proof. unfold top_node, node_at. intros ->. exact (fun E => E). Qed.

Lemma top_node_addr st n : top_node st = Some n -> exists t, top_addr st = Some t /\ nth_error (hp st) t = Some n.
Proof.
  unfold top_node, node_at. destruct (top_addr st) as [t|]; [|discriminate].
  intro E. exists t. split; [reflexivity|exact E].
Qed.

Lemma in_firstn {A} (x : A) n l : In x (firstn n l) -> In x l.
Proof.
  revert l. induction n as [|n IH]; intros [|y l]; cbn [firstn]; intro H; try (destruct H; fail).
  destruct H as [H|H]; [left; exact H|right; apply IH; exact H].
Qed.

Lemma in_skipn {A} (x : A) n l : In x (skipn n l) -> In x l.
Proof.
  revert l. induction n as [|n IH]; intros [|y l]; cbn [skipn]; intro H; try exact H.
  right. apply IH. exact H.
Qed.

Lemma incl_remove_at {A} n (l : list A) : incl (remove_at n l) l.
Proof.
  intros x H. unfold remove_at in H. apply in_app_or in H. destruct H as [H|H].
  - exact (in_firstn _ _ _ H).
  - exact (in_skipn _ _ _ H).
Qed.

Lemma incl_insert_at {A} n (t : A) l : incl (insert_at n t l) (t :: l).
Proof.
  intros x H. unfold insert_at in H. apply in_app_or in H. destruct H as [H|[H|H]].
  - right. exact (in_firstn _ _ _ H).
  - left. exact H.
  - right. exact (in_skipn _ _ _ H).
Qed.

Lemma incl_adel_snd k (m : list (bytes * addr)) : incl (map snd (adel k m)) (map snd m).
Proof.
  induction m as [|[k' v'] m IH]; cbn [adel map]; [apply incl_refl|].
  destruct (bytes_eqb k k').
  - apply incl_tl, incl_refl.
  - cbn [map snd]. intros x [<-|H]; [left; reflexivity|right; exact (IH x H)].
Qed.

Lemma alookup_in_snd k (m : list (bytes * addr)) a : alookup k m = Some a -> In a (map snd m).
Proof.
  induction m as [|[k' v'] m IH]; cbn [alookup map snd]; intro H; [discriminate|].
  destruct (bytes_eqb k k').
  - inversion H. left. reflexivity.
  - right. exact (IH H).
Qed.

(* like [crack], but keeps what the cycle guard found *)
Ltac crackg H := unfold guard_cyc in H; crack H.

Lemma acyclic_step_plain s o s' : acyclic s -> In (Ok s') (step_plain s o) -> acyclic s'.
Proof.
  intros A H. destruct o; cbn [step_plain] in H.
  - (* assertions *) apply step_assert_ok in H. subst. apply acyclic_set_inv. exact A.
  - (* -X *) crack H. apply acyclic_set_inv. exact A.
  - (* -Q *) crack H; apply acyclic_push_val; exact A.
  - (* -M *) crack H; (apply acyclic_set_stk; [|exact A]);
      match goal with E : stk s = _ |- _ => rewrite E end.
    + apply incl_insert_at.
    + intros x Hx. apply in_app_or in Hx. destruct Hx as [Hx|[<-|[]]]; [right; exact Hx|left; reflexivity].
  - (* -U *) crack H. apply acyclic_set_stk; [|exact A].
    match goal with E : stk s = _ |- _ => rewrite E end. apply incl_tl, incl_refl.
  - (* -j *) crack H. apply acyclic_push_val. exact A.
  - (* -c *) crack H. apply acyclic_push_val. exact A.
  - (* -q *) crack H. apply acyclic_push_val. exact A.
  - (* -o *) crack H. apply acyclic_write. exact A.
  - (* -f *) crack H. apply acyclic_write. exact A.
  - (* -u *) crack H; apply acyclic_write; exact A.
  - (* -t *) crack H; try exact A;
      match goal with Ea : top_addr s = Some ?t, En : top_node s = Some ?n |- _ =>
        apply (acyclic_set_node_shrink t n _ s A (top_node_at s t n Ea En)) end;
      cbn [children]; intros x Hx; try (exact (in_firstn _ _ _ Hx)); destruct Hx.
  - (* -i *) crackg H; apply acyclic_set_node_guard; try exact A; congruence.
  - (* -a *) crackg H; apply acyclic_set_node_guard; try exact A; congruence.
  - (* -x *) crackg H; apply acyclic_set_node_guard; try exact A; congruence.
  - (* -d *) crack H; try exact A;
      match goal with Ea : top_addr s = Some ?t, En : top_node s = Some ?n |- _ =>
        apply (acyclic_set_node_shrink t n _ s A (top_node_at s t n Ea En)) end;
      cbn [children]; [apply incl_remove_at|apply incl_adel_snd].
  - (* -l *) crack H; apply acyclic_push_val; exact A.
  - (* -e *) crack H;
      match goal with Ea : top_addr s = Some ?t, En : top_node s = Some ?n |- _ =>
        apply (acyclic_set_node_shrink t n _ s A (top_node_at s t n Ea En)) end;
      cbn [children]; intros x [].
  - (* -g *) crack H;
      match goal with En : top_node s = Some ?n |- _ =>
        destruct (top_node_addr s n En) as [t [_ Et]] end;
      (apply acyclic_push_addr; [|exact A]);
      apply (heap_ok_children _ _ _ _ (proj1 A) Et); cbn [children].
    + eapply nth_error_In. eassumption.
    + eapply alookup_in_snd. eassumption.
  - (* -s *) crackg H; apply acyclic_set_node_guard; try exact A; congruence.
  - (* -y *) crack H; apply acyclic_push_val; exact A.
  - (* -Y *) crack H; apply acyclic_push_val; exact A.
Qed.

(* PRESERVATION, for EVERY option and every outcome the manual allows *)
Theorem acyclic_step st o nxt st' : acyclic st -> In (Ok st') (step st o nxt) -> acyclic st'.
Proof.
  intros A H. destruct (plain o) eqn:P.
  - apply (acyclic_step_plain (set_inv false st) o st'); [apply acyclic_set_inv; exact A|].
    exact (step_ok_plain _ _ _ _ P H).
  - destruct o; try discriminate.
    + apply step_assert_ok in H. subst. apply acyclic_set_inv. exact A.
    + apply step_not_ok in H. subst. apply acyclic_set_inv. exact A.
Qed.

Theorem reaches_acyclic st pre rest st' : reaches st pre rest st' -> acyclic st -> acyclic st'.
Proof.
  induction 1 as [|st o pre rest st1 st' Hs _ IH]; intro A; [exact A|].
  apply IH. exact (acyclic_step _ _ _ _ A Hs).
Qed.

(* every state any program can get into (after any prefix [pre] of successful options, whatever
   follows) satisfies the invariant *)
Theorem reachable_acyclic pre rest st : reaches init pre rest st -> acyclic st.
Proof. intro R. exact (reaches_acyclic _ _ _ _ R acyclic_init). Qed.

(* ================================================================== E. consequences *)

Lemma acyclic_top_value st t : acyclic st -> top_addr st = Some t -> exists v, value (hp st) t = Some v.
Proof. intros A E. exact (acyclic_stack_value st t A (top_addr_in st t E)). Qed.

Lemma acyclic_prev_value st p : acyclic st -> prev_addr st = Some p -> exists v, value (hp st) p = Some v.
Proof. intros A E. exact (acyclic_stack_value st p A (prev_addr_in st p E)). Qed.

Lemma step_plain_noinv st o nxt :
  plain o = true -> inv st = false -> step st o nxt = step_plain st o.
Proof. intros P I. destruct o; try discriminate P; unfold step; rewrite I; reflexivity. Qed.

(* (a) -o: with a TOP there is exactly one outcome, success, printing TOP's value *)
Theorem acyclic_output st d nxt t :
  acyclic st -> inv st = false -> top_addr st = Some t ->
  exists v, value (hp st) t = Some v /\ step st (OOutput d) nxt = [Ok (write d (dump v) st)].
Proof.
  intros A I E. destruct (acyclic_top_value st t A E) as [v V]. exists v. split; [exact V|].
  rewrite step_plain_noinv by (reflexivity || exact I). cbn [step_plain]. rewrite E, V. reflexivity.
Qed.

Lemma mapM_value_some h l :
  heap_ok h -> (forall c, In c l -> c < length h) -> exists vs, mapM (value h) l = Some vs.
Proof.
  intros H R. assert (N : mapM (value h) l <> None).
  { apply mapM_some_iff, Forall_forall. intros c Hin. exact (H c (R c Hin)). }
  destruct (mapM (value h) l) as [vs|]; [exists vs; reflexivity|congruence].
Qed.

Lemma mapM_members_some h (m : list (bytes * addr)) :
  heap_ok h -> (forall c, In c (map snd m) -> c < length h) ->
  exists kvs, mapM (fun kv => option_map (fun v => (fst kv, v)) (value h (snd kv))) m = Some kvs.
Proof.
  intros H R.
  assert (N : mapM (fun kv : bytes * addr => option_map (fun v => (fst kv, v)) (value h (snd kv))) m <> None).
  { apply mapM_some_iff, Forall_forall. intros kv Hin. cbv beta. apply option_map_some_iff.
    apply H, R. apply in_map. exact Hin. }
  match type of N with ?x <> None => destruct x as [kvs|] end; [exists kvs; reflexivity|congruence].
Qed.

(* (a) -f: on an array or object there is exactly one outcome, success (no "cyclic item") *)
Theorem acyclic_foreach st d nxt n :
  acyclic st -> inv st = false -> top_node st = Some n -> (forall v, n <> NScal v) ->
  exists text, foreach_lines (hp st) n = Some (Some text) /\
               step st (OForeach d) nxt = [Ok (write d text st)].
Proof.
  intros A I E NS. destruct (top_node_addr st n E) as [t [_ Et]].
  assert (X : exists text, foreach_lines (hp st) n = Some (Some text)).
  { destruct n as [v|l|m].
    - destruct (NS v eq_refl).
    - destruct (mapM_value_some (hp st) l (proj1 A)) as [vs V].
      { intros c Hin. exact (heap_ok_children _ _ _ _ (proj1 A) Et Hin). }
      cbn [foreach_lines]. rewrite V. eexists. reflexivity.
    - destruct (mapM_members_some (hp st) m (proj1 A)) as [vs V].
      { intros c Hin. exact (heap_ok_children _ _ _ _ (proj1 A) Et Hin). }
      cbn [foreach_lines]. rewrite V. eexists. reflexivity. }
  destruct X as [text X]. exists text. split; [exact X|].
  rewrite step_plain_noinv by (reflexivity || exact I). cbn [step_plain]. rewrite E, X. reflexivity.
Qed.

(* (b) no assertion -- in particular -E -- ever has the verdict "undefined" *)
Theorem acyclic_holds st a : acyclic st -> holds a st <> VUndef.
Proof.
  intro A. unfold holds. destruct a; try (destruct (top_node st); discriminate).
  destruct (top_node st); [|discriminate]. destruct (prev_node st); [|discriminate].
  destruct (top_addr st) as [t|] eqn:Et; [|discriminate].
  destruct (prev_addr st) as [p|] eqn:Ep; [|discriminate].
  destruct (acyclic_top_value st t A Et) as [x ->].
  destruct (acyclic_prev_value st p A Ep) as [y ->]. discriminate.
Qed.

(* ... so -E is decided by the comparison of the two values (and a pending -X) alone *)
Theorem acyclic_equal st nxt t p :
  acyclic st -> top_addr st = Some t -> prev_addr st = Some p ->
  exists x y, value (hp st) t = Some x /\ value (hp st) p = Some y /\
    step st (OAssert AEqual) nxt =
      if xorb (inv st) (jequal x y) then [Ok (set_inv false st)] else [Fail (files st)].
Proof.
  intros A Et Ep. destruct (acyclic_top_value st t A Et) as [x X].
  destruct (acyclic_prev_value st p A Ep) as [y Y]. exists x, y. repeat split; try assumption.
  apply assertion_law. unfold holds, top_node, prev_node, node_at. rewrite Et, Ep.
  pose proof (proj2 A t (top_addr_in st t Et)) as Lt. pose proof (proj2 A p (prev_addr_in st p Ep)) as Lp.
  apply nth_error_Some in Lt. apply nth_error_Some in Lp.
  destruct (nth_error (hp st) t); [|congruence]. destruct (nth_error (hp st) p); [|congruence].
  rewrite X, Y. reflexivity.
Qed.

(* (c) -c: with a TOP there is exactly one outcome, success, pushing a fresh copy of its value *)
Theorem acyclic_copy st nxt t :
  acyclic st -> inv st = false -> top_addr st = Some t ->
  exists v, value (hp st) t = Some v /\ step st OCopy nxt = [Ok (push_val v st)].
Proof.
  intros A I E. destruct (acyclic_top_value st t A E) as [v V]. exists v. split; [exact V|].
  rewrite step_plain_noinv by (reflexivity || exact I). cbn [step_plain]. rewrite E, V. reflexivity.
Qed.

(* (c) -Y: with a TOP the value is found; what remains is the documented choice for scalars *)
Theorem acyclic_b64dump st nxt t :
  acyclic st -> inv st = false -> top_addr st = Some t ->
  exists v, value (hp st) t = Some v /\
    step st OB64Dump nxt =
      if is_container v then [Ok (push_val (JStr (b64url_enc (dump v))) st)]
      else [Fail (files st); Ok (push_val (JStr (b64url_enc (dump v))) st)].
Proof.
  intros A I E. destruct (acyclic_top_value st t A E) as [v V]. exists v. split; [exact V|].
  rewrite step_plain_noinv by (reflexivity || exact I). cbn [step_plain]. rewrite E, V. reflexivity.
Qed.

(* -Q never fails: the whole stack can be read *)
Theorem acyclic_query st nxt :
  acyclic st -> inv st = false ->
  exists vs, mapM (value (hp st)) (stk st) = Some vs /\
    step st OQuery nxt = [Ok (push_val (JArr vs) st); Ok (push_val (JArr (rev vs)) st)].
Proof.
  intros A I. destruct (mapM_value_some (hp st) (stk st) (proj1 A) (proj2 A)) as [vs V].
  exists vs. split; [exact V|].
  rewrite step_plain_noinv by (reflexivity || exact I). cbn [step_plain]. rewrite V. reflexivity.
Qed.

(* the guard is what makes the invariant true: a mutation that is let through leaves PREV readable,
   one that is refused leaves the state as it was (no [Ok] outcome at all) *)
Theorem guard_cyc_sound p st' st r :
  In r (guard_cyc p st' st) ->
  (r = Ok st' /\ value (hp st') p <> None) \/ (r = Fail (files st) /\ value (hp st') p = None).
Proof.
  unfold guard_cyc. destruct (value (hp st') p) as [v|] eqn:V; intros [<-|[]].
  - left. split; [reflexivity|discriminate].
  - right. split; reflexivity.
Qed.

(* ================================================================== F. the same, for reachable states *)

Theorem reachable_stack_value pre rest st a :
  reaches init pre rest st -> In a (stk st) -> exists v, value (hp st) a = Some v.
Proof. intros R. exact (acyclic_stack_value st a (reachable_acyclic _ _ _ R)). Qed.

Theorem reachable_output pre rest st d nxt t :
  reaches init pre rest st -> inv st = false -> top_addr st = Some t ->
  exists v, value (hp st) t = Some v /\ step st (OOutput d) nxt = [Ok (write d (dump v) st)].
Proof. intros R. exact (acyclic_output st d nxt t (reachable_acyclic _ _ _ R)). Qed.

Theorem reachable_foreach pre rest st d nxt n :
  reaches init pre rest st -> inv st = false -> top_node st = Some n -> (forall v, n <> NScal v) ->
  exists text, foreach_lines (hp st) n = Some (Some text) /\
               step st (OForeach d) nxt = [Ok (write d text st)].
Proof. intros R. exact (acyclic_foreach st d nxt n (reachable_acyclic _ _ _ R)). Qed.

Theorem reachable_holds pre rest st a : reaches init pre rest st -> holds a st <> VUndef.
Proof. intros R. exact (acyclic_holds st a (reachable_acyclic _ _ _ R)). Qed.

Theorem reachable_equal pre rest st nxt t p :
  reaches init pre rest st -> top_addr st = Some t -> prev_addr st = Some p ->
  exists x y, value (hp st) t = Some x /\ value (hp st) p = Some y /\
    step st (OAssert AEqual) nxt =
      if xorb (inv st) (jequal x y) then [Ok (set_inv false st)] else [Fail (files st)].
Proof. intros R. exact (acyclic_equal st nxt t p (reachable_acyclic _ _ _ R)). Qed.

Theorem reachable_copy pre rest st nxt t :
  reaches init pre rest st -> inv st = false -> top_addr st = Some t ->
  exists v, value (hp st) t = Some v /\ step st OCopy nxt = [Ok (push_val v st)].
Proof. intros R. exact (acyclic_copy st nxt t (reachable_acyclic _ _ _ R)). Qed.

Theorem reachable_b64dump pre rest st nxt t :
  reaches init pre rest st -> inv st = false -> top_addr st = Some t ->
  exists v, value (hp st) t = Some v /\
    step st OB64Dump nxt =
      if is_container v then [Ok (push_val (JStr (b64url_enc (dump v))) st)]
      else [Fail (files st); Ok (push_val (JStr (b64url_enc (dump v))) st)].
Proof. intros R. exact (acyclic_b64dump st nxt t (reachable_acyclic _ _ _ R)). Qed.

Theorem reachable_query pre rest st nxt :
  reaches init pre rest st -> inv st = false ->
  exists vs, mapM (value (hp st)) (stk st) = Some vs /\
    step st OQuery nxt = [Ok (push_val (JArr vs) st); Ok (push_val (JArr (rev vs)) st)].
Proof. intros R. exact (acyclic_query st nxt (reachable_acyclic _ _ _ R)). Qed.
