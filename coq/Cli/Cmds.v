(* C18 -- the glue of cmd/: each subcommand as a function of the library models and of its
   options: exit status and standard output.  (cmd/jws/jws.h jcmd_jws_prep_io, cmd/jws/ver.c,
   cmd/jws/sig.c, cmd/jwe/dec.c, cmd/jwe/enc.c, cmd/jwk/{thp,pub,use,eql,exc,gen}.c, cmd/b64/{enc,dec}.c)

   What is modelled shape for shape: which IO objects jcmd_jws_prep_io puts into its multiplexer
   (a NULL first object is simply not put there), how the payload / ciphertext reaches the chain
   (one feed per byte from a FILE, one feed for a JSON member), that EXIT_SUCCESS is the verdict of
   the final done(), the C tests on return values as the text has them (`!= dlen` on a size_t, NULL
   tests), the json_object_del of the streamed member before the final dump.  Not modelled: getopt, fopen, allocation failure, tty newline, the
   interactive password prompt.  No proofs in this file (Cli/CmdsProofs.v).

   Every top-level name is prefixed cli_ (extraction flattens all modules into one OCaml file). *)
From JoseV Require Export Cli.Compact Io.Chain Base.JsonDump Jose.Jws Jose.Jwe Jwk.Pub Jwk.Thp Jwk.Exc.
From JoseV Require Import Gen.Tables.
Local Open Scope N_scope.

Definition cli_ok : N := 0.       (* EXIT_SUCCESS *)
Definition cli_fail : N := 1.     (* EXIT_FAILURE *)
Definition cli_status (b : bool) : N := if b then cli_ok else cli_fail.

(* ---- sources and sinks ----------------------------------------------------------------------- *)

(* where the payload (JWS) / ciphertext (JWE) comes from *)
Inductive cli_src :=
| Src_member                   (* a JSON object was given and nothing is detached: the member, ONE feed *)
| Src_stream (text : bytes)    (* compact form read from a FILE: the field's characters, one feed each *)
| Src_detached (raw : bytes).  (* -I FILE: the decoded octets, one feed each *)

Definition cli_src_detached (s : cli_src) : bool :=
  match s with Src_detached _ => true | _ => false end.

Definition cli_bytewise (d : bytes) : list bytes := map (fun b => [b]) d.

(* everything that was written to FILE sinks of a chain (stdout / the -O file), in branch order;
   a branch dropped by a multiplexer keeps what it had written *)
Fixpoint cli_file_out (c : chain) : bytes :=
  match c with
  | Sink (SFile d) => d
  | Sink _ => []
  | Stage _ _ next => cli_file_out next
  | Plex _ bs =>
      (fix go (bs : list (bool * chain)) : bytes :=
         match bs with
         | [] => []
         | (_, b) :: r => cli_file_out b ++ go r
         end) bs
  end.

(* jcmd_jws_prep_io(opt, io): ios = [io if non-NULL] ++ [b64dec -> file(-O) | file(-o) | nothing];
   with -I every element gets a base64 encoder in front; the result is jose_io_multiplex(ios, all = true).
   The NULL test `if (io) ios[i++] = io;` is the whole treatment of a refused library object. *)
Definition cli_prep_io (detached detach output : bool) (io : option chain) : chain :=
  let ios0 := match io with Some c => [c] | None => [] end in
  let sink := if detach then [B64Dec (Sink (SFile []))]
              else if output then [Sink (SFile [])] else [] in
  let ios := ios0 ++ sink in
  let ios' := if detached then map B64Enc ios else ios in
  Plex true (map (fun c => (true, c)) ios').

(* verdict of an all-multiplexer from the verdicts of its branches *)
Definition cli_all_true (vs : list bool) : bool :=
  match vs with [] => false | _ => forallb (fun v => v) vs end.

(* ---- jose jws ver ------------------------------------------------------------------------------ *)

Record cli_ver_opts := {
  cv_jws : json;            (* -i: the object (for a streamed compact form: protected, and the signature
                               member that ver.c stores just before done()) *)
  cv_keys : list json;      (* all -k, JWKSets flattened (jwks_extend) *)
  cv_all : bool;            (* -a *)
  cv_detach : bool;         (* -O given *)
  cv_src : cli_src
}.

(* validate_input *)
Definition cli_ver_valid_input (o : cli_ver_opts) : bool :=
  match cv_keys o with [] => false | _ => true end &&
  is_object (cv_jws o) &&
  match lookup s_signatures (cv_jws o) with
  | None | Some (JArr _) => true
  | Some _ => false
  end.

(* the feeds: json_unpack "{s?s%}" for the member *)
Definition cli_jws_chunks (jws : json) (src : cli_src) : option (list bytes) :=
  match src with
  | Src_member => match cli_member_opt cli_s_payload jws with Some p => Some [p] | None => None end
  | Src_stream t => Some (cli_bytewise t)
  | Src_detached d => Some (cli_bytewise d)
  end.

(* the text the verifier is given: for -I the base64url encoder stage sits in front of it *)
Definition cli_jws_text (jws : json) (src : cli_src) : option bytes :=
  match src with
  | Src_member => cli_member_opt cli_s_payload jws
  | Src_stream t => Some t
  | Src_detached d => Some (enc d)
  end.

Section CliJws.
  Variable algs : list sign_alg.

  (* [checked] = true is cmd/jws/ver.c: `if (!io) return EXIT_FAILURE;` between jose_jws_ver_io() and
     jcmd_jws_prep_io().  [checked] = false is the same program without that test (kept to show what the
     test is for: C18_ver_null_test_needed). *)
  Definition cli_jws_ver_with (checked : bool) (o : cli_ver_opts) : N * bytes :=
    if negb (cli_ver_valid_input o) then (cli_fail, [])
    else
      let v := ver_io algs (cv_jws o) None (JArr (cv_keys o)) (cv_all o) in
      if checked && match v with None => true | Some _ => false end then (cli_fail, [])
      else
        let c := cli_prep_io (cli_src_detached (cv_src o)) (cv_detach o) false v in
        match cli_jws_chunks (cv_jws o) (cv_src o) with
        | None => (cli_fail, [])
        | Some chunks =>
            let '(c', _, ok) := runc c chunks in (cli_status ok, cli_file_out c')
        end.

  Definition cli_jws_ver := cli_jws_ver_with true.
  Definition cli_jws_ver_unchecked := cli_jws_ver_with false.

  (* ---- jose jws sig ---------------------------------------------------------------------------- *)

  Record cli_sig_opts := {
    cs_jws : json;            (* -i template (default {}) *)
    cs_sigs : list json;      (* -s templates *)
    cs_keys : list json;      (* -k *)
    cs_compact : bool;        (* -c *)
    cs_detach : bool;         (* -O given: payload goes (decoded) to that file, not into the JWS *)
    cs_src : cli_src
  }.

  Fixpoint cli_pad (n : nat) (l : list json) : list json :=
    match n with
    | O => l
    | S n' => match l with
              | [] => JObj [] :: cli_pad n' []
              | x :: r => x :: cli_pad n' r
              end
    end.

  (* validate_input of sig.c: the padded template list, None = refused (usage) *)
  Definition cli_sig_validate (o : cli_sig_opts) : option (list json) :=
    let nk := length (cs_keys o) in
    let nt := length (cs_sigs o) in
    if Nat.eqb nk 0 then None
    else if Nat.ltb nk nt then None
    else
      let n_in := match lookup s_signatures (cs_jws o) with Some (JArr l) => length l | _ => O end in
      let n_flat := match lookup s_protected (cs_jws o), lookup s_signature (cs_jws o) with
                    | None, None => O
                    | _, _ => 1%nat
                    end in
      if cs_compact o && Nat.ltb 1 (nk + n_in + n_flat) then None
      else Some (cli_pad nk (cs_sigs o)).

  (* jose_jws_sig_io for one key up to (not including) the signing primitive: the template with the
     algorithm recorded and the protected header encoded; None = NULL *)
  Definition cli_sig_prepared (sig jwk : json) : option json :=
    match sig with
    | JObj _ =>
        match sig_find_alg algs sig jwk with
        | Some (a, s1) =>
            match encode_protected s1 with
            | Some s2 => if sa_sig_ok a jwk then Some s2 else None
            | None => None
            end
        | None => None
        end
    | _ => None
    end.

  Fixpoint cli_map_opt {A B} (f : A -> option B) (l : list A) : option (list B) :=
    match l with
    | [] => Some []
    | x :: r => match f x with
                | Some y => match cli_map_opt f r with Some r' => Some (y :: r') | None => None end
                | None => None
                end
    end.

  (* JSON_EMBED: the dump without the enclosing braces *)
  Definition cli_dump_embed (j : json) : bytes := removelast (tl (dump j)).

  (* json_object_del(obj, member) just before the final dump: the member that was streamed (or
     detached with -O) is not printed a second time from the object; a missing member is not an error *)
  Definition cli_without (k : bytes) (j : json) : json :=
    match j with JObj m => JObj (adel k m) | _ => j end.

  Definition cli_q_payload : bytes := [34] ++ cli_s_payload ++ [34; 58; 34].          (* the text: quote payload quote colon quote *)
  Definition cli_q_ciphertext : bytes := [34] ++ cli_s_ciphertext ++ [34; 58; 34].    (* likewise for ciphertext *)

  (* [signed]: the library's signing of [text] over the prepared templates (jose_jws_sig_io fed and
     done), None = done() returned false.  It is an argument so that the glue is a function of the
     library result. *)
  Definition cli_jws_sig_glue (o : cli_sig_opts) (signed : bytes -> option json) : N * bytes :=
    match cli_sig_validate o with
    | None => (cli_fail, [])
    | Some sigs =>
        match cli_map_opt (fun sk => cli_sig_prepared (fst sk) (snd sk)) (combine sigs (cs_keys o)) with
        | None => (cli_fail, [])                     (* jose_jws_sig_io returned NULL: nothing printed *)
        | Some prepared =>
            let head :=
              if cs_compact o then
                match prepared with
                | s0 :: _ => match get_opt_str s_protected s0 with
                             | OAbsent => Some [cli_dot]
                             | OStr p => Some (p ++ [cli_dot])
                             | OBad => None
                             end
                | [] => Some [cli_dot]
                end
              else Some (123 :: (if cs_detach o then [] else cli_q_payload)) in
            match head with
            | None => (cli_fail, [])
            | Some head =>
                match cli_jws_text (cs_jws o) (cs_src o) with
                | None => (cli_fail, head)
                | Some text =>
                    (* the payload text reaches the output through the multiplexer unless -O takes it *)
                    let body := if cs_detach o then [] else text in
                    match signed text with
                    | None => (cli_fail, head ++ body)
                    | Some j' =>
                        if cs_compact o then
                          match lookup s_signature j' with
                          | Some (JStr s) => (cli_ok, head ++ body ++ [cli_dot] ++ cstr s)
                          | _ => (cli_fail, head ++ body)
                          end
                        else (cli_ok, head ++ body ++ (if cs_detach o then [] else [34; 44])
                                      ++ cli_dump_embed (cli_without cli_s_payload j') ++ [125])
                    end
                end
            end
        end
    end.
End CliJws.

(* the exit status read off the verdicts of the branches: verifier (None = the library returned NULL:
   refused before anything is multiplexed), output sink (None = no -O; Some false = the payload text is
   not base64url) *)
Definition cli_ver_glue (verifier sink : option bool) : N :=
  match verifier with
  | None => cli_fail
  | Some _ => cli_status (cli_all_true (somes [verifier; sink]))
  end.

(* ---- jose jwe dec ------------------------------------------------------------------------------ *)

Record cli_dec_opts := {
  cd_jwe : json;
  cd_keys : list json;
  cd_pwd : bool;            (* -p: prompting needs a terminal; without one the prompt yields nothing *)
  cd_src : cli_src
}.

Section CliJwe.
  Variable walgs : list wrap_alg.
  Variable ealgs : list encr_alg.
  Variable inflate : bytes -> option bytes.

  (* jose_jwe_dec_cek_io over a FILE sink; the verdict (creation and done) is the octet-level model's *)
  Definition cli_dec_stage (jwe cek : json) : chain :=
    Stage (atdone_T (fun ct => dec_cek_octets ealgs inflate jwe cek ct)) [] (Sink (SFile [])).

  Definition cli_jwe_chunks (jwe : json) (src : cli_src) : option (list bytes) :=
    match src with
    | Src_member => match cli_member_req cli_s_ciphertext jwe with Some c => Some [c] | None => None end
    | Src_stream t => Some (cli_bytewise t)
    | Src_detached d => Some (cli_bytewise d)
    end.

  Definition cli_jwe_dec (o : cli_dec_opts) : N * bytes :=
    if negb (is_object (cd_jwe o)) then (cli_fail, [])
    else if match cd_keys o with [] => negb (cd_pwd o) | _ => false end then (cli_fail, [])
    else
      match dec_jwk walgs (cd_jwe o) None (JArr (cd_keys o)) with
      | None => (cli_fail, [])                               (* "Unwrapping failed!" *)
      | Some cek =>
          let d := cli_dec_stage (cd_jwe o) cek in
          let c := if cli_src_detached (cd_src o) then d else B64Dec d in
          match cli_jwe_chunks (cd_jwe o) (cd_src o) with
          | None => (cli_fail, [])
          | Some chunks =>
              let '(c', _, ok) := runc c chunks in (cli_status ok, cli_file_out c')
          end
      end.

  (* the ciphertext octets the decryptor is given *)
  Definition cli_jwe_octets (jwe : json) (src : cli_src) : option bytes :=
    match src with
    | Src_member => match cli_member_req cli_s_ciphertext jwe with Some c => dec c | None => None end
    | Src_stream t => dec t
    | Src_detached d => Some d
    end.

  (* ---- jose jwe enc: the skeleton over the three library steps ---------------------------------- *)

  Record cli_enc_opts := {
    ce_jwe : json;            (* -i template (default {}) *)
    ce_rcps : list json;      (* -r templates *)
    ce_keys : list json;      (* -k / -p *)
    ce_compact : bool;
    ce_detach : bool;         (* -O given *)
    ce_plain : option bytes   (* -I FILE content; None = no -I *)
  }.

  Variable enc_jwk : json -> json -> json -> json -> option (json * json).   (* jwe rcp jwk cek -> jwe', cek' *)
  Variable enc_cek_new : json -> json -> option json.        (* jose_jwe_enc_cek_io: jwe with enc/iv recorded; None = NULL *)
  Variable enc_cek_run : json -> json -> bytes -> option (bytes * json).  (* feeds + done: ciphertext octets, jwe with tag *)

  Fixpoint cli_wrap_all (jwe cek : json) (rks : list (json * json)) : option (json * json) :=
    match rks with
    | [] => Some (jwe, cek)
    | (r, k) :: rest =>
        match enc_jwk jwe r k cek with
        | Some (jwe', cek') => cli_wrap_all jwe' cek' rest
        | None => None
        end
    end.

  (* wrap(): for -c the merged header becomes the protected header *)
  Definition cli_enc_compact_hdr (jwe : json) : option json :=
    match jwe_hdr jwe (Some jwe) with
    | None => None
    | Some jh =>
        match jwe with
        | JObj m =>
            let m1 := aset s_protected jh m in
            let m2 := match alookup s_unprotected m1 with Some _ => adel s_unprotected m1 | None => m1 end in
            let m3 := match alookup s_header m2 with Some _ => adel s_header m2 | None => m2 end in
            Some (JObj m3)
        | _ => None
        end
    end.

  Definition cli_jwe_enc (o : cli_enc_opts) : N * bytes :=
    let nk := length (ce_keys o) in
    if Nat.eqb nk 0 then (cli_fail, [])
    else if Nat.ltb 1 nk && ce_compact o then (cli_fail, [])
    else
      match ce_plain o with
      | None => (cli_fail, [])                          (* "Must specify detached input!" *)
      | Some pt =>
          if Nat.ltb nk (length (ce_rcps o)) then (cli_fail, [])
          else
            match cli_wrap_all (ce_jwe o) (JObj []) (combine (cli_pad nk (ce_rcps o)) (ce_keys o)) with
            | None => (cli_fail, [])                    (* "Wrapping failed!" *)
            | Some (jwe1, cek) =>
                match (if ce_compact o then cli_enc_compact_hdr jwe1 else Some jwe1) with
                | None => (cli_fail, [])
                | Some jwe2 =>
                    match enc_cek_new jwe2 cek with
                    | None => (cli_fail, [])
                    | Some jwe3 =>
                        let head :=
                          if ce_compact o then
                            match cli_unpack_opt s_protected jwe3 None,
                                  cli_unpack_opt s_encrypted_key jwe3 None,
                                  cli_unpack_opt cli_s_iv jwe3 None with
                            | (true, p), (true, k), (true, iv) =>
                                let s x := match x with Some y => y | None => [] end in
                                Some (s p ++ [cli_dot] ++ s k ++ [cli_dot] ++ s iv ++ [cli_dot])
                            | _, _, _ => None
                            end
                          else Some (123 :: (if ce_detach o then [] else cli_q_ciphertext)) in
                        match head with
                        | None => (cli_fail, [])
                        | Some head =>
                            match enc_cek_run jwe3 cek pt with
                            | None => (cli_fail, head)        (* a prefix of the ciphertext text may follow *)
                            | Some (ct, jwe4) =>
                                let body := if ce_detach o then [] else enc ct in
                                if ce_compact o then
                                  match lookup cli_s_tag jwe4 with
                                  | Some (JStr t) => (cli_ok, head ++ body ++ [cli_dot] ++ cstr t)
                                  | _ => (cli_fail, head ++ body)    (* "Missing tag parameter!" *)
                                  end
                                else (cli_ok, head ++ body ++ (if ce_detach o then [] else [34; 44])
                                              ++ cli_dump_embed (cli_without cli_s_ciphertext jwe4) ++ [125])
                            end
                        end
                    end
                end
            end
      end.
End CliJwe.

(* ---- jose jwk thp ------------------------------------------------------------------------------ *)

(* `jose_jwk_thp_buf(...) != dlen` *)
Definition cli_size_is (r : option N) (dlen : N) : bool :=
  match r with Some n => N.eqb n dlen | None => false end.

Definition cli_hash_names : list bytes :=
  map a_name (filter (fun e => match a_kind e with KHash => true | _ => false end) alg_registry).

Inductive cli_flow := Cli_go (out : bytes) | Cli_ret (st : N) (out : bytes).

(* the inner loop over the hashes that are not skipped *)
Fixpoint cli_hashes_flow (hs : list bytes) (step : bytes -> bytes -> cli_flow) (out : bytes) : cli_flow :=
  match hs with
  | [] => Cli_go out
  | h :: r => match step h out with
              | Cli_go o => cli_hashes_flow r step o
              | x => x
              end
  end.

Fixpoint cli_keys_flow (keys : list json) (step : json -> bytes -> cli_flow) (out : bytes) : cli_flow :=
  match keys with
  | [] => Cli_go out
  | k :: r => match step k out with
              | Cli_go o => cli_keys_flow r step o
              | x => x
              end
  end.

(* one pass of the inner loop body for the hash [h] (opt.hash, or the loop's hash when -f is given) *)
Definition cli_thp_step (find : option bytes) (multi : bool) (jwk : json) (h : bytes) (out : bytes) : cli_flow :=
  match fst (jwk_thp_buf JNull h None) with            (* dlen = jose_jwk_thp_buf(NULL, NULL, hash, NULL, 0) *)
  | None => Cli_ret cli_fail out
  | Some dlen =>
      let r := jwk_thp_buf jwk h (Some dlen) in
      if negb (cli_size_is (fst r) dlen) then Cli_ret cli_fail out       (* "Error making thumbprint!" *)
      else
        let e := enc (snd r) in
        match find with
        | None => Cli_go (out ++ e ++ (if multi then [10] else []))
        | Some f =>
            if bytes_eqb f e then
              match dump_top jwk with
              | Some s => Cli_ret cli_ok (out ++ s)
              | None => Cli_ret cli_fail out
              end
            else Cli_go out
        end
  end.

Definition cli_jwk_thp (keys : list json) (h : bytes) (find : option bytes) : N * bytes :=
  match keys with
  | [] => (cli_fail, [])
  | _ =>
      match fst (jwk_thp_buf JNull h None) with
      | None => (cli_fail, [])
      | Some _ =>
          (* every registered hash with -f, the one named by -a otherwise *)
          let hs := match find with
                    | Some _ => cli_hash_names
                    | None => filter (bytes_eqb h) cli_hash_names
                    end in
          let multi := Nat.ltb 1 (length keys) in
          match cli_keys_flow keys (fun k out => cli_hashes_flow hs (cli_thp_step find multi k) out) [] with
          | Cli_ret st out => (st, out)
          | Cli_go out => (match find with Some _ => cli_fail | None => cli_ok end, out)
          end
      end
  end.

(* ---- jose jwk pub / use / eql / exc / gen ------------------------------------------------------- *)

Fixpoint cli_all_some {A B} (f : A -> option B) (l : list A) : option (list B) :=
  match l with
  | [] => Some []
  | x :: r => match f x with
              | Some y => match cli_all_some f r with Some r' => Some (y :: r') | None => None end
              | None => None
              end
  end.

(* one key and no -s: the key; otherwise {"keys":[...]} *)
Definition cli_jwk_out (keys : list json) (set : bool) : option bytes :=
  match keys with
  | [k] => if set then dump_top (JObj [(Pub.s_keys, JArr keys)]) else dump_top k
  | _ => dump_top (JObj [(Pub.s_keys, JArr keys)])
  end.

Definition cli_emit (o : option bytes) : N * bytes :=
  match o with Some s => (cli_ok, s) | None => (cli_fail, []) end.

Definition cli_jwk_pub (keys : list json) (set : bool) : N * bytes :=
  match cli_all_some jwk_pub keys with
  | None => (cli_fail, [])                            (* "Error removing private keys!" *)
  | Some [] => (cli_fail, [])
  | Some ks => cli_emit (cli_jwk_out ks set)
  end.

Definition cli_use_status (all req : bool) (uses : list bytes) (jwk : json) : bool :=
  if all then negb (existsb (fun u => negb (jwk_prm jwk req (Some u))) uses)
  else existsb (fun u => jwk_prm jwk req (Some u)) uses.

Definition cli_jwk_use (keys : list json) (uses : list bytes) (all req output set : bool) : N * bytes :=
  match uses, keys with
  | [], _ | _, [] => (cli_fail, [])
  | _, _ =>
      if output then
        match filter (cli_use_status all req uses) keys with
        | [] => (cli_fail, [])
        | arr => cli_emit (cli_jwk_out arr set)
        end
      else (cli_status (forallb (cli_use_status all req uses) keys), [])
  end.

Fixpoint cli_eql_chain (l : list json) : bool :=
  match l with
  | a :: ((b :: _) as r) => jwk_eql a b && cli_eql_chain r
  | _ => true
  end.

Definition cli_jwk_eql (keys : list json) : N :=
  match keys with
  | _ :: _ :: _ => cli_status (cli_eql_chain keys)
  | _ => cli_fail
  end.

Section CliExcGen.
  Variable xalgs : list exch_alg.
  Variable gen : json -> option json.       (* jose_jwk_gen on a template (random) *)

  (* -i defaults to {} and every -i is appended; the first is dropped when there is more than one;
     the LAST one is the template *)
  Definition cli_jwk_exc (tmpls lcl rem : list json) : N * bytes :=
    let keys := match tmpls with [] => [JObj []] | _ => tmpls end in
    match lcl, rem with
    | [l], [r] =>
        match jwk_exc xalgs l r with
        | None => (cli_fail, [])                      (* "Error performing exchange!" *)
        | Some key =>
            match jupdate (last keys (JObj [])) key with
            | None => (cli_fail, [])
            | Some t => cli_emit (dump_top t)
            end
        end
    | _, _ => (cli_fail, [])
    end.

  Definition cli_jwk_gen (tmpls : list json) (set : bool) : N * bytes :=
    match tmpls with
    | [] => (cli_fail, [])
    | _ =>
        match cli_all_some gen tmpls with
        | None => (cli_fail, [])                      (* "JWK generation failed" *)
        | Some ks => cli_emit (cli_jwk_out ks set)
        end
    end.
End CliExcGen.

(* ---- jose b64 enc / dec -------------------------------------------------------------------------- *)

Definition cli_run_to_file (c : chain) (chunks : list bytes) : N * bytes :=
  let '(c', _, ok) := runc c chunks in (cli_status ok, cli_file_out c').

Definition cli_b64_enc (input : bytes) : N * bytes :=
  cli_run_to_file (B64Enc (Sink (SFile []))) (cli_bytewise input).

(* dec.c skips isspace() characters before feeding *)
Definition cli_b64_dec (input : bytes) : N * bytes :=
  cli_run_to_file (B64Dec (Sink (SFile []))) (cli_bytewise (filter (fun c => negb (cli_isspace c)) input)).

(* ---- what counts as a product on standard output ------------------------------------------------ *)

(* a complete token: the compact form has all its dots, the JSON form its closing brace *)
Fixpoint cli_count (c : N) (s : bytes) : nat :=
  match s with
  | [] => O
  | x :: r => if x =? c then S (cli_count c r) else cli_count c r
  end.

Definition cli_is_token (compact : bool) (ndots : nat) (s : bytes) : bool :=
  if compact then Nat.eqb (cli_count cli_dot s) ndots
  else match s with
       | 123 :: _ => N.eqb (last s 0) 125
       | _ => false
       end.

(* the three library steps of `jwe dec` as verdicts: a CEK was unwrapped, the ciphertext text decoded
   (trivially true for -I), content decryption succeeded *)
Definition cli_dec_glue (unwrapped decoded decrypted : bool) : N :=
  cli_status (unwrapped && decoded && decrypted).

(* ---- from the command line to the option records --------------------------------------------------- *)

(* -i ARG (with the content of the file it may name) and -I FILE: the object and where the
   payload / ciphertext comes from.  For the streamed compact form the field after the payload
   (signature / tag) is stored into the object just before done(); construction of the library
   object does not look at that member, so the model stores it beforehand.  None = usage error. *)
Definition cli_resolve_input (fields : list cli_field) (last : bytes) (arg : bytes) (file : option bytes)
           (detached : option bytes) : option (json * cli_src) :=
  match cli_set_input fields arg file with
  | CI_invalid => None
  | CI_obj j => Some (j, match detached with Some d => Src_detached d | None => Src_member end)
  | CI_stream j rest =>
      let '(text, tl) := cli_cut_dot rest in
      let '(lastf, _) := cli_cut_dot (match tl with Some r => r | None => [] end) in
      match jset last (JStr lastf) j with
      | Some j' => Some (j', match detached with Some d => Src_detached d | None => Src_stream text end)
      | None => None
      end
  end.

(* ---- instances over the concrete algorithm tables (what the correspondence driver runs) ------------ *)

From JoseV Require Import Jose.SigAlgs Jose.EncAlgs.

Definition cli_real_ver (arg : bytes) (file : option bytes) (keys : list json) (all detach : bool)
           (detached : option bytes) : option (N * bytes) :=
  match cli_resolve_input cli_jws_fields s_signature arg file detached with
  | None => None
  | Some (j, src) =>
      Some (cli_jws_ver real_sign_algs
              {| cv_jws := j; cv_keys := keys; cv_all := all; cv_detach := detach; cv_src := src |})
  end.

Definition cli_real_dec (arg : bytes) (file : option bytes) (keys : list json) (detached : option bytes)
  : option (N * bytes) :=
  match cli_resolve_input cli_jwe_fields cli_s_tag arg file detached with
  | None => None
  | Some (j, src) =>
      Some (cli_jwe_dec real_wrap_algs real_encr_algs inflate
              {| cd_jwe := j; cd_keys := keys; cd_pwd := false; cd_src := src |})
  end.

(* deterministic for the HMAC family: the whole output of `jose jws sig` *)
Definition cli_real_sig (o : cli_sig_opts) : N * bytes :=
  cli_jws_sig_glue real_sign_algs o
    (fun text => match cli_sig_validate o with
                 | Some sigs => sig_io_keys real_sign_algs (cs_jws o) (Some (JArr sigs)) (cs_keys o) [] text
                 | None => None
                 end).

(* `jose jws fmt` / `jose jwe fmt` for an object given as JSON with nothing detached *)
Definition cli_fmt (jwe compact : bool) (arg : bytes) (file : option bytes) : option (N * bytes) :=
  let fields := if jwe then cli_jwe_fields else cli_jws_fields in
  match cli_set_input fields arg file with
  | CI_invalid => None
  | CI_obj j =>
      let pay := if jwe then cli_member_req cli_s_ciphertext j else cli_member_opt cli_s_payload j in
      Some (if compact then
              match (if jwe then cli_jwe_fmt_compact j else cli_jws_fmt_compact j) with
              | Some c => (cli_ok, c)
              | None => (cli_fail, [])          (* what was printed before the failure is not modelled *)
              end
            else
              match pay with
              | Some p => (cli_ok, 123 :: (if jwe then cli_q_ciphertext else cli_q_payload) ++ p ++ [34; 44]
                                   ++ cli_dump_embed (cli_without (if jwe then cli_s_ciphertext else cli_s_payload) j) ++ [125])
              | None => (cli_fail, [])
              end)
  | CI_stream j rest =>
      let '(text, tl) := cli_cut_dot rest in
      let '(lastf, _) := cli_cut_dot (match tl with Some r => r | None => [] end) in
      match jset (if jwe then cli_s_tag else s_signature) (JStr lastf) j with
      | None => None
      | Some j' =>
          (* the text passes a decoder and an encoder stage (JWE) or goes through unchanged (JWS) *)
          let text' := if jwe then match dec text with Some d => Some (enc d) | None => None end else Some text in
          Some (match text' with
                | None => (cli_fail, [])
                | Some t =>
                    if compact then
                      match (if jwe then cli_jwe_compact j' t else cli_jws_compact j' t) with
                      | Some c => (cli_ok, c)
                      | None => (cli_fail, [])
                      end
                    else (cli_ok, 123 :: (if jwe then cli_q_ciphertext else cli_q_payload) ++ t ++ [34; 44]
                                  ++ cli_dump_embed (cli_without (if jwe then cli_s_ciphertext else cli_s_payload) j') ++ [125])
                end)
      end
  end.
