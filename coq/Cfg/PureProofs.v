(* C17 part B -- the little there is to prove (see the header of Cfg/Pure.v). *)
From JoseV Require Import Cfg.Pure.
From JoseV Require Import Base.Json Codec.B64Json Jose.Jws Jose.Jwe Jwk.Prm Jwk.Thp Jwk.Exc.

(* on the functional model a read-only call returns its arguments untouched, and its result is
   a function of the arguments only (no hidden state to depend on): both are immediate *)
Lemma ro_args_preserved {A B} (f : A -> B) a : fst (ro_call f a) = a.
Proof. reflexivity. Qed.

Lemma ro_result_function {A B} (f : A -> B) a a' : a = a' -> snd (ro_call f a) = snd (ro_call f a').
Proof. intros ->. reflexivity. Qed.

(* instances, so that a change of a model function's type (e.g. threading a state through it)
   breaks this file *)
Definition ro_entry_points :=
  ( ro_call jws_hdr, ro_call (fun x : json * option json => jwe_hdr (fst x) (snd x)),
    ro_call (fun x : json * bool * option bytes => jwk_prm (fst (fst x)) (snd (fst x)) (snd x)),
    ro_call (fun x : json * bytes => jwk_thp (fst x) (snd x)),
    ro_call (fun x : json * bytes * option N => jwk_thp_buf (fst (fst x)) (snd (fst x)) (snd x)),
    ro_call (fun x : json * json => jwk_eql (fst x) (snd x)),
    ro_call (fun x : list exch_alg * json * json => jwk_exc (fst (fst x)) (snd (fst x)) (snd x)),
    ro_call (fun x : json * option N => jose_b64_dec (fst x) (snd x)),
    ro_call jose_b64_dec_load, ro_call jose_b64_enc_dump,
    ro_call (fun x : list sign_alg * json * option json * json * bool =>
               let '(algs, jws, sig, jwk, all) := x in jws_ver algs jws sig jwk all) ).

Lemma pure_spec_all_same n : Forall (fun t => t = TSame) (pure_spec n).
Proof. induction n; cbn; constructor; auto. Qed.

Lemma pure_spec_length n : length (pure_spec n) = n.
Proof. induction n; cbn; congruence. Qed.

(* jose_jwe_hdr leaves the caller's "protected" node with the count it had, whatever its type *)
Lemma jwe_hdr_balanced : forall k, caller_delta jwe_hdr_prog k = 0%Z.
Proof. intros []; reflexivity. Qed.

(* jose_jws_hdr does so for an absent, object, string or literal member ... *)
Lemma jws_hdr_balanced_ok : forall k, k <> KCounted -> caller_delta jws_hdr_prog k = 0%Z.
Proof. intros [] H; try reflexivity. congruence. Qed.

(* ... but drops a reference it does not own when the member is an integer, real or array *)
Lemma jws_hdr_unbalanced : exists k, caller_delta jws_hdr_prog k = (-1)%Z.
Proof. exists KCounted. vm_compute. reflexivity. Qed.
