(* C17 part A -- configuration contexts (lib/cfg.c, include/jose/cfg.h).

   A state machine over a finite map of contexts.  One record per live
   [struct jose_cfg]: the reference count, the handler ([None] = the library's
   own [dflt_err], which prints to stderr) and the user pointer.  Handlers are
   identified by small numbers (the harness has one C function per number), user
   pointers by the integer they encode (0 = NULL).

   Mirrors the code shape for shape:

     jose_cfg()                 calloc; *cfg = dflt (err = dflt_err, misc = NULL); refs = 1
     jose_cfg_incref(c)         c ? refs++ : nothing              (NULL tolerated)
     jose_cfg_decref(c)         if (c->refs-- == 1) free(c)       (NULL dereferenced)
     jose_cfg_auto(&c)          jose_cfg_decref(c)                (NULL dereferenced)
     jose_cfg_set_err_func      c->err = err ? err : dflt.err; c->misc = misc   (NULL dereferenced)
     jose_cfg_get_err_misc      return c->err   <-- the HANDLER, not misc       (NULL dereferenced)
     jose_cfg_err(c, ...)       (c ? c : &dflt)->err((c ? c : &dflt)->misc, ...)  (NULL tolerated)

   [variant] records the two places where the code departs from its header / its
   siblings: what jose_cfg_get_err_misc returns ([Current]: the handler function
   pointer; [Fixed]: misc) and whether jose_cfg_decref/jose_cfg_auto tolerate NULL
   ([Current]: no).  tools/props/c17.py probes the implementation and runs the
   model with the flags the code exhibits.

   Use of a freed context is undefined behaviour in C: the harness never does
   it (it tracks the count it created), and in the model an operation on a slot
   that holds no live context is skipped with output [OSkip].  No proofs here. *)
From Coq Require Export List NArith Bool.
Export ListNotations.
Local Open Scope N_scope.

Definition cid := N.     (* context slot *)
Definition hid := N.     (* handler number, >= 1 *)

(* the two places where the code as it is departs from what its header documents / its siblings do;
   each flag says which behaviour the running code has (probed on every run) *)
Record variant := {
  get_returns_misc : bool;    (* jose_cfg_get_err_misc: false = `return cfg->err;` (as is), true = `return cfg->misc;` *)
  decref_null_ok : bool       (* jose_cfg_decref / jose_cfg_auto on NULL: false = dereferenced (as is), true = tolerated *)
}.
Definition Current : variant := {| get_returns_misc := false; decref_null_ok := false |}.
Definition Fixed : variant := {| get_returns_misc := true; decref_null_ok := true |}.

Record ctx := { refs : N; handler : option hid; misc : N }.

(* a delivered error report *)
Record event := {
  ev_ctx : option cid;         (* through which context ([None] = the NULL context) *)
  ev_handler : option hid;     (* who received it ([None] = the default handler: stderr) *)
  ev_misc : N;                 (* the user pointer it was called with *)
  ev_code : N                  (* the error code, in protocol form *)
}.

Record cstate := { ctxs : list (cid * ctx); clog : list event }.

Definition cinit : cstate := {| ctxs := []; clog := [] |}.

(* what a [void *] coming back from jose_cfg_get_err_misc can be *)
Inductive cptr :=
| PMisc (m : N)        (* a user pointer (0 = NULL) *)
| PHandler (h : hid)   (* the address of handler h *)
| PDefault.            (* the address of the library's static dflt_err *)

Inductive cop :=
| OpCreate (c : cid)
| OpIncref (c : option cid)                   (* None = NULL *)
| OpDecref (c : option cid)
| OpAuto   (c : option cid)                   (* jose_cfg_auto(&p) with p = c *)
| OpSet    (c : option cid) (h : option hid) (m : N)
| OpGet    (c : option cid)
| OpErr    (c : option cid) (code : N).

Inductive cout :=
| OSkip                 (* not executed: the slot holds no live context (or is occupied, for create) *)
| OOk
| OPtr (p : cptr)
| OEvent (e : event)
| OCrash.               (* NULL dereference *)

(* ---- the finite map --------------------------------------------------------- *)

Fixpoint cfind (c : cid) (m : list (cid * ctx)) : option ctx :=
  match m with
  | [] => None
  | (k, v) :: r => if k =? c then Some v else cfind c r
  end.

Fixpoint cremove (c : cid) (m : list (cid * ctx)) : list (cid * ctx) :=
  match m with
  | [] => []
  | (k, v) :: r => if k =? c then cremove c r else (k, v) :: cremove c r
  end.

Definition cput (c : cid) (v : ctx) (m : list (cid * ctx)) : list (cid * ctx) :=
  (c, v) :: cremove c m.

Definition with_ctxs (st : cstate) (m : list (cid * ctx)) : cstate :=
  {| ctxs := m; clog := clog st |}.

Definition with_event (st : cstate) (e : event) : cstate :=
  {| ctxs := ctxs st; clog := clog st ++ [e] |}.

(* ---- the functions ------------------------------------------------------------ *)

Definition cfg_new : ctx := {| refs := 1; handler := None; misc := 0 |}.

Definition do_decref (st : cstate) (c : cid) : cstate * cout :=
  match cfind c (ctxs st) with
  | None => (st, OSkip)
  | Some x =>
      if refs x =? 1
      then (with_ctxs st (cremove c (ctxs st)), OOk)                       (* free *)
      else (with_ctxs st (cput c {| refs := refs x - 1; handler := handler x; misc := misc x |} (ctxs st)), OOk)
  end.

Definition get_result (v : variant) (x : ctx) : cptr :=
  if get_returns_misc v
  then PMisc (misc x)                                                        (* return cfg->misc; *)
  else match handler x with Some h => PHandler h | None => PDefault end.     (* return cfg->err; *)

Definition cstep (v : variant) (st : cstate) (o : cop) : cstate * cout :=
  match o with
  | OpCreate c =>
      match cfind c (ctxs st) with
      | Some _ => (st, OSkip)
      | None => (with_ctxs st (cput c cfg_new (ctxs st)), OOk)
      end
  | OpIncref None => (st, OOk)
  | OpIncref (Some c) =>
      match cfind c (ctxs st) with
      | None => (st, OSkip)
      | Some x => (with_ctxs st (cput c {| refs := refs x + 1; handler := handler x; misc := misc x |} (ctxs st)), OOk)
      end
  | OpDecref None => (st, if decref_null_ok v then OOk else OCrash)
  | OpDecref (Some c) => do_decref st c
  | OpAuto None => (st, if decref_null_ok v then OOk else OCrash)
  | OpAuto (Some c) => do_decref st c
  | OpSet None _ _ => (st, OCrash)
  | OpSet (Some c) h m =>
      match cfind c (ctxs st) with
      | None => (st, OSkip)
      | Some x => (with_ctxs st (cput c {| refs := refs x; handler := h; misc := m |} (ctxs st)), OOk)
      end
  | OpGet None => (st, OCrash)
  | OpGet (Some c) =>
      match cfind c (ctxs st) with
      | None => (st, OSkip)
      | Some x => (st, OPtr (get_result v x))
      end
  | OpErr None code =>
      (* const jose_cfg_t *c = cfg ? cfg : &dflt;  dflt = { .err = dflt_err } *)
      let e := {| ev_ctx := None; ev_handler := None; ev_misc := 0; ev_code := code |} in
      (with_event st e, OEvent e)
  | OpErr (Some c) code =>
      match cfind c (ctxs st) with
      | None => (st, OSkip)
      | Some x =>
          let e := {| ev_ctx := Some c; ev_handler := handler x; ev_misc := misc x; ev_code := code |} in
          (with_event st e, OEvent e)
      end
  end.

(* a whole history: final state *)
Fixpoint crun (v : variant) (st : cstate) (h : list cop) : cstate :=
  match h with
  | [] => st
  | o :: r => crun v (fst (cstep v st o)) r
  end.

(* a whole history: the observable outputs; a crash ends the process *)
Fixpoint crun_out (v : variant) (st : cstate) (h : list cop) : list cout :=
  match h with
  | [] => []
  | o :: r =>
      let '(st', x) := cstep v st o in
      match x with
      | OCrash => [OCrash]
      | _ => x :: crun_out v st' r
      end
  end.

(* which context an operation addresses *)
Definition ctarget (o : cop) : option cid :=
  match o with
  | OpCreate c => Some c
  | OpIncref c | OpDecref c | OpAuto c | OpGet c => c
  | OpSet c _ _ => c
  | OpErr c _ => c
  end.

Definition addresses (c : cid) (o : cop) : bool :=
  match ctarget o with Some k => k =? c | None => false end.

(* what a context's owner can observe of it: its record and the reports delivered through it *)
Definition ev_on (c : cid) (e : event) : bool :=
  match ev_ctx e with Some k => k =? c | None => false end.

Definition cview (st : cstate) (c : cid) : option ctx * list event :=
  (cfind c (ctxs st), filter (ev_on c) (clog st)).

(* operations that (re)define what is registered with c *)
Definition registers (c : cid) (o : cop) : bool :=
  match o with
  | OpCreate k => k =? c
  | OpSet (Some k) _ _ => k =? c
  | _ => false
  end.

(* ---- dflt_err's text: getname() ------------------------------------------------ *)
(* protocol form of a code k: k < 100 is the errno value k (0 = no name printed);
   k >= 100 stands for _JOSE_CFG_ERR_BASE + (k - 100). *)
Inductive name_class :=
| NNone                (* err == 0: nothing printed *)
| NErrno (e : N)       (* strerror(e) *)
| NNamed (i : N)       (* errnames[i-1].name, i = 1..6 *)
| NUnknown.            (* "UNKNOWN" *)

Definition getname_class (k : N) : name_class :=
  if k =? 0 then NNone
  else if k <? 100 then NErrno k
  else if (1 <=? k - 100) && (k - 100 <=? 6) then NNamed (k - 100)
  else NUnknown.
