(* C17 part A -- proofs about the context state machine of Cfg/Cfg.v.
   Everything is by induction over arbitrary operation histories. *)
From JoseV Require Import Cfg.Cfg.
From Coq Require Import Lia.
Local Open Scope N_scope.

(* ---- the finite map ------------------------------------------------------------ *)

Lemma find_remove_same c m : cfind c (cremove c m) = None.
Proof.
  induction m as [|[k v] r IH]; cbn; [reflexivity|].
  destruct (k =? c) eqn:E; [exact IH|]. cbn. rewrite E. exact IH.
Qed.

Lemma find_remove_other c k m : k <> c -> cfind k (cremove c m) = cfind k m.
Proof.
  intros Hk. induction m as [|[k0 v] r IH]; cbn; [reflexivity|].
  destruct (k0 =? c) eqn:E.
  - apply N.eqb_eq in E. subst k0.
    destruct (c =? k) eqn:E2; [apply N.eqb_eq in E2; congruence|]. exact IH.
  - cbn. destruct (k0 =? k); [reflexivity|exact IH].
Qed.

Lemma find_put_same c v m : cfind c (cput c v m) = Some v.
Proof. unfold cput. cbn. rewrite N.eqb_refl. reflexivity. Qed.

Lemma find_put_other c k v m : k <> c -> cfind k (cput c v m) = cfind k m.
Proof.
  intros Hk. unfold cput. cbn.
  destruct (c =? k) eqn:E; [apply N.eqb_eq in E; congruence|].
  apply find_remove_other. exact Hk.
Qed.

Arguments cput : simpl never.
Arguments cremove : simpl never.

Lemma filter_app_one {A} (f : A -> bool) l x :
  filter f (l ++ [x]) = if f x then filter f l ++ [x] else filter f l.
Proof.
  rewrite filter_app. cbn. destruct (f x); [reflexivity|apply app_nil_r].
Qed.

(* ---- what a step can touch ------------------------------------------------------- *)

Lemma on_target c o : addresses c o = true <-> ctarget o = Some c.
Proof.
  unfold addresses. destruct (ctarget o) as [k|]; split; intro H; try discriminate.
  - apply N.eqb_eq in H. congruence.
  - inversion H. apply N.eqb_refl.
Qed.

Lemma on_false_target c o : addresses c o = false -> forall k, ctarget o = Some k -> k <> c.
Proof.
  unfold addresses. intros H k Hk. rewrite Hk in H. apply N.eqb_neq in H. exact H.
Qed.

Lemma do_decref_other st c c' : c <> c' ->
  cview (fst (do_decref st c)) c' = cview st c'.
Proof.
  intros Hc. unfold do_decref, cview.
  destruct (cfind c (ctxs st)) as [x|]; [|reflexivity].
  destruct (refs x =? 1); cbn.
  - rewrite find_remove_other by congruence. reflexivity.
  - rewrite find_put_other by congruence. reflexivity.
Qed.

(* an operation that does not address c' changes nothing c' can see *)
Lemma step_other v st o c' : addresses c' o = false -> cview (fst (cstep v st o)) c' = cview st c'.
Proof.
  intros Hon. pose proof (on_false_target _ _ Hon) as Hk.
  destruct o as [c|[c|]|[c|]|[c|]|[c|] h m|[c|]|[c|] code]; cbn in *;
    try reflexivity;
    try (apply do_decref_other; apply Hk; reflexivity);
    try (specialize (Hk c eq_refl)).
  - destruct (cfind c (ctxs st)); [reflexivity|]. unfold cview; cbn.
    rewrite find_put_other by congruence. reflexivity.
  - destruct (cfind c (ctxs st)); [|reflexivity]. unfold cview; cbn.
    rewrite find_put_other by congruence. reflexivity.
  - destruct (cfind c (ctxs st)); [|reflexivity]. unfold cview; cbn.
    rewrite find_put_other by congruence. reflexivity.
  - destruct (cfind c (ctxs st)); reflexivity.
  - destruct (cfind c (ctxs st)); [|reflexivity]. unfold cview; cbn.
    rewrite filter_app_one. unfold ev_on at 1; cbn.
    destruct (c =? c') eqn:E; [apply N.eqb_eq in E; congruence|]. reflexivity.
  - unfold cview; cbn. rewrite filter_app_one. reflexivity.
Qed.

Lemma view_find st1 st2 c : cview st1 c = cview st2 c -> cfind c (ctxs st1) = cfind c (ctxs st2).
Proof. unfold cview. intro H. inversion H. reflexivity. Qed.

Lemma view_log st1 st2 c : cview st1 c = cview st2 c ->
  filter (ev_on c) (clog st1) = filter (ev_on c) (clog st2).
Proof. unfold cview. intro H. inversion H. reflexivity. Qed.

Lemma ev_on_self c h m k :
  ev_on c {| ev_ctx := Some c; ev_handler := h; ev_misc := m; ev_code := k |} = true.
Proof. unfold ev_on; cbn. apply N.eqb_refl. Qed.

Lemma do_decref_same st1 st2 c : cview st1 c = cview st2 c ->
  cview (fst (do_decref st1 c)) c = cview (fst (do_decref st2 c)) c /\
  snd (do_decref st1 c) = snd (do_decref st2 c).
Proof.
  intros Hv. pose proof (view_find _ _ _ Hv) as Hf. pose proof (view_log _ _ _ Hv) as Hl.
  unfold do_decref. rewrite <- Hf.
  destruct (cfind c (ctxs st1)) as [x|]; [|split; [exact Hv|reflexivity]].
  destruct (refs x =? 1); unfold cview; cbn.
  - rewrite !find_remove_same, Hl. split; reflexivity.
  - rewrite !find_put_same, Hl. split; reflexivity.
Qed.

(* an operation on c' sees and changes only c' : two states that look the same from c'
   still look the same afterwards, and the call returns the same thing *)
Lemma step_same v st1 st2 o c' : addresses c' o = true -> cview st1 c' = cview st2 c' ->
  cview (fst (cstep v st1 o)) c' = cview (fst (cstep v st2 o)) c' /\
  snd (cstep v st1 o) = snd (cstep v st2 o).
Proof.
  intros Hon Hv. apply on_target in Hon.
  pose proof (view_find _ _ _ Hv) as Hf. pose proof (view_log _ _ _ Hv) as Hl.
  destruct o as [c|[c|]|[c|]|[c|]|[c|] h m|[c|]|[c|] code]; cbn in Hon; try discriminate;
    inversion Hon; subst c; cbn;
    try (apply do_decref_same; exact Hv).
  all: rewrite <- Hf; destruct (cfind c' (ctxs st1)) as [x|] eqn:Hx;
    try (split; [exact Hv|reflexivity]).
  all: unfold cview; cbn;
    rewrite ?find_put_same, ?filter_app_one, ?ev_on_self, ?Hx, <- ?Hf, ?Hl; split; reflexivity.
Qed.

(* the results of the calls made on c during a history *)
Fixpoint outs_on (v : variant) (c : cid) (st : cstate) (h : list cop) : list cout :=
  match h with
  | [] => []
  | o :: r =>
      let st' := fst (cstep v st o) in
      if addresses c o then snd (cstep v st o) :: outs_on v c st' r else outs_on v c st' r
  end.

(* non-interference over whole histories: erase every operation that addresses another
   context (or NULL) -- c's record, the reports delivered through it and the result of every
   call on it are unchanged *)
Lemma isolated_gen v c : forall h st1 st2, cview st1 c = cview st2 c ->
  cview (crun v st1 h) c = cview (crun v st2 (filter (addresses c) h)) c /\
  outs_on v c st1 h = outs_on v c st2 (filter (addresses c) h).
Proof.
  induction h as [|o r IH]; intros st1 st2 Hv; cbn; [split; [exact Hv|reflexivity]|].
  destruct (addresses c o) eqn:Hon; cbn.
  - rewrite Hon. destruct (step_same v st1 st2 o c Hon Hv) as [Hv' Ho].
    destruct (IH _ _ Hv') as [H1 H2]. split; [exact H1|]. rewrite Ho, H2. reflexivity.
  - apply IH. rewrite step_other by exact Hon. exact Hv.
Qed.

Theorem ctx_isolated v h c :
  cview (crun v cinit h) c = cview (crun v cinit (filter (addresses c) h)) c /\
  outs_on v c cinit h = outs_on v c cinit (filter (addresses c) h).
Proof. apply isolated_gen. reflexivity. Qed.

(* one-step form: anything done to c (or to NULL) leaves every other context's view alone *)
Theorem ctx_isolated_step v st o c c' :
  ctarget o = Some c \/ ctarget o = None -> c' <> c -> cview (fst (cstep v st o)) c' = cview st c'.
Proof.
  intros Ht Hc. apply step_other. unfold addresses.
  destruct Ht as [Ht|Ht]; rewrite Ht; [|reflexivity].
  apply N.eqb_neq. congruence.
Qed.

(* ---- what is registered with a context stays registered --------------------------- *)

Definition no_reg (c : cid) (h : list cop) : bool := forallb (fun o => negb (registers c o)) h.

Lemma do_decref_keeps st c k x' :
  cfind k (ctxs (fst (do_decref st c))) = Some x' ->
  exists x, cfind k (ctxs st) = Some x /\ handler x = handler x' /\ misc x = misc x'.
Proof.
  unfold do_decref. destruct (cfind c (ctxs st)) as [y|] eqn:Hy; cbn.
  - destruct (N.eq_dec k c) as [->|Hk].
    + destruct (refs y =? 1); cbn.
      * rewrite find_remove_same. discriminate.
      * rewrite find_put_same. intro H; inversion H; subst x'. exists y. cbn. auto.
    + destruct (refs y =? 1); cbn.
      * rewrite find_remove_other by exact Hk. intro H. exists x'. auto.
      * rewrite find_put_other by exact Hk. intro H. exists x'. auto.
  - intro H. exists x'. auto.
Qed.

Lemma step_keeps_reg v st o c x' : registers c o = false ->
  cfind c (ctxs (fst (cstep v st o))) = Some x' ->
  exists x, cfind c (ctxs st) = Some x /\ handler x = handler x' /\ misc x = misc x'.
Proof.
  intros Hr.
  destruct o as [k|[k|]|[k|]|[k|]|[k|] h m|[k|]|[k|] code]; cbn in *;
    try (intro H; exists x'; auto; fail);
    try (apply do_decref_keeps).
  - (* create k, k <> c *)
    apply N.eqb_neq in Hr.
    destruct (cfind k (ctxs st)); cbn; [intro H; exists x'; auto|].
    rewrite find_put_other by congruence. intro H; exists x'; auto.
  - (* incref *)
    destruct (cfind k (ctxs st)) as [y|] eqn:Hy; cbn; [|intro H; exists x'; auto].
    destruct (N.eq_dec c k) as [->|Hk].
    + rewrite find_put_same. intro H; inversion H; subst x'. exists y; cbn; auto.
    + rewrite find_put_other by exact Hk. intro H; exists x'; auto.
  - (* set on k <> c *)
    apply N.eqb_neq in Hr.
    destruct (cfind k (ctxs st)); cbn; [|intro H; exists x'; auto].
    rewrite find_put_other by congruence. intro H; exists x'; auto.
  - destruct (cfind k (ctxs st)); cbn; intro H; exists x'; auto.
  - destruct (cfind k (ctxs st)); cbn; intro H; exists x'; auto.
Qed.

Lemma run_keeps_reg v c : forall mid st x', no_reg c mid = true ->
  cfind c (ctxs (crun v st mid)) = Some x' ->
  exists x, cfind c (ctxs st) = Some x /\ handler x = handler x' /\ misc x = misc x'.
Proof.
  induction mid as [|o r IH]; intros st x' Hn H; cbn in *.
  - exists x'; auto.
  - apply andb_true_iff in Hn as [Ho Hn]. apply negb_true_iff in Ho.
    destruct (IH _ _ Hn H) as [y [Hy [Hh Hm]]].
    destruct (step_keeps_reg v st o c y Ho Hy) as [x [Hx [Hh' Hm']]].
    exists x. repeat split; congruence.
Qed.

Lemma set_ok v st0 c h m st1 : cstep v st0 (OpSet (Some c) h m) = (st1, OOk) ->
  exists x, cfind c (ctxs st1) = Some x /\ handler x = h /\ misc x = m.
Proof.
  cbn. destruct (cfind c (ctxs st0)) as [y|]; [|intro H; inversion H].
  intro H; inversion H; subst st1; cbn. rewrite find_put_same.
  eexists; split; [reflexivity|]. cbn; auto.
Qed.

(* after (h, m) has been registered with c: whatever happens to other contexts, and whatever
   non-registering calls are made on c itself, as long as c is still alive ... *)
Section AfterRegistration.
  Variable v : variant.
  Variables (st0 st1 st2 : cstate) (c : cid) (h : option hid) (m : N) (mid : list cop).
  Hypothesis Hset : cstep v st0 (OpSet (Some c) h m) = (st1, OOk).
  Hypothesis Hmid : no_reg c mid = true.
  Hypothesis Hrun : st2 = crun v st1 mid.
  Hypothesis Hlive : cfind c (ctxs st2) <> None.

  Lemma registered_now : exists x, cfind c (ctxs st2) = Some x /\ handler x = h /\ misc x = m.
  Proof.
    destruct (cfind c (ctxs st2)) as [x'|] eqn:Hx; [|congruence].
    subst st2. destruct (run_keeps_reg v c mid st1 x' Hmid Hx) as [x [Hx1 [Hh Hm]]].
    destruct (set_ok v st0 c h m st1 Hset) as [y [Hy [Hh' Hm']]].
    rewrite Hy in Hx1. inversion Hx1; subst y.
    exists x'. repeat split; congruence.
  Qed.

  (* ... a report on c goes to h -- with m *)
  Lemma err_delivery code :
    snd (cstep v st2 (OpErr (Some c) code)) =
      OEvent {| ev_ctx := Some c; ev_handler := h; ev_misc := m; ev_code := code |}.
  Proof.
    destruct registered_now as [x [Hx [Hh Hm]]]. cbn. rewrite Hx. cbn.
    rewrite Hh, Hm. reflexivity.
  Qed.

  (* ... and (in the repaired variant) asking returns m *)
  Lemma get_fixed : get_returns_misc v = true -> snd (cstep v st2 (OpGet (Some c))) = OPtr (PMisc m).
  Proof.
    intros Hv. destruct registered_now as [x [Hx [Hh Hm]]]. cbn. rewrite Hx. cbn.
    unfold get_result. rewrite Hv, Hm. reflexivity.
  Qed.

  (* ... whereas the code as it is returns the handler's address *)
  Lemma get_current : get_returns_misc v = false ->
    snd (cstep v st2 (OpGet (Some c))) = OPtr (match h with Some k => PHandler k | None => PDefault end).
  Proof.
    intros Hv. destruct registered_now as [x [Hx [Hh Hm]]]. cbn. rewrite Hx. cbn.
    unfold get_result. rewrite Hv, Hh. reflexivity.
  Qed.
End AfterRegistration.

(* a fresh context has the default handler and a NULL user pointer *)
Lemma create_default v st0 st1 c : cstep v st0 (OpCreate c) = (st1, OOk) ->
  cfind c (ctxs st1) = Some cfg_new.
Proof.
  cbn. destruct (cfind c (ctxs st0)); intro H; inversion H; cbn. apply find_put_same.
Qed.

(* the NULL context: always the default handler; no context is touched *)
Lemma null_default v st code :
  snd (cstep v st (OpErr None code)) =
    OEvent {| ev_ctx := None; ev_handler := None; ev_misc := 0; ev_code := code |} /\
  ctxs (fst (cstep v st (OpErr None code))) = ctxs st.
Proof. split; reflexivity. Qed.

(* every report in the log that came through a context carries what was registered with that
   context at the moment of the call *)
Fixpoint ctrace (v : variant) (st : cstate) (h : list cop) : list (cstate * cop * cout) :=
  match h with
  | [] => []
  | o :: r => (st, o, snd (cstep v st o)) :: ctrace v (fst (cstep v st o)) r
  end.

Lemma every_delivery v h st0 : forall st o x, In (st, o, x) (ctrace v st0 h) ->
  forall c code cx, o = OpErr (Some c) code -> cfind c (ctxs st) = Some cx ->
  x = OEvent {| ev_ctx := Some c; ev_handler := handler cx; ev_misc := misc cx; ev_code := code |}.
Proof.
  revert st0. induction h as [|o r IH]; intros st0 st o' x Hin; cbn in Hin; [contradiction|].
  destruct Hin as [Heq|Hin].
  - inversion Heq; subst. intros c code cx -> Hf. cbn. rewrite Hf. reflexivity.
  - exact (IH _ _ _ _ Hin).
Qed.

(* reference counting: a context created and then increfed n times survives n decrefs and is
   freed by the next one *)
Lemma refs_after_incref v st c x : cfind c (ctxs st) = Some x ->
  cfind c (ctxs (fst (cstep v st (OpIncref (Some c))))) =
    Some {| refs := refs x + 1; handler := handler x; misc := misc x |}.
Proof. intro H. cbn. rewrite H. cbn. apply find_put_same. Qed.

Lemma decref_frees_at_one v st c x : cfind c (ctxs st) = Some x ->
  cfind c (ctxs (fst (cstep v st (OpDecref (Some c))))) =
    if refs x =? 1 then None
    else Some {| refs := refs x - 1; handler := handler x; misc := misc x |}.
Proof.
  intro H. cbn. unfold do_decref. rewrite H.
  destruct (refs x =? 1); cbn; [apply find_remove_same|apply find_put_same].
Qed.

(* ---- the current code: jose_cfg_get_err_misc returns the handler ---------------------- *)

Definition refuting_history : list cop := [OpCreate 0; OpSet (Some 0) (Some 1) 1; OpGet (Some 0)].

Lemma get_misc_refuted :
  crun_out Current cinit refuting_history = [OOk; OOk; OPtr (PHandler 1)] /\
  crun_out Fixed cinit refuting_history = [OOk; OOk; OPtr (PMisc 1)].
Proof. split; vm_compute; reflexivity. Qed.
