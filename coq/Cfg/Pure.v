(* C17 part B -- read-only calls leave every JSON argument as it was.

   What is here is deliberately small.  The functional models of the read-only entry points
   (Jose/Jws.v, Jose/Jwe.v, Jwk/Thp.v, Jwk/Prm.v, Jwk/Exc.v, Codec/B64Json.v) work on
   immutable JSON trees: in Gallina a call cannot modify its arguments, so "arguments are
   preserved" holds by construction on that model and says nothing about the C code.  The C
   code's behaviour is therefore CHECKED DYNAMICALLY: the harness command `pure` deep-copies
   every argument, calls the function, and compares value (json_equal + sorted compact dump)
   and the reference count of every node of every argument; the model side of that command
   is the specification below (one `=` per argument).

   The one piece of ownership logic that the property text anchors and that is small enough
   to mirror shape for shape is the prologue of the two header-merge functions: what they do
   to the reference count of the caller's "protected" member.  It is modelled here as a
   little program over a pointer variable [p] with a cleanup (json_auto_t). *)
From Coq Require Export List NArith ZArith Bool.
Export ListNotations.

(* ---- the specification of the `pure` command --------------------------------------------- *)
Inductive token :=
| TSame              (* "="  value and reference counts unchanged *)
| TMod               (* "M"  value changed *)
| TRef (d : Z).      (* "R<d>" value unchanged, some node's reference count changed by d *)

Fixpoint pure_spec (nargs : nat) : list token :=
  match nargs with O => [] | S k => TSame :: pure_spec k end.

(* a read-only call on the functional model: the arguments afterwards, and the result *)
Definition ro_call {A B} (f : A -> B) (a : A) : A * B := (a, f a).

(* ---- ownership in the prologue of jose_jws_hdr / jose_jwe_hdr ------------------------------ *)
(* the JSON type of the caller's "protected" member *)
Inductive pkind :=
| KAbsent
| KObject
| KString
| KLiteral     (* null / true / false: jansson singletons, json_incref/json_decref ignore them *)
| KCounted.    (* integer / real / array: an ordinary reference-counted node *)

(* what the local variable p points at *)
Inductive who := Caller | Fresh | Null.

Record ostate := { o_p : who; o_delta : Z (* net change applied to the caller's node *) }.

Inductive instr :=
| IGet              (* p = json_object_get(x, "protected")       -- BORROWED *)
| IGetIncref        (* p = json_incref(json_object_get(x, "protected")) *)
| IDecref           (* json_decref(p) *)
| INew              (* p = json_object() / json_deep_copy(p) / jose_b64_dec_load(p): a new value or NULL *)
| ICleanup.         (* end of scope of json_auto_t *p: json_decref(p) *)

Definition counted (k : pkind) : bool :=
  match k with KObject | KString | KCounted => true | _ => false end.

Definition oexec (k : pkind) (st : ostate) (i : instr) : ostate :=
  let bump d := match o_p st with
                | Caller => if counted k then (o_delta st + d)%Z else o_delta st
                | _ => o_delta st
                end in
  match i with
  | IGet => {| o_p := match k with KAbsent => Null | _ => Caller end; o_delta := o_delta st |}
  | IGetIncref =>
      let w := match k with KAbsent => Null | _ => Caller end in
      {| o_p := w; o_delta := match w with Caller => if counted k then (o_delta st + 1)%Z else o_delta st | _ => o_delta st end |}
  | IDecref => {| o_p := o_p st; o_delta := bump (-1)%Z |}
  | INew => {| o_p := Fresh; o_delta := o_delta st |}
  | ICleanup => {| o_p := Null; o_delta := bump (-1)%Z |}
  end.

(* lib/jws.c jose_jws_hdr:
     p = json_object_get(sig, "protected");
     if (!p) p = json_object(); else if (object) p = json_deep_copy(p); else if (string) p = dec_load(p);
     if (!json_is_object(p)) return NULL;   ...   return json_incref(p);      [cleanup: decref p] *)
Definition jws_hdr_prog (k : pkind) : list instr :=
  [IGet] ++
  match k with
  | KAbsent | KObject | KString => [INew]
  | _ => []
  end ++ [ICleanup].

(* lib/jwe.c jose_jwe_hdr:
     p = json_incref(json_object_get(jwe, "protected"));
     if (!p) p = json_object(); else if (object) { json_decref(p); p = json_deep_copy(p); }
     else if (string) { json_decref(p); p = dec_load(p); }                    [cleanup: decref p] *)
Definition jwe_hdr_prog (k : pkind) : list instr :=
  [IGetIncref] ++
  match k with
  | KAbsent => [INew]
  | KObject | KString => [IDecref; INew]
  | _ => []
  end ++ [ICleanup].

Definition caller_delta (prog : pkind -> list instr) (k : pkind) : Z :=
  o_delta (fold_left (oexec k) (prog k) {| o_p := Null; o_delta := 0 |}).

Definition all_kinds : list pkind := [KAbsent; KObject; KString; KLiteral; KCounted].
