(* C09 -- ownership / reference-count model of the jansson glue of libjose.

   A heap of reference-counted JSON nodes (node = count + scalar | array of
   references | object of (key, reference)); jansson's ownership rules as
   operations of a state monad whose failure value is "Stuck" (use or release
   of a freed node); and the header-merge / zip glue of lib/jws.c, lib/jwe.c
   and lib/misc.c written as programs over it, line by line from the C text.

   No proofs in this file (they are in Mem/OwnProofs.v).  All names carry a
   prefix because the whole development is extracted into one OCaml module. *)
From JoseV Require Import Base.Json Codec.B64Json Gen.Tables Jose.Stubs.
From Coq Require Import List Arith Lia.
Import ListNotations.
Local Open Scope nat_scope.

(* ---- heap ---------------------------------------------------------------------- *)

Definition jref := nat.

Inductive jnval :=
| VScalar (j : json)                  (* null / bool / integer / real / string: no children *)
| VArr (l : list jref)
| VObj (m : list (bytes * jref)).

Record jnode := mknode { refs : nat; nv : jnval }.

(* a slot is None once the node has been freed *)
Definition jheap := list (option jnode).

Inductive mfault := FUseAfterFree | FDecrefFreed | FFuel.

Inductive mres (A : Type) :=
| MOk (h : jheap) (a : A)
| MStuck (f : mfault).
Arguments MOk {A}.
Arguments MStuck {A}.

Definition M (A : Type) := jheap -> mres A.
Definition mret {A} (a : A) : M A := fun h => MOk h a.
Definition mbind {A B} (m : M A) (k : A -> M B) : M B :=
  fun h => match m h with MOk h' a => k a h' | MStuck f => MStuck f end.

Notation "x <- m ;; k" := (mbind m (fun x => k)) (at level 61, m at next level, right associativity).
Notation "m ;;; k" := (mbind m (fun _ => k)) (at level 61, right associativity).

Definition hlive (h : jheap) (r : jref) : option jnode :=
  match nth_error h r with Some (Some n) => Some n | _ => None end.

Fixpoint hupd (r : nat) (x : option jnode) (h : jheap) : jheap :=
  match h with
  | [] => []
  | y :: t => match r with O => x :: t | S r' => y :: hupd r' x t end
  end.

Definition kids_of (v : jnval) : list jref :=
  match v with VScalar _ => [] | VArr l => l | VObj m => map snd m end.

Definition halloc (v : jnval) : M jref := fun h => MOk (h ++ [Some (mknode 1 v)]) (length h).

Fixpoint hcount (h : jheap) : nat :=
  match h with [] => 0 | Some _ :: t => S (hcount t) | None :: t => hcount t end.

(* ---- json_decref: at count 1 the node is freed and its children released ---------- *)

(* Work-list formulation; every step removes one unit from some count, so the
   measure below bounds the number of steps for ANY heap (hfuel_enough). *)
Fixpoint hrelease (fuel : nat) (w : list jref) (h : jheap) : mres unit :=
  match fuel with
  | O => match w with [] => MOk h tt | _ => MStuck FFuel end
  | S f =>
      match w with
      | [] => MOk h tt
      | r :: w' =>
          match hlive h r with
          | None => MStuck FDecrefFreed
          | Some n =>
              if refs n <=? 1
              then hrelease f (kids_of (nv n) ++ w') (hupd r None h)
              else hrelease f w' (hupd r (Some (mknode (refs n - 1) (nv n))) h)
          end
      end
  end.

Fixpoint hmeasure (h : jheap) : nat :=
  match h with [] => 0 | Some n :: t => S (refs n) + hmeasure t | None :: t => hmeasure t end.

Definition hfuel (h : jheap) : nat := S (hmeasure h).

(* C pointers are option jref (None = NULL) *)
Definition jptr := option jref.

(* json_decref(p): NULL is a no-op *)
Definition m_decref (p : jptr) : M unit :=
  fun h => match p with None => MOk h tt | Some r => hrelease (hfuel h) [r] h end.

(* json_incref(p): NULL is a no-op; touching a freed node is Stuck *)
Definition m_incref (p : jptr) : M unit :=
  fun h => match p with
           | None => MOk h tt
           | Some r => match hlive h r with
                       | None => MStuck FUseAfterFree
                       | Some n => MOk (hupd r (Some (mknode (S (refs n)) (nv n))) h) tt
                       end
           end.

(* reading any field of a node *)
Definition m_node (r : jref) : M jnode :=
  fun h => match hlive h r with None => MStuck FUseAfterFree | Some n => MOk h n end.

Definition is_vobj (v : jnval) : bool := match v with VObj _ => true | _ => false end.
Definition is_vstr (v : jnval) : bool := match v with VScalar (JStr _) => true | _ => false end.

(* json_is_object(p) / json_is_string(p): false on NULL, otherwise reads p->type *)
Definition m_is_object (p : jptr) : M bool :=
  match p with None => mret false | Some r => n <- m_node r ;; mret (is_vobj (nv n)) end.
Definition m_is_string (p : jptr) : M bool :=
  match p with None => mret false | Some r => n <- m_node r ;; mret (is_vstr (nv n)) end.

(* json_object_get(o, key): BORROWED reference; NULL on NULL / non-object / missing key *)
Definition m_get (o : jptr) (key : bytes) : M jptr :=
  match o with
  | None => mret None
  | Some r => n <- m_node r ;; mret (match nv n with VObj m => alookup key m | _ => None end)
  end.

(* json_object(): a new owned node, count 1 *)
Definition m_new_object : M jptr := r <- halloc (VObj []) ;; mret (Some r).

(* ---- trees: layout of a parsed / copied JSON value in the heap --------------------- *)

Fixpoint jsize (j : json) : nat :=
  match j with
  | JArr l => S ((fix go (l : list json) : nat := match l with [] => 0 | x :: t => jsize x + go t end) l)
  | JObj m => S ((fix go (m : list (bytes * json)) : nat :=
                    match m with [] => 0 | kv :: t => jsize (snd kv) + go t end) m)
  | _ => 1
  end.

(* root first, then the children's segments in order; every node has count 1
   (exactly what json_loads / json_deep_copy produce) *)
Fixpoint jseg (j : json) (b : nat) : jheap :=
  match j with
  | JArr l =>
      Some (mknode 1 (VArr ((fix rs (l : list json) (b : nat) : list jref :=
                               match l with [] => [] | x :: t => b :: rs t (b + jsize x) end) l (S b))))
      :: (fix go (l : list json) (b : nat) : jheap :=
            match l with [] => [] | x :: t => jseg x b ++ go t (b + jsize x) end) l (S b)
  | JObj m =>
      Some (mknode 1 (VObj ((fix rs (m : list (bytes * json)) (b : nat) : list (bytes * jref) :=
                               match m with [] => [] | kv :: t => (fst kv, b) :: rs t (b + jsize (snd kv)) end) m (S b))))
      :: (fix go (m : list (bytes * json)) (b : nat) : jheap :=
            match m with [] => [] | kv :: t => jseg (snd kv) b ++ go t (b + jsize (snd kv)) end) m (S b)
  | s => [Some (mknode 1 (VScalar s))]
  end.

(* the same, for a list of siblings laid out from b on *)
Fixpoint jsizes (l : list json) : nat := match l with [] => 0 | x :: t => jsize x + jsizes t end.
Fixpoint jsegs (l : list json) (b : nat) : jheap :=
  match l with [] => [] | x :: t => jseg x b ++ jsegs t (b + jsize x) end.
Fixpoint jroots (l : list json) (b : nat) : list jref :=
  match l with [] => [] | x :: t => b :: jroots t (b + jsize x) end.

(* allocate a whole tree; returns its root *)
Definition hbuild (j : json) : M jref := fun h => MOk (h ++ jseg j (length h)) (length h).

(* read a tree back (json_deep_copy / json_dumps walk the value) *)
Fixpoint jtree (fuel : nat) (h : jheap) (r : jref) : option json :=
  match fuel with
  | O => None
  | S f =>
      match hlive h r with
      | None => None
      | Some n =>
          match nv n with
          | VScalar j => Some j
          | VArr l =>
              (fix go (l : list jref) : option json :=
                 match l with
                 | [] => Some (JArr [])
                 | x :: t => match jtree f h x, go t with
                             | Some jx, Some (JArr jt) => Some (JArr (jx :: jt))
                             | _, _ => None
                             end
                 end) l
          | VObj m =>
              (fix go (m : list (bytes * jref)) : option json :=
                 match m with
                 | [] => Some (JObj [])
                 | kv :: t => match jtree f h (snd kv), go t with
                              | Some jx, Some (JObj jt) => Some (JObj ((fst kv, jx) :: jt))
                              | _, _ => None
                              end
                 end) m
          end
      end
  end.

(* json_deep_copy(p): a new owned tree; NULL on NULL (and on a cyclic value) *)
Definition m_deep_copy (p : jptr) : M jptr :=
  match p with
  | None => mret None
  | Some r =>
      _ <- m_node r ;;
      fun h => match jtree (length h) h r with
               | None => MOk h None
               | Some j => (x <- hbuild j ;; mret (Some x)) h
               end
  end.

(* ---- setters ------------------------------------------------------------------------ *)

Definition jptr_eqb (a b : jptr) : bool :=
  match a, b with Some x, Some y => Nat.eqb x y | None, None => true | _, _ => false end.

(* json_object_set_new(o, key, v): STEALS v (also on failure); replaces in place and
   releases the previous value.  Returns true for 0, false for -1. *)
Definition m_set_new (o : jptr) (key : bytes) (v : jptr) : M bool :=
  match v with
  | None => mret false
  | Some vr =>
      match o with
      | None => m_decref v ;;; mret false
      | Some r =>
          n <- m_node r ;;
          match nv n with
          | VObj m =>
              if Nat.eqb r vr then m_decref v ;;; mret false
              else
                (fun h => MOk (hupd r (Some (mknode (refs n) (VObj (aset key vr m)))) h) tt) ;;;
                match alookup key m with
                | Some old => m_decref (Some old) ;;; mret true
                | None => mret true
                end
          | _ => m_decref v ;;; mret false
          end
      end
  end.

(* json_object_set(o, key, v) = json_object_set_new(o, key, json_incref(v)) *)
Definition m_set (o : jptr) (key : bytes) (v : jptr) : M bool :=
  m_incref v ;;; m_set_new o key v.

(* json_object_update_missing(o, other): -1 unless both are objects; every member of
   other whose key is not in o is json_object_set() into o (incref) *)
Fixpoint m_um_loop (o : jref) (items : list (bytes * jref)) : M unit :=
  match items with
  | [] => mret tt
  | kv :: t =>
      e <- m_get (Some o) (fst kv) ;;
      match e with
      | Some _ => m_um_loop o t
      | None => _ <- m_set (Some o) (fst kv) (Some (snd kv)) ;; m_um_loop o t
      end
  end.

Definition m_update_missing (o other : jptr) : M bool :=
  match o, other with
  | Some ro, Some rt =>
      no <- m_node ro ;;
      nt <- m_node rt ;;
      match nv no, nv nt with
      | VObj _, VObj items => m_um_loop ro items ;;; mret true
      | _, _ => mret false
      end
  | _, _ => mret false
  end.

(* json_unpack(o, "{s:s}", key, &z) / "{s?s}": z is a pointer INTO the string node, so the
   model keeps the node's reference; reading through it later is m_use_str.
   Result: (status, z).  required = the "s:" form.
   z = json_string_value(json_object_get(o, key)) (the form the zip lookups use since f0a2801) reads the
   same nodes and yields the same z: it is m_unpack_s true o key, status ignored. *)
Definition m_unpack_s (required : bool) (o : jptr) (key : bytes) : M (bool * jptr) :=
  match o with
  | None => mret (false, None)
  | Some r =>
      n <- m_node r ;;
      match nv n with
      | VObj m =>
          match alookup key m with
          | None => mret (negb required, None)
          | Some c => cn <- m_node c ;; mret (if is_vstr (nv cn) then (true, Some c) else (false, None))
          end
      | _ => mret (false, None)
      end
  end.

(* strcmp / jose_hook_alg_find on a char* obtained from json_unpack: reads the string node *)
Definition m_use_str (z : jref) : M bytes :=
  n <- m_node z ;; mret (match nv n with VScalar (JStr s) => s | _ => [] end).

(* json_auto_t: at scope exit, decref whatever the variable holds AT THAT TIME *)
Definition m_auto (p : jptr) : M unit := m_decref p.

Local Open Scope N_scope.
Definition k_protected : bytes := [112; 114; 111; 116; 101; 99; 116; 101; 100].
Definition k_unprotected : bytes := [117; 110; 112; 114; 111; 116; 101; 99; 116; 101; 100].
Definition k_header : bytes := [104; 101; 97; 100; 101; 114].
Definition k_zip : bytes := [122; 105; 112].
Definition k_enc : bytes := [101; 110; 99].
Definition k_alg : bytes := [97; 108; 103].
Definition k_next : bytes := [110; 101; 120; 116].
Local Close Scope N_scope.

(* The common tail of jose_jws_hdr and jose_jwe_hdr (same C text in both):

       if (!json_is_object(p)) return NULL;
       x = json_object_get(o1, key1); if (x) { if (json_object_update_missing(p, x) == -1) return NULL; }
       ... (once for jws: sig."header"; twice for jwe: jwe."unprotected", rcp."header")
       return json_incref(p);

   p is a json_auto_t, so every return releases what p holds. *)
Fixpoint own_merge (p : jptr) (srcs : list (jptr * bytes)) : M bool :=
  match srcs with
  | [] => mret true
  | ok1 :: t =>
      x <- m_get (fst ok1) (snd ok1) ;;
      ok <- (match x with Some _ => m_update_missing p x | None => mret true end) ;;
      if negb ok then mret false else own_merge p t
  end.

Definition own_hdr_finish (p : jptr) (srcs : list (jptr * bytes)) : M jptr :=
  io <- m_is_object p ;;
  if negb io then m_auto p ;;; mret None
  else
    ok <- own_merge p srcs ;;
    if negb ok then m_auto p ;;; mret None
    else m_incref p ;;; m_auto p ;;; mret p.

Section Glue.
  (* what jose_b64_dec_load makes of the text of a string (None = NULL: not base64url, or not JSON) *)
  Variable dl : bytes -> option json.
  (* the text jose_b64_enc_dump produces for a value (None = NULL) *)
  Variable ed : json -> option bytes.
  (* jose_hook_alg_find(JOSE_HOOK_ALG_KIND_COMP, z) != NULL *)
  Variable comp_ok : bytes -> bool.

  (* jose_b64_dec_load(p): a new owned tree, or NULL (NULL / non-string / undecodable) *)
  Definition m_dec_load (p : jptr) : M jptr :=
    match p with
    | None => mret None
    | Some r =>
        n <- m_node r ;;
        match nv n with
        | VScalar (JStr s) => match dl s with
                              | Some j => x <- hbuild j ;; mret (Some x)
                              | None => mret None
                              end
        | _ => mret None
        end
    end.

  (* jose_b64_enc_dump(p): a new owned string, or NULL *)
  Definition m_enc_dump (p : jptr) : M jptr :=
    match p with
    | None => mret None
    | Some r =>
        _ <- m_node r ;;
        fun h => match jtree (length h) h r with
                 | None => MOk h None
                 | Some j => match ed j with
                             | None => MOk h None
                             | Some s => (x <- halloc (VScalar (JStr s)) ;; mret (Some x)) h
                             end
                 end
    end.

  (* ================= lib/jws.c ======================================================= *)

  (* json_t *jose_jws_hdr(const json_t *sig)          -- current text (after 530be9d) *)
  Definition own_jws_hdr (sig : jptr) : M jptr :=
    p <- m_get sig k_protected ;;                      (* json_auto_t *p = json_object_get(sig, "protected"); *)
    p <- (match p with
          | None => m_new_object                       (* if (!p) p = json_object(); *)
          | Some _ =>
              io <- m_is_object p ;;
              if io then m_deep_copy p                 (* else if (json_is_object(p)) p = json_deep_copy(p); *)
              else
                is <- m_is_string p ;;
                if is then m_dec_load p                (* else if (json_is_string(p)) p = jose_b64_dec_load(p); *)
                else mret None                         (* else p = NULL; *)
          end) ;;
    (* if (!json_is_object(p)) return NULL;
       h = json_object_get(sig, "header"); if (h) if (json_object_update_missing(p, h) == -1) return NULL;
       return json_incref(p); *)
    own_hdr_finish p [(sig, k_header)].

  (* the text before 530be9d: a non-object non-string "protected" stays in the auto variable *)
  Definition own_jws_hdr_old (sig : jptr) : M jptr :=
    p <- m_get sig k_protected ;;
    p <- (match p with
          | None => m_new_object
          | Some _ =>
              io <- m_is_object p ;;
              if io then m_deep_copy p
              else
                is <- m_is_string p ;;
                if is then m_dec_load p
                else mret p                            (* nothing: p is still the borrowed reference *)
          end) ;;
    own_hdr_finish p [(sig, k_header)].

  (* ================= lib/jwe.c ======================================================= *)

  (* json_t *jose_jwe_hdr(const json_t *jwe, const json_t *rcp) *)
  Definition own_jwe_hdr (jwe rcp : jptr) : M jptr :=
    p <- m_get jwe k_protected ;;
    m_incref p ;;;                                     (* p = json_incref(json_object_get(jwe, "protected")); *)
    p <- (match p with
          | None => m_new_object                       (* if (!p) p = json_object(); *)
          | Some _ =>
              io <- m_is_object p ;;
              if io then m_decref p ;;; m_deep_copy p  (* json_decref(p); p = json_deep_copy(p); *)
              else
                is <- m_is_string p ;;
                if is then m_decref p ;;; m_dec_load p (* json_decref(p); p = jose_b64_dec_load(p); *)
                else mret p                            (* p keeps the reference taken above *)
          end) ;;
    (* if (!json_is_object(p)) return NULL;
       s = json_object_get(jwe, "unprotected"); if (s) if (json_object_update_missing(p, s) == -1) return NULL;
       h = json_object_get(rcp, "header");      if (h) if (json_object_update_missing(p, h) == -1) return NULL;
       return json_incref(p); *)
    own_hdr_finish p [(jwe, k_unprotected); (rcp, k_header)].

  (* static bool jwe_hdr_set_new(json_t *jwe, const char *name, json_t *value) *)
  Definition own_jwe_hdr_set_new (jwe : jptr) (name : bytes) (value : jptr) : M bool :=
    let v := value in                                  (* json_auto_t *v = value; *)
    p <- m_get jwe k_protected ;;
    po <- m_is_object p ;;
    ps <- m_is_string p ;;
    if (match p with Some _ => true | None => false end) && negb po && negb ps
    then m_auto v ;;; mret false                       (* if (p && !json_is_object(p) && !json_is_string(p)) return false; *)
    else
      u <- m_get jwe k_unprotected ;;
      uo <- m_is_object u ;;
      if (match u with Some _ => true | None => false end) && negb uo
      then m_auto v ;;; mret false                     (* if (u && !json_is_object(u)) return false; *)
      else
        (* if (!u && json_is_string(p) && json_object_set_new(jwe, "unprotected", u = json_object()) < 0) return false; *)
        r1 <- (match u with
               | None => if ps
                         then (u' <- m_new_object ;; ok <- m_set_new jwe k_unprotected u' ;; mret (ok, u'))
                         else mret (true, u)
               | Some _ => mret (true, u)
               end) ;;
        if negb (fst r1) then m_auto v ;;; mret false
        else
          let u := snd r1 in
          (* if (!u && !p && json_object_set_new(jwe, "protected", p = json_object()) < 0) return false; *)
          r2 <- (match u, p with
                 | None, None => (p' <- m_new_object ;; ok <- m_set_new jwe k_protected p' ;; mret (ok, p'))
                 | _, _ => mret (true, p)
                 end) ;;
          if negb (fst r2) then m_auto v ;;; mret false
          else
            let p := snd r2 in
            po <- m_is_object p ;;
            (* if (json_object_set(json_is_object(p) ? p : u, name, v) < 0) return false; *)
            ok <- m_set (if po then p else u) name v ;;
            m_auto v ;;; mret ok.

  (* jose_io_t *jose_jwe_dec_cek_io(...): the prt / hdr prologue up to the algorithm lookup (text since e124573).
     Result: None = returned NULL; Some z = went on, z = whether "zip" was found and registered *)
  Definition own_dec_cek_io_prologue (jwe : jptr) (go_on : bool) : M (option bool) :=
    (* json_auto_t *hdr = NULL; json_auto_t *prt = NULL;
       if (json_is_string(json_object_get(jwe, "protected"))) {
           prt = jose_b64_dec_load(json_object_get(jwe, "protected"));
           if (!prt) return NULL;
       } *)
    pr <- (pp <- m_get jwe k_protected ;;
           ps <- m_is_string pp ;;
           prt <- (if ps then m_dec_load pp else mret None) ;;
           mret (ps, prt)) ;;
    let prt := snd pr in
    match fst pr, prt with
    | true, None => mret None
    | _, _ =>
        uz <- m_unpack_s true prt k_zip ;;             (* hzip = json_string_value(json_object_get(prt, "zip")); *)
        hdr <- own_jwe_hdr jwe None ;;                 (* hdr = jose_jwe_hdr(jwe, NULL); *)
        match hdr with
        | None => m_auto prt ;;; mret None             (* if (!hdr) return NULL; *)
        | Some _ =>
            ue <- m_unpack_s false hdr k_enc ;;        (* if (json_unpack(hdr, "{s?s}", "enc", &halg) < 0) return NULL; *)
            if negb (fst ue) then m_auto prt ;;; m_auto hdr ;;; mret None
            else
              _ <- (match snd ue with Some z => _ <- m_use_str z ;; mret tt | None => mret tt end) ;;
              (* kalg / mismatch / jose_hook_alg_find / jose_jwk_prm: decided outside the glue *)
              if negb go_on then m_auto prt ;;; m_auto hdr ;;; mret None
              else
                z <- (match snd uz with
                      | Some z => s <- m_use_str z ;; mret (comp_ok s)   (* if (hzip) a = jose_hook_alg_find(COMP, hzip); *)
                      | None => mret false
                      end) ;;
                m_auto prt ;;; m_auto hdr ;;; mret (Some z)
        end
    end.

  (* ================= lib/misc.c ====================================================== *)

  (* bool encode_protected(json_t *obj) *)
  Definition own_encode_protected (obj : jptr) : M bool :=
    io <- m_is_object obj ;;
    if negb io then mret false                         (* json_unpack(obj, "{s?o}", "protected", &p) == -1 *)
    else
      p <- m_get obj k_protected ;;
      ps <- m_is_string p ;;
      match p with
      | None => mret true                              (* if (!p || json_is_string(p)) return true; *)
      | Some _ =>
          if ps then mret true
          else
            po <- m_is_object p ;;
            if negb po then mret false                 (* if (!json_is_object(p)) return false; *)
            else
              e <- m_enc_dump p ;;                     (* return json_object_set_new(obj, "protected", jose_b64_enc_dump(p)) == 0; *)
              m_set_new obj k_protected e
      end.

  (* bool zip_in_protected_header(json_t *json)       -- current text (since cba5ab8):

         json_auto_t *dec = NULL;
         prt = json_object_get(json, "protected");
         if (prt && json_is_string(prt))
             prt = dec = jose_b64_dec_load(prt);
         z = json_string_value(json_object_get(prt, "zip"));
         if (!z) return false;
         return jose_hook_alg_find(JOSE_HOOK_ALG_KIND_COMP, z) != NULL;                      *)
  Definition own_zip_prefix (json : jptr) : M (jptr * (bool * jptr)) :=
    prt <- m_get json k_protected ;;
    ps <- m_is_string prt ;;
    dec <- (if ps then m_dec_load prt else mret None) ;;
    uz <- m_unpack_s true (if ps then dec else prt) k_zip ;;
    mret (dec, uz).

  Definition own_zip_in_protected_header (json : jptr) : M bool :=
    du <- own_zip_prefix json ;;
    match snd (snd du) with
    | None => m_auto (fst du) ;;; mret false
    | Some z => s <- m_use_str z ;; m_auto (fst du) ;;; mret (comp_ok s)
    end.

  (* the text before cba5ab8 (also the first lines of the former handle_zip_enc): the decoded header is held
     by a plain json_t * and never released *)
  Definition own_zip_prefix_old (json : jptr) : M (bool * jptr) :=
    prt <- m_get json k_protected ;;
    ps <- m_is_string prt ;;
    prt <- (if ps then m_dec_load prt else mret prt) ;;
    m_unpack_s true prt k_zip.

  Definition own_zip_in_protected_header_old (json : jptr) : M bool :=
    uz <- own_zip_prefix_old json ;;
    match snd uz with
    | None => mret false
    | Some z => s <- m_use_str z ;; mret (comp_ok s)
    end.

  (* jose_io_t *jose_jwe_enc_cek_io(...): the zip epilogue (since cba5ab8), JSON part

         json_auto_t *prt = NULL;
         ...
         if (json_object_get(jwe, "protected")) {
             prt = jose_b64_dec_load(json_object_get(jwe, "protected"));
             if (!prt) return NULL;
         }
         z = json_string_value(json_object_get(prt, "zip"));
         if (z) {
             a = jose_hook_alg_find(JOSE_HOOK_ALG_KIND_COMP, z);  if (!a) return NULL;
             ... (IO part: own_enc_cek_io_chain)
         }
     Result: None = returned NULL; Some true = compressing chain; Some false = plain cipher stage *)
  Definition own_enc_cek_io_zip (jwe : jptr) : M (option bool) :=
    pr <- (pp <- m_get jwe k_protected ;; prt <- m_dec_load pp ;; mret (pp, prt)) ;;
    let prt := snd pr in
    match fst pr, prt with
    | Some _, None => mret None                        (* if (!prt) return NULL; *)
    | _, _ =>
        uz <- m_unpack_s true prt k_zip ;;
        match snd uz with
        | None => m_auto prt ;;; mret (Some false)
        | Some z =>
            s <- m_use_str z ;;
            if comp_ok s then m_auto prt ;;; mret (Some true)
            else m_auto prt ;;; mret None              (* if (!a) return NULL; *)
        end
    end.

End Glue.

(* ---- IO stages: each stage owns one reference to its downstream ---------------------- *)

(* A stage is a node too: an object whose only child is "next"; `keeps` says whether the
   stage's free() releases next (lib/b64.c io_free, lib/openssl/ io_free do; lib/zlib/deflate.c
   def_free / inf_free do not).  A stage that does not release is modelled by dropping the edge
   without releasing it. *)
(* jose_io_malloc *)
Definition io_new_sink : M jptr := r <- halloc (VObj []) ;; mret (Some r).

(* a stage constructor: io = calloc; i->next = jose_io_incref(next); return io *)
Definition io_new_stage (next : jptr) : M jptr :=
  m_incref next ;;;
  r <- halloc (VObj (match next with Some n => [(k_next, n)] | None => [] end)) ;; mret (Some r).

(* jose_io_decref for a stage whose free() forgets next: at count 1 the stage is freed, next is not released *)
Definition io_decref_forgetful (p : jptr) : M unit :=
  match p with
  | None => mret tt
  | Some r =>
      n <- m_node r ;;
      if refs n <=? 1 then (fun h => MOk (hupd r None h) tt)
      else (fun h => MOk (hupd r (Some (mknode (refs n - 1) (nv n))) h) tt)
  end.

(* jose_jwe_enc_cek_io, IO part of the zip epilogue (since cba5ab8), followed by what the caller does:

       jose_io_auto_t *enc = alg->encr.enc(alg, cfg, jwe, cek, next);      -- the cipher stage takes a reference on next
       return a->comp.def(a, cfg, enc);                                    -- the deflate stage takes one on enc; enc is auto-released
   the caller then releases the stage it got and its own sink.  `releases_next` = whether the deflate stage's free()
   releases its downstream (it does since cd23cd6). *)
Definition own_enc_cek_io_chain (releases_next : bool) : M unit :=
  next <- io_new_sink ;;                               (* the caller's sink *)
  enc <- io_new_stage next ;;
  def <- io_new_stage enc ;;
  m_decref enc ;;;                                     (* jose_io_auto(&enc) *)
  (if releases_next then m_decref def else io_decref_forgetful def) ;;;   (* the caller: jose_io_decref(returned stage) *)
  m_decref next.                                       (* the caller: jose_io_decref(sink) *)

(* ---- what the correspondence driver prints ----------------------------------------------- *)

Definition hindeg (h : jheap) (r : jref) : nat :=
  fold_right (fun s acc => match s with Some n => count_occ Nat.eq_dec (kids_of (nv n)) r + acc | None => acc end) 0 h.

(* caller nodes (index < n0) whose count is not (incoming references + 1 if it is an argument root) *)
Fixpoint hdeltas_from (h : jheap) (all : jheap) (i n0 : nat) (roots : list jref) : nat :=
  match h with
  | [] => 0
  | s :: t =>
      (match s with
       | Some n => if (i <? n0) && negb (Nat.eqb (refs n) (hindeg all i + (if existsb (Nat.eqb i) roots then 1 else 0))) then 1 else 0
       | None => 0
       end) + hdeltas_from t all (S i) n0 roots
  end.

Record mem_report := { mr_stuck : bool; mr_ok : bool; mr_deltas : nat; mr_live : nat }.

(* run a call on the heap made of the argument trees, release what it returned, look at the
   caller's nodes, release the arguments, count what is still alive *)
Definition mem_run {A} (args : list json) (call : list jptr -> M A) (verdict : A -> bool) (result : A -> jptr)
                   (consumed : list nat) : mem_report :=
  let h0 := jsegs args 0 in
  let rts := jroots args 0 in
  match call (map Some rts) h0 with
  | MStuck _ => {| mr_stuck := true; mr_ok := false; mr_deltas := 0; mr_live := 0 |}
  | MOk h1 a =>
      match m_decref (result a) h1 with
      | MStuck _ => {| mr_stuck := true; mr_ok := verdict a; mr_deltas := 0; mr_live := 0 |}
      | MOk h2 _ =>
          let kept := filter (fun r => negb (existsb (Nat.eqb r) (map (fun i => nth i rts 0) consumed))) rts in
          let d := hdeltas_from h2 h2 0 (length h0) kept in
          match hrelease (hfuel h2) kept h2 with
          | MStuck _ => {| mr_stuck := true; mr_ok := verdict a; mr_deltas := d; mr_live := 0 |}
          | MOk h3 _ => {| mr_stuck := false; mr_ok := verdict a; mr_deltas := d; mr_live := hcount h3 |}
          end
      end
  end.

Definition mis_some {A} (o : option A) : bool := match o with Some _ => true | None => false end.
Definition marg (l : list jptr) (i : nat) : jptr := nth i l None.

Section Reports.
  Variable dl : bytes -> option json.
  Variable ed : json -> option bytes.
  Variable comp_ok : bytes -> bool.

  Definition mem_jws_hdr (sig : json) : mem_report :=
    mem_run [sig] (fun a => own_jws_hdr dl (marg a 0)) mis_some (fun r => r) [].
  Definition mem_jws_hdr_old (sig : json) : mem_report :=
    mem_run [sig] (fun a => own_jws_hdr_old dl (marg a 0)) mis_some (fun r => r) [].
  Definition mem_jwe_hdr (jwe : json) (rcp : option json) : mem_report :=
    match rcp with
    | Some r => mem_run [jwe; r] (fun a => own_jwe_hdr dl (marg a 0) (marg a 1)) mis_some (fun r => r) []
    | None => mem_run [jwe] (fun a => own_jwe_hdr dl (marg a 0) None) mis_some (fun r => r) []
    end.
  Definition mem_jwe_hdr_set_new (jwe : json) (name : bytes) (value : option json) : mem_report :=
    match value with
    | Some v => mem_run [jwe; v] (fun a => own_jwe_hdr_set_new (marg a 0) name (marg a 1)) (fun b => b) (fun _ => None) [1]
    | None => mem_run [jwe] (fun a => own_jwe_hdr_set_new (marg a 0) name None) (fun b => b) (fun _ => None) []
    end.
  Definition mem_dec_cek_io_prologue (jwe : json) (go_on : bool) : mem_report :=
    mem_run [jwe] (fun a => own_dec_cek_io_prologue dl comp_ok (marg a 0) go_on) mis_some (fun _ => None) [].
  Definition mem_encode_protected (obj : json) : mem_report :=
    mem_run [obj] (fun a => own_encode_protected ed (marg a 0)) (fun b => b) (fun _ => None) [].
  Definition mem_zip_in_protected_header (j : json) : mem_report :=
    mem_run [j] (fun a => own_zip_in_protected_header dl comp_ok (marg a 0)) (fun b => b) (fun _ => None) [].
  Definition mem_zip_in_protected_header_old (j : json) : mem_report :=
    mem_run [j] (fun a => own_zip_in_protected_header_old dl comp_ok (marg a 0)) (fun b => b) (fun _ => None) [].
  Definition mem_enc_cek_io_zip (j : json) : mem_report :=
    mem_run [j] (fun a => own_enc_cek_io_zip dl comp_ok (marg a 0)) mis_some (fun _ => None) [].
End Reports.

(* ---- the instance the correspondence driver runs: the real decoder / encoder / registry ------------------- *)

Definition real_dl (s : bytes) : option json := jose_b64_dec_load (JStr s).
Definition real_ed (j : json) : option bytes :=
  match jose_b64_enc_dump j with Some (JStr s) => Some s | _ => None end.
Definition real_comp_ok (s : bytes) : bool := registered KComp (cstr s).

Definition memr_jws_hdr := mem_jws_hdr real_dl.
Definition memr_jws_hdr_old := mem_jws_hdr_old real_dl.
Definition memr_jwe_hdr := mem_jwe_hdr real_dl.
Definition memr_jwe_hdr_set_new := mem_jwe_hdr_set_new.
Definition memr_dec_cek_io_prologue := mem_dec_cek_io_prologue real_dl real_comp_ok.
Definition memr_encode_protected := mem_encode_protected real_ed.
Definition memr_zip_in_protected_header := mem_zip_in_protected_header real_dl real_comp_ok.
Definition memr_zip_in_protected_header_old := mem_zip_in_protected_header_old real_dl real_comp_ok.
Definition memr_enc_cek_io_zip := mem_enc_cek_io_zip real_dl real_comp_ok.

Definition mem_clean (r : mem_report) : bool :=
  negb (mr_stuck r) && Nat.eqb (mr_deltas r) 0 && Nat.eqb (mr_live r) 0.
