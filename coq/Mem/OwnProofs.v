(* C09 -- proofs about the ownership model of Mem/Own.v. *)
From JoseV Require Import Base.Json Mem.Own.
From Coq Require Import List Arith Lia.
Import ListNotations.
Local Open Scope nat_scope.

(* ---- lists as heaps ------------------------------------------------------------------ *)

Lemma hlive_app_l a b r : r < length a -> hlive (a ++ b) r = hlive a r.
Proof. intro H. unfold hlive. rewrite nth_error_app1 by exact H. reflexivity. Qed.

Lemma hlive_app_r a b i : hlive (a ++ b) (length a + i) = hlive b i.
Proof.
  unfold hlive. rewrite nth_error_app2 by lia.
  replace (length a + i - length a) with i by lia. reflexivity.
Qed.

Lemma hlive_mid a x b : hlive (a ++ x :: b) (length a) = x.
Proof.
  unfold hlive. rewrite nth_error_app2 by lia. rewrite Nat.sub_diag. simpl. destruct x; reflexivity.
Qed.

Lemma hlive_lt h r n : hlive h r = Some n -> r < length h.
Proof.
  unfold hlive. intro H. destruct (nth_error h r) eqn:E; [|discriminate].
  apply nth_error_Some. congruence.
Qed.

Lemma hupd_length r x h : length (hupd r x h) = length h.
Proof. revert r; induction h as [|y t IH]; intros [|r]; simpl; auto. Qed.

Lemma hupd_app_l a b r x : r < length a -> hupd r x (a ++ b) = hupd r x a ++ b.
Proof.
  revert r; induction a as [|y t IH]; intros r H; simpl in *; [lia|].
  destruct r; simpl; [reflexivity|]. rewrite IH by lia. reflexivity.
Qed.

Lemma hupd_mid a y b x : hupd (length a) x (a ++ y :: b) = a ++ x :: b.
Proof. induction a as [|z t IH]; simpl; [reflexivity|]. rewrite IH. reflexivity. Qed.

Lemma nth_hupd r x h i :
  nth_error (hupd r x h) i = if Nat.eqb i r then (if r <? length h then Some x else None) else nth_error h i.
Proof.
  revert r i; induction h as [|y t IH]; intros r i; simpl.
  - destruct (Nat.eqb i r); destruct i; destruct r; reflexivity.
  - destruct r, i; simpl; try reflexivity.
    rewrite IH. destruct (Nat.eqb i r); [|reflexivity].
    destruct (r <? length t) eqn:A; destruct (S r <? S (length t)) eqn:B; try reflexivity;
      apply Nat.ltb_lt in A || apply Nat.ltb_ge in A; apply Nat.ltb_lt in B || apply Nat.ltb_ge in B; lia.
Qed.

Lemma heap_ext (a b : jheap) : (forall i, nth_error a i = nth_error b i) -> a = b.
Proof.
  revert b; induction a as [|x t IH]; intros [|y u] H.
  - reflexivity.
  - specialize (H 0). discriminate.
  - specialize (H 0). discriminate.
  - f_equal; [specialize (H 0); simpl in H; congruence|]. apply IH. intro i. exact (H (S i)).
Qed.

Lemma hlive_hupd_same r x h : r < length h -> hlive (hupd r x h) r = x.
Proof.
  intro H. unfold hlive. rewrite nth_hupd, Nat.eqb_refl.
  apply Nat.ltb_lt in H. rewrite H. destruct x; reflexivity.
Qed.

Lemma hlive_hupd_other r x h i : i <> r -> hlive (hupd r x h) i = hlive h i.
Proof.
  intro H. unfold hlive. rewrite nth_hupd. apply Nat.eqb_neq in H. rewrite H. reflexivity.
Qed.

Lemma hupd_hupd r x y h : hupd r x (hupd r y h) = hupd r x h.
Proof.
  apply heap_ext. intro i. rewrite !nth_hupd, hupd_length.
  destruct (Nat.eqb i r); reflexivity.
Qed.

Lemma hupd_same r n h : hlive h r = Some n -> hupd r (Some n) h = h.
Proof.
  intro H. apply heap_ext. intro i. rewrite nth_hupd.
  destruct (Nat.eqb i r) eqn:E; [|reflexivity]. apply Nat.eqb_eq in E. subst i.
  pose proof (hlive_lt _ _ _ H) as L. apply Nat.ltb_lt in L. rewrite L.
  unfold hlive in H. destruct (nth_error h r) as [[m|]|]; congruence.
Qed.

Lemma hupd_comm r1 x1 r2 x2 h : r1 <> r2 -> hupd r1 x1 (hupd r2 x2 h) = hupd r2 x2 (hupd r1 x1 h).
Proof.
  intro H. apply heap_ext. intro i. rewrite !nth_hupd, !hupd_length.
  destruct (Nat.eqb i r1) eqn:A; destruct (Nat.eqb i r2) eqn:B; try reflexivity.
  apply Nat.eqb_eq in A. apply Nat.eqb_eq in B. congruence.
Qed.

Definition nones (k : nat) : jheap := repeat None k.

Lemma nones_length k : length (nones k) = k.
Proof. apply repeat_length. Qed.

Lemma nones_app a b : nones a ++ nones b = nones (a + b).
Proof. unfold nones. rewrite repeat_app. reflexivity. Qed.

Lemma hcount_app a b : hcount (a ++ b) = hcount a + hcount b.
Proof. induction a as [|[x|] t IH]; simpl; lia. Qed.

Lemma hcount_nones k : hcount (nones k) = 0.
Proof. induction k; simpl; auto. Qed.

(* ---- layout of trees -------------------------------------------------------------------- *)

Definition jkids (j : json) : list json :=
  match j with JArr l => l | JObj m => map snd m | _ => [] end.

Definition rootval (j : json) (b : nat) : jnval :=
  match j with
  | JArr l => VArr (jroots l (S b))
  | JObj m => VObj (combine (map fst m) (jroots (map snd m) (S b)))
  | s => VScalar s
  end.

Lemma jseg_eq j b : jseg j b = Some (mknode 1 (rootval j b)) :: jsegs (jkids j) (S b).
Proof.
  destruct j as [| | | | |l|m]; try reflexivity.
  - simpl. f_equal.
    + f_equal. f_equal. f_equal. generalize (S b). induction m as [|[k x] t IH]; intro c; simpl; [reflexivity|]. rewrite IH. reflexivity.
    + generalize (S b). induction m as [|[k x] t IH]; intro c; simpl; [reflexivity|]. rewrite IH. reflexivity.
Qed.

Lemma jsize_eq j : jsize j = S (jsizes (jkids j)).
Proof.
  destruct j as [| | | | |l|m]; try reflexivity.
  - simpl. f_equal. induction m as [|[k x] t IH]; simpl; [reflexivity|]. rewrite IH. reflexivity.
Qed.

Lemma jroots_length l b : length (jroots l b) = length l.
Proof. revert b; induction l as [|x t IH]; intro b; simpl; auto. Qed.

Lemma kids_rootval j b : kids_of (rootval j b) = jroots (jkids j) (S b).
Proof.
  destruct j as [| | | | |l|m]; try reflexivity. simpl.
  generalize (S b). induction m as [|[k x] t IH]; intro c; simpl; [reflexivity|]. rewrite IH. reflexivity.
Qed.

Lemma jseg_length j : forall base, length (jseg j base) = jsize j.
Proof.
  induction j using json_ind'; intro base; try reflexivity.
  - rewrite jseg_eq, jsize_eq. simpl. f_equal. generalize (S base).
    induction H as [|x t Hx Ht IH]; intro c; simpl; [reflexivity|]. rewrite app_length, Hx, IH. reflexivity.
  - rewrite jseg_eq, jsize_eq. simpl. f_equal. generalize (S base).
    induction H as [|[k x] t Hx Ht IH]; intro c; simpl in *; [reflexivity|]. rewrite app_length, Hx, IH. reflexivity.
Qed.

Lemma jsegs_length l b : length (jsegs l b) = jsizes l.
Proof. revert b; induction l as [|x t IH]; intro b; simpl; [reflexivity|]. rewrite app_length, jseg_length, IH. reflexivity. Qed.

Lemma jsize_pos j : 1 <= jsize j.
Proof. rewrite jsize_eq. lia. Qed.

Lemma jsegs_app l1 l2 b : jsegs (l1 ++ l2) b = jsegs l1 b ++ jsegs l2 (b + jsizes l1).
Proof.
  revert b; induction l1 as [|x t IH]; intro b; simpl.
  - rewrite Nat.add_0_r. reflexivity.
  - rewrite IH, app_assoc. do 2 f_equal. lia.
Qed.

Lemma jroots_app l1 l2 b : jroots (l1 ++ l2) b = jroots l1 b ++ jroots l2 (b + jsizes l1).
Proof.
  revert b; induction l1 as [|x t IH]; intro b; simpl.
  - rewrite Nat.add_0_r. reflexivity.
  - rewrite IH. do 3 f_equal. lia.
Qed.

Lemma jsizes_app l1 l2 : jsizes (l1 ++ l2) = jsizes l1 + jsizes l2.
Proof. induction l1 as [|x t IH]; simpl; lia. Qed.

(* every slot of a laid-out tree is a live node with count 1 *)
Lemma jseg_full j : forall base, Forall (fun s => exists v, s = Some (mknode 1 v)) (jseg j base).
Proof.
  induction j using json_ind'; intro base; try (constructor; [eexists; reflexivity|constructor]).
  - rewrite jseg_eq. constructor; [eexists; reflexivity|]. simpl. generalize (S base).
    induction H as [|x t Hx Ht IH]; intro c; simpl; [constructor|]. apply Forall_app. split; [apply Hx|apply IH].
  - rewrite jseg_eq. constructor; [eexists; reflexivity|]. simpl. generalize (S base).
    induction H as [|[k x] t Hx Ht IH]; intro c; simpl in *; [constructor|]. apply Forall_app. split; [apply Hx|apply IH].
Qed.

Lemma jroots_range l : forall b, Forall (fun r => b <= r /\ r < b + jsizes l) (jroots l b).
Proof.
  induction l as [|x t IH]; intro b; simpl; [constructor|].
  constructor; [pose proof (jsize_pos x); lia|].
  eapply Forall_impl; [|apply IH]. simpl. intros r [A B]. lia.
Qed.

(* ---- releasing a tree ----------------------------------------------------------------------- *)

Lemma hrelease_nil f h : hrelease f [] h = MOk h tt.
Proof. destruct f; reflexivity. Qed.

Lemma hrelease_free f r w h n :
  hlive h r = Some n -> refs n <= 1 ->
  hrelease (S f) (r :: w) h = hrelease f (kids_of (nv n) ++ w) (hupd r None h).
Proof. intros L R. simpl. rewrite L. apply Nat.leb_le in R. rewrite R. reflexivity. Qed.

Lemma hrelease_dec f r w h n :
  hlive h r = Some n -> 2 <= refs n ->
  hrelease (S f) (r :: w) h = hrelease f w (hupd r (Some (mknode (refs n - 1) (nv n))) h).
Proof.
  intros L R. simpl. rewrite L. destruct (refs n <=? 1) eqn:E; [apply Nat.leb_le in E; lia|reflexivity].
Qed.

Definition rel_stmt (j : json) : Prop :=
  forall pre post w f,
    hrelease (jsize j + f) (length pre :: w) (pre ++ jseg j (length pre) ++ post)
    = hrelease f w (pre ++ nones (jsize j) ++ post).

Lemma rel_segs l : Forall rel_stmt l ->
  forall pre post w f,
    hrelease (jsizes l + f) (jroots l (length pre) ++ w) (pre ++ jsegs l (length pre) ++ post)
    = hrelease f w (pre ++ nones (jsizes l) ++ post).
Proof.
  induction 1 as [|x t Hx Ht IH]; intros pre post w f; simpl; [reflexivity|].
  rewrite <- Nat.add_assoc, <- app_assoc.
  rewrite (Hx pre (jsegs t (length pre + jsize x) ++ post)).
  replace (length pre + jsize x) with (length (pre ++ nones (jsize x))) by (rewrite app_length, nones_length; reflexivity).
  rewrite (app_assoc pre (nones (jsize x))).
  rewrite IH. rewrite <- app_assoc. f_equal. f_equal. rewrite app_assoc, nones_app. reflexivity.
Qed.

Lemma rel_node j : Forall rel_stmt (jkids j) -> rel_stmt j.
Proof.
  intros Hk pre post w f. rewrite jseg_eq, jsize_eq. rewrite Nat.add_succ_l. simpl app.
  rewrite (hrelease_free _ _ _ _ (mknode 1 (rootval j (length pre)))); [|apply hlive_mid|simpl; lia].
  simpl nv. rewrite kids_rootval, hupd_mid.
  replace (S (length pre)) with (length (pre ++ [None])) by (rewrite app_length; simpl; lia).
  replace (pre ++ None :: jsegs (jkids j) (length (pre ++ [None])) ++ post)
    with ((pre ++ [None]) ++ jsegs (jkids j) (length (pre ++ [None])) ++ post) by (rewrite <- app_assoc; reflexivity).
  rewrite (rel_segs _ Hk). rewrite <- app_assoc. reflexivity.
Qed.

Theorem rel_seg j : rel_stmt j.
Proof.
  induction j using json_ind'; apply rel_node; simpl; try constructor; try assumption.
  rewrite Forall_map. exact H.
Qed.

Lemma rel_segs_all l pre post w f :
    hrelease (jsizes l + f) (jroots l (length pre) ++ w) (pre ++ jsegs l (length pre) ++ post)
    = hrelease f w (pre ++ nones (jsizes l) ++ post).
Proof. apply rel_segs. apply Forall_forall. intros x _. apply rel_seg. Qed.

(* ---- the fuel of json_decref is always enough -------------------------------------------------- *)

Lemma hmeasure_free h r n : hlive h r = Some n -> hmeasure (hupd r None h) + S (refs n) = hmeasure h.
Proof.
  revert r; induction h as [|x t IH]; intros r H; [destruct r; discriminate|].
  destruct r; simpl in *.
  - unfold hlive in H. simpl in H. destruct x; [|discriminate]. inversion H; subst. simpl. lia.
  - change (hlive t r = Some n) in H. specialize (IH _ H). destruct x; simpl; lia.
Qed.

Lemma hmeasure_dec h r n v : hlive h r = Some n -> 1 <= refs n ->
  hmeasure (hupd r (Some (mknode (refs n - 1) v)) h) + 1 = hmeasure h.
Proof.
  revert r; induction h as [|x t IH]; intros r H R; [destruct r; discriminate|].
  destruct r; simpl in *.
  - unfold hlive in H. simpl in H. destruct x; [|discriminate]. inversion H; subst. simpl. lia.
  - change (hlive t r = Some n) in H. specialize (IH _ H R). destruct x; simpl; lia.
Qed.

Lemma hrelease_no_fuel_fault f : forall w h, hmeasure h < f -> hrelease f w h <> MStuck FFuel.
Proof.
  induction f as [|f IH]; intros w h H; [lia|].
  destruct w as [|r w]; simpl; [discriminate|].
  destruct (hlive h r) as [n|] eqn:L; [|discriminate].
  destruct (refs n <=? 1) eqn:E.
  - apply IH. pose proof (hmeasure_free _ _ _ L). lia.
  - apply IH. apply Nat.leb_gt in E. pose proof (hmeasure_dec _ _ _ (nv n) L). lia.
Qed.

Lemma hrelease_more f : forall w h f', f <= f' -> hrelease f w h <> MStuck FFuel -> hrelease f' w h = hrelease f w h.
Proof.
  induction f as [|f IH]; intros w h f' Hle Hn.
  - destruct w; [rewrite !hrelease_nil; reflexivity|]. simpl in Hn. congruence.
  - destruct f' as [|f']; [lia|]. destruct w as [|r w]; [reflexivity|]. simpl in *.
    destruct (hlive h r) as [n|]; [|reflexivity].
    destruct (refs n <=? 1); apply IH; try lia; exact Hn.
Qed.

(* json_decref can be evaluated with any larger amount of fuel *)
Lemma m_decref_fuel r h k : m_decref (Some r) h = hrelease (k + hfuel h) [r] h.
Proof.
  unfold m_decref. symmetry. apply hrelease_more; [lia|].
  apply hrelease_no_fuel_fault. unfold hfuel. lia.
Qed.

Lemma m_decref_dec r h n : hlive h r = Some n -> 2 <= refs n ->
  m_decref (Some r) h = MOk (hupd r (Some (mknode (refs n - 1) (nv n))) h) tt.
Proof.
  intros L R. unfold m_decref, hfuel. rewrite (hrelease_dec _ _ _ _ _ L R). apply hrelease_nil.
Qed.

(* releasing a freshly laid-out tree frees exactly its nodes *)
Lemma m_decref_seg j pre post :
  m_decref (Some (length pre)) (pre ++ jseg j (length pre) ++ post) = MOk (pre ++ nones (jsize j) ++ post) tt.
Proof. rewrite (m_decref_fuel _ _ (jsize j)). rewrite rel_seg. apply hrelease_nil. Qed.

(* ---- incref ------------------------------------------------------------------------------------- *)

Definition hbump (r : jref) (h : jheap) : jheap :=
  match hlive h r with Some n => hupd r (Some (mknode (S (refs n)) (nv n))) h | None => h end.

Definition hbumps (rs : list jref) (h : jheap) : jheap := fold_left (fun h r => hbump r h) rs h.

Lemma m_incref_live r h n : hlive h r = Some n -> m_incref (Some r) h = MOk (hbump r h) tt.
Proof. intro L. unfold m_incref, hbump. rewrite L. reflexivity. Qed.

Lemma hbump_length r h : length (hbump r h) = length h.
Proof. unfold hbump. destruct (hlive h r); [apply hupd_length|reflexivity]. Qed.

Lemma hbumps_length rs : forall h, length (hbumps rs h) = length h.
Proof. induction rs as [|r t IH]; intro h; simpl; [reflexivity|]. rewrite IH. apply hbump_length. Qed.

(* counts change, values and liveness do not *)
Lemma hbump_live r h i :
  hlive (hbump r h) i = match hlive h i with
                        | Some n => Some (mknode (if Nat.eqb i r then S (refs n) else refs n) (nv n))
                        | None => None
                        end.
Proof.
  unfold hbump. destruct (hlive h r) as [n|] eqn:L.
  - destruct (Nat.eqb i r) eqn:E.
    + apply Nat.eqb_eq in E. subst i. rewrite hlive_hupd_same by (eapply hlive_lt; eassumption). rewrite L. reflexivity.
    + apply Nat.eqb_neq in E. rewrite hlive_hupd_other by exact E. destruct (hlive h i) as [[c v]|]; reflexivity.
  - destruct (Nat.eqb i r) eqn:E.
    + apply Nat.eqb_eq in E. subst i. rewrite L. reflexivity.
    + destruct (hlive h i) as [[c v]|]; reflexivity.
Qed.

Lemma hbumps_live rs : forall h i,
  hlive (hbumps rs h) i = match hlive h i with
                          | Some n => Some (mknode (count_occ Nat.eq_dec rs i + refs n) (nv n))
                          | None => None
                          end.
Proof.
  induction rs as [|r t IH]; intros h i; simpl.
  - destruct (hlive h i) as [[c v]|]; reflexivity.
  - rewrite IH, hbump_live. destruct (hlive h i) as [[c v]|]; [|reflexivity]. simpl.
    destruct (Nat.eq_dec r i) as [->|N].
    + rewrite Nat.eqb_refl. f_equal. f_equal. lia.
    + apply Nat.eqb_neq in N. rewrite Nat.eqb_sym in N. rewrite N. reflexivity.
Qed.

Lemma hbump_app_l r a b : r < length a -> hbump r (a ++ b) = hbump r a ++ b.
Proof.
  intro H. unfold hbump. rewrite hlive_app_l by exact H.
  destruct (hlive a r); [apply hupd_app_l; exact H|reflexivity].
Qed.

Lemma hbumps_app_l rs : forall a b, Forall (fun r => r < length a) rs -> hbumps rs (a ++ b) = hbumps rs a ++ b.
Proof.
  induction rs as [|r t IH]; intros a b H; simpl; [reflexivity|].
  inversion H; subst. rewrite hbump_app_l by assumption. apply IH.
  rewrite hbump_length. assumption.
Qed.

Lemma hbumps_app_list r1 r2 h : hbumps (r1 ++ r2) h = hbumps r2 (hbumps r1 h).
Proof. unfold hbumps. apply fold_left_app. Qed.

Lemma hbump_comm a b h : hbump a (hbump b h) = hbump b (hbump a h).
Proof.
  destruct (Nat.eq_dec a b) as [->|N]; [reflexivity|].
  unfold hbump at 1 3. rewrite !hbump_live.
  assert (Ea : Nat.eqb a b = false) by (apply Nat.eqb_neq; exact N).
  assert (Eb : Nat.eqb b a = false) by (apply Nat.eqb_neq; congruence).
  rewrite Ea, Eb.
  destruct (hlive h a) as [[ca va]|] eqn:La; destruct (hlive h b) as [[cb vb]|] eqn:Lb; simpl.
  - unfold hbump. rewrite La, Lb. simpl. apply hupd_comm. exact N.
  - unfold hbump. rewrite Lb, La. reflexivity.
  - unfold hbump. rewrite La, Lb. reflexivity.
  - unfold hbump. rewrite La, Lb. reflexivity.
Qed.

Lemma hbumps_cons_out r rs : forall h, hbumps rs (hbump r h) = hbump r (hbumps rs h).
Proof.
  induction rs as [|x t IH]; intro h; simpl; [reflexivity|].
  rewrite hbump_comm. apply IH.
Qed.

(* dropping one reference of a node that was bumped restores the heap *)
Lemma hdrop_bump r h n :
  hlive h r = Some n ->
  hupd r (Some (mknode (S (refs n) - 1) (nv n))) (hbump r h) = h.
Proof.
  intro L. unfold hbump. rewrite L, hupd_hupd. simpl. rewrite Nat.sub_0_r.
  destruct n as [c v]. simpl. apply hupd_same. exact L.
Qed.

(* releasing references that were taken with incref gives back the heap *)
Lemma rel_old rs : forall h post w f,
  Forall (fun r => exists n, hlive h r = Some n /\ 1 <= refs n) rs ->
  hrelease (length rs + f) (rs ++ w) (hbumps rs h ++ post) = hrelease f w (h ++ post).
Proof.
  induction rs as [|r t IH]; intros h post w f H; [reflexivity|].
  inversion H as [|? ? (n & L & R) Ht]; subst. simpl hbumps. rewrite hbumps_cons_out.
  simpl length. simpl app. rewrite Nat.add_succ_l.
  assert (Lb : hlive (hbumps t h) r = Some (mknode (count_occ Nat.eq_dec t r + refs n) (nv n))).
  { rewrite hbumps_live, L. reflexivity. }
  assert (Lt : r < length (hbumps t h)) by (eapply hlive_lt; exact Lb).
  erewrite hrelease_dec.
  2:{ rewrite hlive_app_l by (rewrite hbump_length; exact Lt). rewrite hbump_live, Lb, Nat.eqb_refl. reflexivity. }
  2:{ simpl. lia. }
  cbn [refs nv]. rewrite hupd_app_l by (rewrite hbump_length; exact Lt).
  pose proof (hdrop_bump r (hbumps t h) _ Lb) as D. cbn [refs nv] in D. rewrite D.
  apply IH. exact Ht.
Qed.

(* ---- "the value x is laid out at r in H" --------------------------------------------------------- *)

Definition sub_at (H : jheap) (r : jref) (x : json) : Prop :=
  exists A B, H = A ++ jseg x r ++ B /\ length A = r.

Lemma sub_at_root j : sub_at (jseg j 0) 0 j.
Proof. exists [], []. rewrite app_nil_r. split; reflexivity. Qed.

Lemma sub_at_app H r x T : sub_at H r x -> sub_at (H ++ T) r x.
Proof. intros (A & B & E & L). exists A, (B ++ T). subst H. rewrite <- !app_assoc. split; [reflexivity|exact L]. Qed.

Lemma sub_at_live H r x : sub_at H r x -> hlive H r = Some (mknode 1 (rootval x r)).
Proof. intros (A & B & E & L). subst H r. rewrite jseg_eq. simpl. apply hlive_mid. Qed.

Lemma sub_at_end H r x : sub_at H r x -> r + jsize x <= length H.
Proof. intros (A & B & E & L). subst H r. rewrite !app_length, jseg_length. lia. Qed.

Lemma sub_at_kid H r j l1 x l2 :
  sub_at H r j -> jkids j = l1 ++ x :: l2 -> sub_at H (S r + jsizes l1) x.
Proof.
  intros (A & B & E & L) K. subst H. rewrite jseg_eq, K, jsegs_app in *. simpl jsegs.
  exists (A ++ Some (mknode 1 (rootval j r)) :: jsegs l1 (S r)), (jsegs l2 (S r + jsizes l1 + jsize x) ++ B).
  split.
  - simpl. repeat (rewrite <- app_assoc; simpl). reflexivity.
  - rewrite app_length. simpl. rewrite jsegs_length. lia.
Qed.

Lemma sub_at_slot H r x i : sub_at H r x -> r <= i < r + jsize x -> exists v, hlive H i = Some (mknode 1 v).
Proof.
  intros (A & B & E & L) R. subst H r.
  replace i with (length A + (i - length A)) by lia.
  rewrite hlive_app_r, hlive_app_l by (rewrite jseg_length; lia).
  pose proof (jseg_full x (length A)) as F. rewrite Forall_forall in F.
  unfold hlive. destruct (nth_error (jseg x (length A)) (i - length A)) as [s|] eqn:N.
  - destruct (F s (nth_error_In _ _ N)) as (v & ->). exists v. reflexivity.
  - apply nth_error_None in N. rewrite jseg_length in N. lia.
Qed.

(* the member of an object, as a reference *)
Definition jmember (j : json) (b : nat) (key : bytes) : option jref :=
  match rootval j b with VObj m => alookup key m | _ => None end.

Lemma alookup_roots (m : list (bytes * json)) : forall base key c,
  alookup key (combine (map fst m) (jroots (map snd m) base)) = Some c ->
  exists l1 x l2, map snd m = l1 ++ x :: l2 /\ c = base + jsizes l1 /\ alookup key m = Some x.
Proof.
  induction m as [|[k v] t IH]; intros base key c H; simpl in H; [discriminate|].
  simpl alookup. destruct (bytes_eqb key k).
  - inversion H; subst. exists [], v, (map snd t). simpl. repeat split; lia.
  - destruct (IH _ _ _ H) as (l1 & x & l2 & E & C & L). exists (v :: l1), x, l2. simpl. rewrite E. repeat split; [lia|exact L].
Qed.

Lemma alookup_roots_none (m : list (bytes * json)) : forall base key,
  alookup key (combine (map fst m) (jroots (map snd m) base)) = None -> alookup key m = None.
Proof.
  induction m as [|[k v] t IH]; intros base key H; simpl in *; [reflexivity|].
  destruct (bytes_eqb key k); [discriminate|]. eapply IH. exact H.
Qed.

Lemma jmember_sub H r j key c : sub_at H r j -> jmember j r key = Some c ->
  exists x, sub_at H c x /\ c + jsize x <= r + jsize j /\ r < c /\ lookup key j = Some x.
Proof.
  intros S M. unfold jmember in M. destruct j; simpl in M; try discriminate.
  destruct (alookup_roots _ _ _ _ M) as (l1 & x & l2 & E & C & Lk). exists x. subst c.
  split; [eapply sub_at_kid; [exact S|exact E]|].
  rewrite (jsize_eq (JObj m)). simpl jkids. rewrite E, jsizes_app. simpl. repeat split; try lia. exact Lk.
Qed.

Lemma jmember_none j r key : jmember j r key = None -> lookup key j = None.
Proof.
  unfold jmember. destruct j; simpl; try reflexivity. apply alookup_roots_none.
Qed.

(* the references held by a laid-out container all point inside it *)
Lemma rootval_kids_range j b : Forall (fun c => b < c /\ c < b + jsize j) (kids_of (rootval j b)).
Proof.
  rewrite kids_rootval, jsize_eq. eapply Forall_impl; [|apply jroots_range]. simpl. intros c [A B]. lia.
Qed.

Lemma sub_at_kids_live H r j :
  sub_at H r j -> Forall (fun c => exists n, hlive H c = Some n /\ 1 <= refs n) (kids_of (rootval j r)).
Proof.
  intro S. eapply Forall_impl; [|apply rootval_kids_range]. simpl. intros c [A B].
  destruct (sub_at_slot H r j c S) as (v & L); [lia|]. exists (mknode 1 v). split; [exact L|simpl; lia].
Qed.

(* ---- reading a tree back ------------------------------------------------------------------------------ *)

Definition jtree_arr (f : nat) (h : jheap) : list jref -> option json :=
  fix go (l : list jref) : option json :=
    match l with
    | [] => Some (JArr [])
    | x :: t => match jtree f h x, go t with
                | Some jx, Some (JArr jt) => Some (JArr (jx :: jt))
                | _, _ => None
                end
    end.

Definition jtree_obj (f : nat) (h : jheap) : list (bytes * jref) -> option json :=
  fix go (m : list (bytes * jref)) : option json :=
    match m with
    | [] => Some (JObj [])
    | kv :: t => match jtree f h (snd kv), go t with
                 | Some jx, Some (JObj jt) => Some (JObj ((fst kv, jx) :: jt))
                 | _, _ => None
                 end
    end.

Lemma jtree_S f h r :
  jtree (S f) h r = match hlive h r with
                    | None => None
                    | Some n => match nv n with
                                | VScalar j => Some j
                                | VArr l => jtree_arr f h l
                                | VObj m => jtree_obj f h m
                                end
                    end.
Proof. reflexivity. Qed.

Definition tree_stmt (j : json) : Prop :=
  forall pre post f, jsize j <= f -> jtree f (pre ++ jseg j (length pre) ++ post) (length pre) = Some j.

Lemma jtree_arr_segs l : Forall tree_stmt l ->
  forall pre post f, jsizes l <= f ->
    jtree_arr f (pre ++ jsegs l (length pre) ++ post) (jroots l (length pre)) = Some (JArr l).
Proof.
  induction 1 as [|x t Hx Ht IH]; intros pre post f F; simpl; [reflexivity|].
  simpl in F. rewrite <- app_assoc. rewrite (Hx pre _ f) by lia.
  replace (length pre + jsize x) with (length (pre ++ jseg x (length pre))) by (rewrite app_length, jseg_length; reflexivity).
  rewrite (app_assoc pre (jseg x (length pre))).
  change (match jtree_arr f ((pre ++ jseg x (length pre)) ++ jsegs t (length (pre ++ jseg x (length pre))) ++ post)
                  (jroots t (length (pre ++ jseg x (length pre)))) with
          | Some (JArr jt) => Some (JArr (x :: jt)) | _ => None end = Some (JArr (x :: t))).
  rewrite IH by lia. reflexivity.
Qed.

Lemma jtree_obj_segs (m : list (bytes * json)) : Forall (fun kv => tree_stmt (snd kv)) m ->
  forall pre post f, jsizes (map snd m) <= f ->
    jtree_obj f (pre ++ jsegs (map snd m) (length pre) ++ post) (combine (map fst m) (jroots (map snd m) (length pre))) = Some (JObj m).
Proof.
  induction 1 as [|[k x] t Hx Ht IH]; intros pre post f F; simpl; [reflexivity|].
  simpl in F, Hx. rewrite <- app_assoc. rewrite (Hx pre _ f) by lia.
  replace (length pre + jsize x) with (length (pre ++ jseg x (length pre))) by (rewrite app_length, jseg_length; reflexivity).
  rewrite (app_assoc pre (jseg x (length pre))).
  change (match jtree_obj f ((pre ++ jseg x (length pre)) ++ jsegs (map snd t) (length (pre ++ jseg x (length pre))) ++ post)
                  (combine (map fst t) (jroots (map snd t) (length (pre ++ jseg x (length pre))))) with
          | Some (JObj jt) => Some (JObj ((k, x) :: jt)) | _ => None end = Some (JObj ((k, x) :: t))).
  rewrite IH by lia. reflexivity.
Qed.

Theorem jtree_seg j : tree_stmt j.
Proof.
  induction j using json_ind'; intros pre post f F;
    (destruct f as [|f]; [pose proof (jsize_pos JNull); simpl in F; lia|]);
    rewrite jtree_S, jseg_eq; simpl app; rewrite hlive_mid; cbn [nv rootval]; try reflexivity.
  - rewrite jsize_eq in F. simpl jkids in *.
    replace (S (length pre)) with (length (pre ++ [Some (mknode 1 (VArr (jroots l (S (length pre)))))])) at 2 3
      by (rewrite app_length; simpl; lia).
    replace (pre ++ Some (mknode 1 (VArr (jroots l (S (length pre))))) :: jsegs l _ ++ post)
      with ((pre ++ [Some (mknode 1 (VArr (jroots l (S (length pre)))))]) ++ jsegs l (length (pre ++ [Some (mknode 1 (VArr (jroots l (S (length pre)))))])) ++ post).
    + apply jtree_arr_segs; [exact H|lia].
    + rewrite <- app_assoc. simpl. rewrite app_length. simpl. rewrite Nat.add_1_r. reflexivity.
  - rewrite jsize_eq in F. simpl jkids in *.
    set (root := Some (mknode 1 (VObj (combine (map fst m) (jroots (map snd m) (S (length pre))))))).
    replace (S (length pre)) with (length (pre ++ [root])) by (rewrite app_length; simpl; lia).
    replace (pre ++ root :: jsegs (map snd m) (length (pre ++ [root])) ++ post)
      with ((pre ++ [root]) ++ jsegs (map snd m) (length (pre ++ [root])) ++ post) by (rewrite <- app_assoc; reflexivity).
    apply jtree_obj_segs; [exact H|lia].
Qed.

Lemma sub_at_tree H r x : sub_at H r x -> jtree (length H) H r = Some x.
Proof.
  intros S. pose proof (sub_at_end _ _ _ S) as E. destruct S as (A & B & -> & L). subst r.
  apply jtree_seg. lia.
Qed.

(* ---- the operations on known nodes ------------------------------------------------------------------- *)

Lemma mbind_ok {A B} (m : M A) (k : A -> M B) h h' a : m h = MOk h' a -> mbind m k h = k a h'.
Proof. intro E. unfold mbind. rewrite E. reflexivity. Qed.

Lemma m_node_live h r n : hlive h r = Some n -> m_node r h = MOk h n.
Proof. intro L. unfold m_node. rewrite L. reflexivity. Qed.

Lemma m_get_live h r n key : hlive h r = Some n ->
  m_get (Some r) key h = MOk h (match nv n with VObj m => alookup key m | _ => None end).
Proof. intro L. unfold m_get. rewrite (mbind_ok _ _ _ _ _ (m_node_live _ _ _ L)). reflexivity. Qed.

Lemma m_is_object_live h r n : hlive h r = Some n -> m_is_object (Some r) h = MOk h (is_vobj (nv n)).
Proof. intro L. unfold m_is_object. rewrite (mbind_ok _ _ _ _ _ (m_node_live _ _ _ L)). reflexivity. Qed.

Lemma m_is_string_live h r n : hlive h r = Some n -> m_is_string (Some r) h = MOk h (is_vstr (nv n)).
Proof. intro L. unfold m_is_string. rewrite (mbind_ok _ _ _ _ _ (m_node_live _ _ _ L)). reflexivity. Qed.

Lemma is_vobj_rootval j b : is_vobj (rootval j b) = is_object j.
Proof. destruct j; reflexivity. Qed.

Lemma is_vstr_rootval j b : is_vstr (rootval j b) = is_string j.
Proof. destruct j; reflexivity. Qed.

Lemma m_deep_copy_sub H r x : sub_at H r x ->
  m_deep_copy (Some r) H = MOk (H ++ jseg x (length H)) (Some (length H)).
Proof.
  intro S. unfold m_deep_copy. rewrite (mbind_ok _ _ _ _ _ (m_node_live _ _ _ (sub_at_live _ _ _ S))).
  rewrite (sub_at_tree _ _ _ S). reflexivity.
Qed.

Lemma aset_none_app {A} k (v : A) m : alookup k m = None -> aset k v m = m ++ [(k, v)].
Proof.
  induction m as [|[k' v'] t IH]; simpl; intro H; [reflexivity|].
  destruct (bytes_eqb k k'); [discriminate|]. rewrite IH by exact H. reflexivity.
Qed.

(* ---- json_object_update_missing ------------------------------------------------------------------------ *)

Fixpoint news_of (mo items : list (bytes * jref)) : list (bytes * jref) :=
  match items with
  | [] => []
  | kv :: t => match alookup (fst kv) mo with
               | Some _ => news_of mo t
               | None => kv :: news_of (mo ++ [kv]) t
               end
  end.

Lemma news_of_forall (P : bytes * jref -> Prop) items : forall mo, Forall P items -> Forall P (news_of mo items).
Proof.
  induction items as [|kv t IH]; intros mo H; simpl; [constructor|].
  inversion H; subst. destruct (alookup (fst kv) mo); [apply IH; assumption|].
  constructor; [assumption|apply IH; assumption].
Qed.

Lemma um_loop_spec items : forall mo A B c,
  Forall (fun kv => exists n, hlive A (snd kv) = Some n) items ->
  m_um_loop (length A) items (A ++ Some (mknode c (VObj mo)) :: B)
  = MOk (hbumps (map snd (news_of mo items)) A ++ Some (mknode c (VObj (mo ++ news_of mo items))) :: B) tt.
Proof.
  induction items as [|[k v] t IH]; intros mo A B c H; simpl.
  - rewrite app_nil_r. reflexivity.
  - inversion H as [|? ? (n & L) Ht]; subst. simpl in L.
    erewrite mbind_ok; [|apply m_get_live; apply hlive_mid]. cbn [nv].
    destruct (alookup k mo) eqn:E.
    + apply IH. exact Ht.
    + pose proof (hlive_lt _ _ _ L) as Lv.
      unfold m_set.
      erewrite mbind_ok; [|erewrite mbind_ok; [|apply (m_incref_live _ _ n); rewrite hlive_app_l by exact Lv; exact L]].
      2:{ rewrite hbump_app_l by exact Lv. unfold m_set_new.
          replace (length A) with (length (hbump v A)) by apply hbump_length.
          erewrite mbind_ok; [|apply m_node_live; apply hlive_mid]. cbn [nv].
          assert (Ne : Nat.eqb (length (hbump v A)) v = false) by (apply Nat.eqb_neq; rewrite hbump_length; lia).
          rewrite Ne. unfold mbind at 1. rewrite hupd_mid. cbn [refs]. rewrite E. reflexivity. }
      rewrite aset_none_app by exact E.
      replace (length A) with (length (hbump v A)) by apply hbump_length.
      rewrite IH.
      * simpl. rewrite <- app_assoc. reflexivity.
      * eapply Forall_impl; [|exact Ht]. simpl. intros kv (n' & L'). rewrite hbump_live, L'. eexists. reflexivity.
Qed.

Lemma um_spec A B c mo rt nt :
  hlive A rt = Some nt ->
  (forall items, nv nt = VObj items -> Forall (fun kv => exists n, hlive A (snd kv) = Some n) items) ->
  m_update_missing (Some (length A)) (Some rt) (A ++ Some (mknode c (VObj mo)) :: B)
  = match nv nt with
    | VObj items => MOk (hbumps (map snd (news_of mo items)) A ++ Some (mknode c (VObj (mo ++ news_of mo items))) :: B) true
    | _ => MOk (A ++ Some (mknode c (VObj mo)) :: B) false
    end.
Proof.
  intros L HI. unfold m_update_missing.
  erewrite mbind_ok; [|apply m_node_live; apply hlive_mid].
  erewrite mbind_ok; [|apply m_node_live; rewrite hlive_app_l by (eapply hlive_lt; exact L); exact L].
  cbn [nv]. destruct (nv nt) as [s|l|items] eqn:E; try reflexivity.
  erewrite mbind_ok; [|apply um_loop_spec; apply HI; reflexivity]. reflexivity.
Qed.

(* ---- a fresh object that has absorbed members of the caller's objects ------------------------------- *)

Definition mroot (Hb : jheap) (mx : list (bytes * json)) : list (bytes * jref) :=
  combine (map fst mx) (jroots (map snd mx) (S (length Hb))).

Definition merged (Hb : jheap) (mx : list (bytes * json)) (news : list (bytes * jref)) : jheap :=
  hbumps (map snd news) Hb ++ Some (mknode 1 (VObj (mroot Hb mx ++ news))) :: jsegs (map snd mx) (S (length Hb)).

(* the absorbed references are live nodes of the caller, below lim *)
Definition absorbed (Hb : jheap) (lim : nat) (news : list (bytes * jref)) : Prop :=
  Forall (fun kv => (exists n, hlive Hb (snd kv) = Some n /\ 1 <= refs n) /\ snd kv < lim) news.

Lemma merged_nil Hb mx : merged Hb mx [] = Hb ++ jseg (JObj mx) (length Hb).
Proof. unfold merged, mroot. rewrite jseg_eq. simpl. rewrite app_nil_r. reflexivity. Qed.

Lemma merged_root Hb mx news :
  hlive (merged Hb mx news) (length Hb) = Some (mknode 1 (VObj (mroot Hb mx ++ news))).
Proof.
  unfold merged. replace (length Hb) with (length (hbumps (map snd news) Hb)) at 2 by apply hbumps_length.
  apply hlive_mid.
Qed.

Lemma merged_old Hb mx news r n : hlive Hb r = Some n ->
  exists c, hlive (merged Hb mx news) r = Some (mknode c (nv n)).
Proof.
  intro L. unfold merged. rewrite hlive_app_l by (rewrite hbumps_length; eapply hlive_lt; exact L).
  rewrite hbumps_live, L. eexists. reflexivity.
Qed.

Lemma map_snd_combine {A B} (l1 : list A) (l2 : list B) : length l1 = length l2 -> map snd (combine l1 l2) = l2.
Proof. revert l2; induction l1 as [|x t IH]; intros [|y u] H; simpl in *; try discriminate; [reflexivity|]. f_equal. apply IH. lia. Qed.

Lemma merged_um Hb mx news lim rt oj :
  absorbed Hb lim news -> sub_at Hb rt oj -> rt + jsize oj <= lim ->
  exists news',
    m_update_missing (Some (length Hb)) (Some rt) (merged Hb mx news) = MOk (merged Hb mx news') (is_object oj)
    /\ absorbed Hb lim news'.
Proof.
  intros Ab S Lim.
  pose proof (sub_at_live _ _ _ S) as L.
  assert (LA : hlive (hbumps (map snd news) Hb) rt
               = Some (mknode (count_occ Nat.eq_dec (map snd news) rt + 1) (rootval oj rt))).
  { rewrite hbumps_live, L. reflexivity. }
  assert (KL : forall items, rootval oj rt = VObj items ->
               Forall (fun kv => (exists n, hlive Hb (snd kv) = Some n /\ 1 <= refs n) /\ snd kv < lim) items).
  { intros items E. pose proof (sub_at_kids_live _ _ _ S) as K. pose proof (rootval_kids_range oj rt) as R.
    rewrite E in K, R. simpl in K, R. rewrite Forall_map in K, R.
    rewrite Forall_forall in *. intros kv I. split; [apply K; exact I|]. specialize (R kv I). simpl in R. lia. }
  assert (EQ : m_update_missing (Some (length Hb)) (Some rt) (merged Hb mx news)
               = match rootval oj rt with
                 | VObj items => MOk (merged Hb mx (news ++ news_of (mroot Hb mx ++ news) items)) true
                 | _ => MOk (merged Hb mx news) false
                 end).
  { unfold merged at 1.
    replace (Some (length Hb)) with (Some (length (hbumps (map snd news) Hb))) by (rewrite hbumps_length; reflexivity).
    rewrite (um_spec _ _ _ _ _ _ LA).
    2:{ cbn [nv]. intros items E. eapply Forall_impl; [|apply (KL _ E)]. simpl.
        intros kv [(n & Ln & _) _]. rewrite hbumps_live, Ln. eexists. reflexivity. }
    cbn [nv]. destruct (rootval oj rt); try reflexivity.
    unfold merged. rewrite map_app, hbumps_app_list, <- app_assoc. reflexivity. }
  rewrite EQ. destruct oj; simpl rootval; simpl is_object; try (exists news; split; [reflexivity|exact Ab]).
  eexists. split; [reflexivity|].
  apply Forall_app. split; [exact Ab|]. apply news_of_forall. apply (KL _ eq_refl).
Qed.

Lemma merged_release Hb mx news lim :
  absorbed Hb lim news ->
  m_decref (Some (length Hb)) (merged Hb mx news) = MOk (Hb ++ nones (jsize (JObj mx))) tt.
Proof.
  intro Ab.
  rewrite (m_decref_fuel _ _ (S (jsizes (map snd mx) + length (map snd news)))).
  rewrite Nat.add_succ_l, <- Nat.add_assoc.
  rewrite (hrelease_free _ _ _ _ _ (merged_root Hb mx news)) by (simpl; lia).
  cbn [nv kids_of]. rewrite map_app. unfold mroot at 1. rewrite map_snd_combine by (rewrite jroots_length, !map_length; reflexivity).
  assert (EH : hupd (length Hb) None (merged Hb mx news)
               = hbumps (map snd news) Hb ++ None :: jsegs (map snd mx) (S (length Hb))).
  { unfold merged. rewrite <- (hbumps_length (map snd news) Hb) at 1. apply hupd_mid. }
  rewrite EH. clear EH.
  set (A := hbumps (map snd news) Hb).
  replace (S (length Hb)) with (length (A ++ [None])) by (unfold A; rewrite app_length, hbumps_length; simpl; lia).
  replace (A ++ None :: jsegs (map snd mx) (length (A ++ [None])))
    with ((A ++ [None]) ++ jsegs (map snd mx) (length (A ++ [None])) ++ []) by (rewrite app_nil_r, <- app_assoc; reflexivity).
  rewrite <- (app_assoc (jroots _ _)).
  rewrite rel_segs_all. rewrite <- app_assoc. unfold A.
  rewrite rel_old.
  - rewrite hrelease_nil. rewrite jsize_eq. simpl. rewrite app_nil_r. reflexivity.
  - rewrite Forall_map. eapply Forall_impl; [|exact Ab]. simpl. intros kv [E _]. exact E.
Qed.

Lemma merged_incdec Hb mx news :
  (m_incref (Some (length Hb)) ;;; m_auto (Some (length Hb)) ;;; mret (Some (length Hb))) (merged Hb mx news)
  = MOk (merged Hb mx news) (Some (length Hb)).
Proof.
  pose proof (merged_root Hb mx news) as L.
  erewrite mbind_ok; [|apply (m_incref_live _ _ _ L)].
  unfold m_auto.
  assert (Lb : hlive (hbump (length Hb) (merged Hb mx news)) (length Hb) = Some (mknode 2 (VObj (mroot Hb mx ++ news)))).
  { rewrite hbump_live, L, Nat.eqb_refl. reflexivity. }
  erewrite mbind_ok; [|apply (m_decref_dec _ _ _ Lb); simpl; lia].
  cbn [refs nv]. pose proof (hdrop_bump _ _ _ L) as D. cbn [refs nv] in D. rewrite D. reflexivity.
Qed.

(* what jose_jws_hdr / jose_jwe_hdr leave behind *)
Definition hdr_result (Hb : jheap) (lim : nat) (h1 : jheap) (r : jptr) : Prop :=
  (r = None /\ exists k, h1 = Hb ++ nones k) \/
  (r = Some (length Hb) /\ exists mx news, h1 = merged Hb mx news /\ absorbed Hb lim news).

Definition src_ok (Hb : jheap) (lim : nat) (s : jptr * bytes) : Prop :=
  fst s = None \/ exists r j, fst s = Some r /\ sub_at Hb r j /\ r + jsize j <= lim.

Lemma m_get_merged Hb mx news r j key : sub_at Hb r j ->
  m_get (Some r) key (merged Hb mx news) = MOk (merged Hb mx news) (jmember j r key).
Proof.
  intro S. destruct (merged_old Hb mx news r _ (sub_at_live _ _ _ S)) as (c & L).
  rewrite (m_get_live _ _ _ _ L). reflexivity.
Qed.

Lemma merge_spec srcs : forall Hb mx news lim,
  absorbed Hb lim news -> Forall (src_ok Hb lim) srcs ->
  exists news' ok, own_merge (Some (length Hb)) srcs (merged Hb mx news) = MOk (merged Hb mx news') ok
                   /\ absorbed Hb lim news'.
Proof.
  induction srcs as [|[o key] t IH]; intros Hb mx news lim Ab Hs; simpl.
  - exists news, true. split; [reflexivity|exact Ab].
  - inversion Hs as [|? ? [E|(r & j & E & S & Lim)] Ht]; subst; simpl in E; subst o.
    + change (exists news' ok, own_merge (Some (length Hb)) t (merged Hb mx news) = MOk (merged Hb mx news') ok
                               /\ absorbed Hb lim news').
      apply IH; assumption.
    + erewrite mbind_ok; [|apply (m_get_merged _ _ _ _ _ _ S)].
      destruct (jmember j r key) as [c|] eqn:M.
      * destruct (jmember_sub _ _ _ _ _ S M) as (x & Sx & Ex & _ & _).
        destruct (merged_um Hb mx news lim c x Ab Sx) as (news1 & E1 & Ab1); [lia|].
        erewrite mbind_ok; [|exact E1].
        destruct (is_object x); cbn [negb].
        -- apply IH; assumption.
        -- exists news1, false. split; [reflexivity|exact Ab1].
      * change (exists news' ok, own_merge (Some (length Hb)) t (merged Hb mx news) = MOk (merged Hb mx news') ok
                                 /\ absorbed Hb lim news').
        apply IH; assumption.
Qed.

Definition restored (H0 h : jheap) : Prop := exists k, h = H0 ++ nones k.

Lemma restored_refl H : restored H H.
Proof. exists 0. simpl. rewrite app_nil_r. reflexivity. Qed.

Lemma hdr_result_release Hb lim h1 r : hdr_result Hb lim h1 r -> exists h2, m_decref r h1 = MOk h2 tt /\ restored Hb h2.
Proof.
  intros [[-> (k & ->)]|[-> (mx & news & -> & Ab)]].
  - eexists. split; [reflexivity|]. exists k. reflexivity.
  - eexists. split; [apply (merged_release _ _ _ _ Ab)|]. eexists. reflexivity.
Qed.

Lemma fresh_root Hb X : hlive (Hb ++ jseg X (length Hb)) (length Hb) = Some (mknode 1 (rootval X (length Hb))).
Proof. rewrite jseg_eq. apply hlive_mid. Qed.

Lemma m_decref_fresh Hb X :
  m_decref (Some (length Hb)) (Hb ++ jseg X (length Hb)) = MOk (Hb ++ nones (jsize X)) tt.
Proof. pose proof (m_decref_seg X Hb []) as D. rewrite !app_nil_r in D. exact D. Qed.

Lemma hdr_finish_spec srcs Hb X lim :
  Forall (src_ok Hb lim) srcs ->
  exists h1 r, own_hdr_finish (Some (length Hb)) srcs (Hb ++ jseg X (length Hb)) = MOk h1 r /\ hdr_result Hb lim h1 r.
Proof.
  intro Hs. unfold own_hdr_finish.
  erewrite mbind_ok; [|apply (m_is_object_live _ _ _ (fresh_root Hb X))]. cbn [nv]. rewrite is_vobj_rootval.
  destruct X; cbn [is_object negb];
    try (unfold m_auto; erewrite mbind_ok; [|apply m_decref_fresh];
         do 2 eexists; split; [reflexivity|]; left; split; [reflexivity|]; eexists; reflexivity).
  rewrite <- merged_nil.
  destruct (merge_spec srcs Hb m [] lim) as (news & ok & E & Ab); [constructor|exact Hs|].
  erewrite mbind_ok; [|exact E].
  destruct ok; cbn [negb].
  - rewrite merged_incdec. do 2 eexists. split; [reflexivity|]. right. split; [reflexivity|]. exists m, news. split; [reflexivity|exact Ab].
  - unfold m_auto. erewrite mbind_ok; [|apply (merged_release _ _ _ _ Ab)].
    do 2 eexists. split; [reflexivity|]. left. split; [reflexivity|]. eexists. reflexivity.
Qed.

Lemma hdr_finish_null srcs Hb lim :
  own_hdr_finish None srcs Hb = MOk Hb None /\ hdr_result Hb lim Hb None.
Proof.
  split; [reflexivity|]. left. split; [reflexivity|]. exists 0. simpl. rewrite app_nil_r. reflexivity.
Qed.

Section GlueProofs.
  Variable dl : bytes -> option json.
  Variable ed : json -> option bytes.
  Variable comp_ok : bytes -> bool.

  Lemma m_dec_load_sub H r x : sub_at H r x ->
    m_dec_load dl (Some r) H
    = match x with
      | JStr s => match dl s with
                  | Some d => MOk (H ++ jseg d (length H)) (Some (length H))
                  | None => MOk H None
                  end
      | _ => MOk H None
      end.
  Proof.
    intro S. unfold m_dec_load. rewrite (mbind_ok _ _ _ _ _ (m_node_live _ _ _ (sub_at_live _ _ _ S))).
    cbn [nv]. destruct x; try reflexivity. cbn [rootval]. destruct (dl s); reflexivity.
  Qed.

  (* ---- jose_jws_hdr ------------------------------------------------------------------------------------ *)

  (* the value held by p after the if / else-if chain, and the heap *)
  Definition fresh_of (Hb : jheap) (pj : json) : jheap * jptr :=
    match pj with
    | JObj _ => (Hb ++ jseg pj (length Hb), Some (length Hb))
    | JStr s => match dl s with
                | Some d => (Hb ++ jseg d (length Hb), Some (length Hb))
                | None => (Hb, None)
                end
    | _ => (Hb, None)
    end.

  Lemma jws_phase1 Hb bp pj : sub_at Hb bp pj ->
    (io <- m_is_object (Some bp) ;;
     if io then m_deep_copy (Some bp)
     else is <- m_is_string (Some bp) ;; if is then m_dec_load dl (Some bp) else mret None) Hb
    = MOk (fst (fresh_of Hb pj)) (snd (fresh_of Hb pj)).
  Proof.
    intro Sp.
    erewrite mbind_ok; [|apply (m_is_object_live _ _ _ (sub_at_live _ _ _ Sp))]. cbn [nv]. rewrite is_vobj_rootval.
    destruct pj; cbn [is_object fresh_of fst snd];
      try (erewrite mbind_ok; [|apply (m_is_string_live _ _ _ (sub_at_live _ _ _ Sp))]; cbn [nv]; rewrite is_vstr_rootval; cbn [is_string]; reflexivity).
    - erewrite mbind_ok; [|apply (m_is_string_live _ _ _ (sub_at_live _ _ _ Sp))]. cbn [nv]. rewrite is_vstr_rootval. cbn [is_string].
      rewrite (m_dec_load_sub _ _ _ Sp). destruct (dl s); reflexivity.
    - apply (m_deep_copy_sub _ _ _ Sp).
  Qed.

  Lemma finish_fresh srcs Hb pj lim :
    Forall (src_ok Hb lim) srcs ->
    exists h1 r, own_hdr_finish (snd (fresh_of Hb pj)) srcs (fst (fresh_of Hb pj)) = MOk h1 r /\ hdr_result Hb lim h1 r.
  Proof.
    intro Hs. destruct pj; cbn [fresh_of fst snd];
      try (do 2 eexists; apply hdr_finish_null); try (apply hdr_finish_spec; exact Hs).
    destruct (dl s); cbn [fst snd]; [apply hdr_finish_spec; exact Hs|do 2 eexists; apply hdr_finish_null].
  Qed.

  Lemma jws_hdr_spec Hb rs sigj lim :
    sub_at Hb rs sigj -> rs + jsize sigj <= lim ->
    exists h1 r, own_jws_hdr dl (Some rs) Hb = MOk h1 r /\ hdr_result Hb lim h1 r.
  Proof.
    intros S Lim. unfold own_jws_hdr.
    rewrite (mbind_ok _ _ _ _ _ (m_get_live _ _ _ k_protected (sub_at_live _ _ _ S))). cbn [nv].
    assert (Hs : Forall (src_ok Hb lim) [(Some rs, k_header)]).
    { constructor; [|constructor]. right. exists rs, sigj. auto. }
    fold (jmember sigj rs k_protected).
    destruct (jmember sigj rs k_protected) as [bp|] eqn:M.
    - destruct (jmember_sub _ _ _ _ _ S M) as (pj & Sp & _ & _ & _).
      rewrite (mbind_ok _ _ _ _ _ (jws_phase1 _ _ _ Sp)).
      apply finish_fresh. exact Hs.
    - rewrite (mbind_ok _ _ Hb (Hb ++ jseg (JObj []) (length Hb)) (Some (length Hb))) by reflexivity.
      apply hdr_finish_spec. exact Hs.
  Qed.

  Theorem jws_hdr_balanced (sig : json) :
    exists h1 r, own_jws_hdr dl (Some 0) (jseg sig 0) = MOk h1 r /\
                 exists h2, m_decref r h1 = MOk h2 tt /\ restored (jseg sig 0) h2.
  Proof.
    destruct (jws_hdr_spec (jseg sig 0) 0 sig (jsize sig) (sub_at_root sig)) as (h1 & r & E & R); [lia|].
    exists h1, r. split; [exact E|]. eapply hdr_result_release. exact R.
  Qed.

  (* ---- jose_jwe_hdr ------------------------------------------------------------------------------------ *)

  Lemma bumped_live Hb bp n : hlive Hb bp = Some n ->
    hlive (hbump bp Hb) bp = Some (mknode (S (refs n)) (nv n)).
  Proof. intro L. rewrite hbump_live, L, Nat.eqb_refl. reflexivity. Qed.

  Lemma m_decref_bumped Hb bp n : hlive Hb bp = Some n -> 1 <= refs n ->
    m_decref (Some bp) (hbump bp Hb) = MOk Hb tt.
  Proof.
    intros L R. rewrite (m_decref_dec _ _ _ (bumped_live _ _ _ L)) by (simpl; lia).
    cbn [refs nv]. rewrite (hdrop_bump _ _ _ L). reflexivity.
  Qed.

  Definition jwe_fresh_of (Hb : jheap) (bp : jref) (pj : json) : jheap * jptr :=
    match pj with
    | JObj _ | JStr _ => fresh_of Hb pj
    | _ => (hbump bp Hb, Some bp)
    end.

  Lemma jwe_phase1 Hb bp pj : sub_at Hb bp pj ->
    (io <- m_is_object (Some bp) ;;
     if io then m_decref (Some bp) ;;; m_deep_copy (Some bp)
     else is <- m_is_string (Some bp) ;;
          if is then m_decref (Some bp) ;;; m_dec_load dl (Some bp) else mret (Some bp)) (hbump bp Hb)
    = MOk (fst (jwe_fresh_of Hb bp pj)) (snd (jwe_fresh_of Hb bp pj)).
  Proof.
    intro Sp. pose proof (sub_at_live _ _ _ Sp) as L. pose proof (bumped_live _ _ _ L) as Lb. cbn [refs nv] in Lb.
    erewrite mbind_ok; [|apply (m_is_object_live _ _ _ Lb)]. cbn [nv]. rewrite is_vobj_rootval.
    destruct pj; cbn [is_object jwe_fresh_of fresh_of fst snd];
      try (erewrite mbind_ok; [|apply (m_is_string_live _ _ _ Lb)]; cbn [nv]; rewrite is_vstr_rootval; cbn [is_string]; reflexivity).
    - erewrite mbind_ok; [|apply (m_is_string_live _ _ _ Lb)]. cbn [nv]. rewrite is_vstr_rootval. cbn [is_string].
      erewrite mbind_ok; [|apply (m_decref_bumped _ _ _ L); simpl; lia].
      rewrite (m_dec_load_sub _ _ _ Sp). destruct (dl s); reflexivity.
    - erewrite mbind_ok; [|apply (m_decref_bumped _ _ _ L); simpl; lia].
      apply (m_deep_copy_sub _ _ _ Sp).
  Qed.

  Lemma finish_jwe_fresh srcs Hb bp pj lim :
    sub_at Hb bp pj -> Forall (src_ok Hb lim) srcs ->
    exists h1 r, own_hdr_finish (snd (jwe_fresh_of Hb bp pj)) srcs (fst (jwe_fresh_of Hb bp pj)) = MOk h1 r
                 /\ hdr_result Hb lim h1 r.
  Proof.
    intros Sp Hs. pose proof (sub_at_live _ _ _ Sp) as L. pose proof (bumped_live _ _ _ L) as Lb. cbn [refs nv] in Lb.
    destruct pj; cbn [jwe_fresh_of]; try (apply finish_fresh; exact Hs); cbn [fst snd];
      unfold own_hdr_finish;
      (erewrite mbind_ok; [|apply (m_is_object_live _ _ _ Lb)]); cbn [nv rootval is_vobj negb]; unfold m_auto;
      (erewrite mbind_ok; [|apply (m_decref_bumped _ _ _ L); simpl; lia]);
      do 2 eexists; (split; [reflexivity|]); left; (split; [reflexivity|]); exists 0; simpl; rewrite app_nil_r; reflexivity.
  Qed.

  Lemma jwe_hdr_spec Hb rj jwej rcp lim :
    sub_at Hb rj jwej -> rj + jsize jwej <= lim -> src_ok Hb lim (rcp, k_header) ->
    exists h1 r, own_jwe_hdr dl (Some rj) rcp Hb = MOk h1 r /\ hdr_result Hb lim h1 r.
  Proof.
    intros S Lim Hr. unfold own_jwe_hdr.
    rewrite (mbind_ok _ _ _ _ _ (m_get_live _ _ _ k_protected (sub_at_live _ _ _ S))). cbn [nv].
    assert (Hs : Forall (src_ok Hb lim) [(Some rj, k_unprotected); (rcp, k_header)]).
    { constructor; [|constructor; [exact Hr|constructor]]. right. exists rj, jwej. auto. }
    fold (jmember jwej rj k_protected).
    destruct (jmember jwej rj k_protected) as [bp|] eqn:M.
    - destruct (jmember_sub _ _ _ _ _ S M) as (pj & Sp & _ & _ & _).
      rewrite (mbind_ok _ _ _ _ _ (m_incref_live _ _ _ (sub_at_live _ _ _ Sp))).
      rewrite (mbind_ok _ _ _ _ _ (jwe_phase1 _ _ _ Sp)).
      apply finish_jwe_fresh; assumption.
    - rewrite (mbind_ok _ _ Hb Hb tt) by reflexivity.
      rewrite (mbind_ok _ _ Hb (Hb ++ jseg (JObj []) (length Hb)) (Some (length Hb))) by reflexivity.
      apply hdr_finish_spec. exact Hs.
  Qed.

  Definition rcp_args (rcp : option json) : list json := match rcp with Some r => [r] | None => [] end.

  Theorem jwe_hdr_balanced (jwe : json) (rcp : option json) :
    let H0 := jsegs (jwe :: rcp_args rcp) 0 in
    exists h1 r, own_jwe_hdr dl (Some 0) (option_map (fun _ => jsize jwe) rcp) H0 = MOk h1 r /\
                 exists h2, m_decref r h1 = MOk h2 tt /\ restored H0 h2.
  Proof.
    intro H0.
    assert (S : sub_at H0 0 jwe).
    { exists [], (jsegs (rcp_args rcp) (0 + jsize jwe)). split; reflexivity. }
    assert (Hr : src_ok H0 (length H0) (option_map (fun _ => jsize jwe) rcp, k_header)).
    { destruct rcp as [r|]; [|left; reflexivity]. right. exists (jsize jwe), r. split; [reflexivity|]. split.
      - exists (jseg jwe 0), []. unfold H0. simpl. rewrite jseg_length. split; reflexivity.
      - unfold H0. simpl. rewrite !app_length, !jseg_length. simpl. lia. }
    destruct (jwe_hdr_spec H0 0 jwe (option_map (fun _ => jsize jwe) rcp) (length H0) S) as (h1 & r & E & R); [|exact Hr|].
    - pose proof (sub_at_end _ _ _ S). lia.
    - exists h1, r. split; [exact E|]. eapply hdr_result_release. exact R.
  Qed.

  (* ---- json_unpack of one string member ------------------------------------------------------------------ *)

  Lemma alookup_in_snd {A} k (m : list (bytes * A)) v : alookup k m = Some v -> In v (map snd m).
  Proof.
    induction m as [|[k' v'] t IH]; simpl; [discriminate|].
    destruct (bytes_eqb k k'); intro H; [inversion H; left; reflexivity|right; apply IH; exact H].
  Qed.

  Lemma m_unpack_s_live req h r n key :
    hlive h r = Some n ->
    Forall (fun c => exists m, hlive h c = Some m) (kids_of (nv n)) ->
    exists res, m_unpack_s req (Some r) key h = MOk h res /\ (forall z, snd res = Some z -> exists m, hlive h z = Some m).
  Proof.
    intros L K. unfold m_unpack_s. rewrite (mbind_ok _ _ _ _ _ (m_node_live _ _ _ L)).
    destruct (nv n) as [s|l|m] eqn:E; try (eexists; split; [reflexivity|]; simpl; discriminate).
    destruct (alookup key m) as [c|] eqn:A; [|eexists; split; [reflexivity|]; simpl; discriminate].
    simpl in K. rewrite Forall_forall in K. destruct (K c (alookup_in_snd _ _ _ A)) as (cn & Lc).
    rewrite (mbind_ok _ _ _ _ _ (m_node_live _ _ _ Lc)).
    eexists. split; [reflexivity|]. destruct (is_vstr (nv cn)); simpl; [|discriminate].
    intros z Z. inversion Z; subst. eexists. exact Lc.
  Qed.

  Lemma m_unpack_s_sub req H r j key : sub_at H r j ->
    exists res, m_unpack_s req (Some r) key H = MOk H res /\ (forall z, snd res = Some z -> exists m, hlive H z = Some m).
  Proof.
    intro S. apply (m_unpack_s_live req H r _ key (sub_at_live _ _ _ S)). cbn [nv].
    eapply Forall_impl; [|apply (sub_at_kids_live _ _ _ S)]. simpl. intros c (n & L & _). eexists. exact L.
  Qed.

  Lemma m_use_str_live h z n : hlive h z = Some n -> exists s, m_use_str z h = MOk h s.
  Proof. intro L. unfold m_use_str. rewrite (mbind_ok _ _ _ _ _ (m_node_live _ _ _ L)). eexists. reflexivity. Qed.

  (* ---- zip_in_protected_header ---------------------------------------------------------------------------------- *)

  Lemma mbind_assoc {A B C} (m : M A) (f : A -> M B) (g : B -> M C) h :
    mbind (mbind m f) g h = mbind m (fun a => mbind (f a) g) h.
  Proof. unfold mbind. destruct (m h); reflexivity. Qed.

  Lemma sub_at_fresh Hb d : sub_at (Hb ++ jseg d (length Hb)) (length Hb) d.
  Proof. exists Hb, []. rewrite app_nil_r. split; reflexivity. Qed.

  Definition owned_fresh (Hb h1 : jheap) (dec : jptr) : Prop :=
    (dec = None /\ h1 = Hb) \/ (exists d, dec = Some (length Hb) /\ h1 = Hb ++ jseg d (length Hb)).

  Lemma auto_dec Hb h1 dec : owned_fresh Hb h1 dec -> exists h2, m_auto dec h1 = MOk h2 tt /\ restored Hb h2.
  Proof.
    intros [[-> ->]|(d & -> & ->)].
    - eexists. split; [reflexivity|apply restored_refl].
    - eexists. split; [apply m_decref_fresh|]. eexists. reflexivity.
  Qed.

  Lemma zip_prefix_spec Hb rj j :
    sub_at Hb rj j ->
    exists h1 dec uz, own_zip_prefix dl (Some rj) Hb = MOk h1 (dec, uz)
      /\ (forall z, snd uz = Some z -> exists m, hlive h1 z = Some m)
      /\ owned_fresh Hb h1 dec.
  Proof.
    intros S. unfold own_zip_prefix.
    rewrite (mbind_ok _ _ _ _ _ (m_get_live _ _ _ k_protected (sub_at_live _ _ _ S))). cbn [nv].
    fold (jmember j rj k_protected).
    destruct (jmember j rj k_protected) as [bp|] eqn:M.
    - destruct (jmember_sub _ _ _ _ _ S M) as (pj & Sp & _ & _ & Lk).
      rewrite (mbind_ok _ _ _ _ _ (m_is_string_live _ _ _ (sub_at_live _ _ _ Sp))). cbn [nv]. rewrite is_vstr_rootval.
      destruct (is_string pj) eqn:Is; cbv iota.
      + destruct pj; try discriminate. pose proof (m_dec_load_sub _ _ _ Sp) as DL. cbv iota in DL.
        destruct (dl s) as [d|].
        * rewrite (mbind_ok _ _ _ _ _ DL).
          destruct (m_unpack_s_sub true _ _ _ k_zip (sub_at_fresh Hb d)) as (res & E & Z).
          rewrite (mbind_ok _ _ _ _ _ E). do 3 eexists. split; [reflexivity|]. split; [exact Z|].
          right. exists d. split; reflexivity.
        * rewrite (mbind_ok _ _ _ _ _ DL).
          do 3 eexists. split; [reflexivity|]. split; [simpl; discriminate|]. left. split; reflexivity.
      + rewrite (mbind_ok _ _ Hb Hb (None : jptr)) by reflexivity.
        destruct (m_unpack_s_sub true _ _ _ k_zip Sp) as (res & E & Z).
        rewrite (mbind_ok _ _ _ _ _ E). do 3 eexists. split; [reflexivity|]. split; [exact Z|]. left. split; reflexivity.
    - rewrite (mbind_ok _ _ Hb Hb false) by reflexivity.
      rewrite (mbind_ok _ _ Hb Hb (None : jptr)) by reflexivity.
      do 3 eexists. split; [reflexivity|]. split; [simpl; discriminate|]. left. split; reflexivity.
  Qed.

  Theorem zip_in_protected_header_balanced (j : json) :
    exists h1 b, own_zip_in_protected_header dl comp_ok (Some 0) (jseg j 0) = MOk h1 b /\ restored (jseg j 0) h1.
  Proof.
    destruct (zip_prefix_spec _ 0 j (sub_at_root j)) as (h1 & dec & uz & E & Z & D).
    unfold own_zip_in_protected_header. rewrite (mbind_ok _ _ _ _ _ E). cbn [fst snd].
    destruct (auto_dec _ _ _ D) as (h2 & A & R).
    destruct (snd uz) as [z|] eqn:Zs.
    - destruct (Z z eq_refl) as (m & L). destruct (m_use_str_live _ _ _ L) as (s & U).
      rewrite (mbind_ok _ _ _ _ _ U). rewrite (mbind_ok _ _ _ _ _ A). do 2 eexists. split; [reflexivity|exact R].
    - rewrite (mbind_ok _ _ _ _ _ A). do 2 eexists. split; [reflexivity|exact R].
  Qed.

  (* the text before cba5ab8 was balanced only when "protected" is not a string that decodes *)
  Definition not_decodable (j : json) : Prop := forall s, lookup k_protected j = Some (JStr s) -> dl s = None.

  Lemma zip_prefix_old_borrowed Hb rj j :
    sub_at Hb rj j -> not_decodable j ->
    exists uz, own_zip_prefix_old dl (Some rj) Hb = MOk Hb uz
               /\ (forall z, snd uz = Some z -> exists m, hlive Hb z = Some m).
  Proof.
    intros S ND. unfold own_zip_prefix_old.
    rewrite (mbind_ok _ _ _ _ _ (m_get_live _ _ _ k_protected (sub_at_live _ _ _ S))). cbn [nv].
    fold (jmember j rj k_protected).
    destruct (jmember j rj k_protected) as [bp|] eqn:M.
    - destruct (jmember_sub _ _ _ _ _ S M) as (pj & Sp & _ & _ & Lk).
      rewrite (mbind_ok _ _ _ _ _ (m_is_string_live _ _ _ (sub_at_live _ _ _ Sp))). cbn [nv]. rewrite is_vstr_rootval.
      destruct (is_string pj) eqn:Is; cbv iota.
      + destruct pj; try discriminate. rewrite (mbind_ok _ _ Hb Hb (None : jptr)).
        * eexists. split; [reflexivity|]. simpl. discriminate.
        * rewrite (m_dec_load_sub _ _ _ Sp). rewrite (ND _ Lk). reflexivity.
      + rewrite (mbind_ok _ _ Hb Hb (Some bp : jptr)) by reflexivity. apply (m_unpack_s_sub _ _ _ _ _ Sp).
    - rewrite (mbind_ok _ _ Hb Hb false) by reflexivity.
      rewrite (mbind_ok _ _ Hb Hb (None : jptr)) by reflexivity.
      eexists. split; [reflexivity|]. simpl. discriminate.
  Qed.

  Theorem zip_in_protected_header_old_balanced (j : json) :
    not_decodable j ->
    exists b, own_zip_in_protected_header_old dl comp_ok (Some 0) (jseg j 0) = MOk (jseg j 0) b.
  Proof.
    intro ND. destruct (zip_prefix_old_borrowed _ 0 j (sub_at_root j) ND) as (uz & E & Z).
    unfold own_zip_in_protected_header_old. rewrite (mbind_ok _ _ _ _ _ E).
    destruct (snd uz) as [z|] eqn:Zs; [|eexists; reflexivity].
    destruct (Z z eq_refl) as (m & L). destruct (m_use_str_live _ _ _ L) as (s & U).
    rewrite (mbind_ok _ _ _ _ _ U). eexists. reflexivity.
  Qed.

  (* ---- jose_jwe_enc_cek_io: zip epilogue ------------------------------------------------------------------------- *)

  Lemma prt_load Hb rj j : sub_at Hb rj j ->
    exists h1 pp prt, (pp <- m_get (Some rj) k_protected ;; prt <- m_dec_load dl pp ;; mret (pp, prt)) Hb = MOk h1 (pp, prt)
                      /\ owned_fresh Hb h1 prt /\ (pp = None -> prt = None).
  Proof.
    intro S.
    rewrite (mbind_ok _ _ _ _ _ (m_get_live _ _ _ k_protected (sub_at_live _ _ _ S))). cbn [nv].
    fold (jmember j rj k_protected).
    destruct (jmember j rj k_protected) as [bp|] eqn:M.
    - destruct (jmember_sub _ _ _ _ _ S M) as (pj & Sp & _ & _ & _).
      pose proof (m_dec_load_sub _ _ _ Sp) as DL.
      destruct pj; try (rewrite (mbind_ok _ _ _ _ _ DL); do 3 eexists; split; [reflexivity|]; split; [left; split; reflexivity|discriminate]).
      cbv iota in DL. destruct (dl s) as [d|]; rewrite (mbind_ok _ _ _ _ _ DL); do 3 eexists; (split; [reflexivity|]); (split; [|discriminate]);
        [right; exists d; split; reflexivity|left; split; reflexivity].
    - do 3 eexists. split; [reflexivity|]. split; [left; split; reflexivity|reflexivity].
  Qed.

  Theorem enc_cek_io_zip_balanced (j : json) :
    exists h1 r, own_enc_cek_io_zip dl comp_ok (Some 0) (jseg j 0) = MOk h1 r /\ restored (jseg j 0) h1.
  Proof.
    set (H0 := jseg j 0). pose proof (sub_at_root j) as S. fold H0 in S.
    destruct (prt_load H0 0 j S) as (h1 & pp & prt & E & F & PN).
    unfold own_enc_cek_io_zip. rewrite (mbind_ok _ _ _ _ _ E). cbn [fst snd].
    assert (UZ : exists uz, m_unpack_s true prt k_zip h1 = MOk h1 uz /\ (forall z, snd uz = Some z -> exists m, hlive h1 z = Some m)).
    { destruct F as [[-> ->]|(d & -> & ->)].
      - eexists. split; [reflexivity|]. simpl. discriminate.
      - apply (m_unpack_s_sub true _ _ _ k_zip (sub_at_fresh H0 d)). }
    destruct UZ as (uz & E2 & Zz).
    destruct (auto_dec _ _ _ F) as (h2 & A & R).
    assert (Go : exists h4 r, (uz0 <- m_unpack_s true prt k_zip ;;
                               match snd uz0 with
                               | None => m_auto prt ;;; mret (Some false)
                               | Some z => s <- m_use_str z ;;
                                           if comp_ok s then m_auto prt ;;; mret (Some true) else m_auto prt ;;; mret None
                               end) h1 = MOk h4 r /\ restored H0 h4).
    { rewrite (mbind_ok _ _ _ _ _ E2).
      destruct (snd uz) as [z|] eqn:Zs.
      - destruct (Zz z eq_refl) as (m & L). destruct (m_use_str_live _ _ _ L) as (s & U).
        rewrite (mbind_ok _ _ _ _ _ U). destruct (comp_ok s); rewrite (mbind_ok _ _ _ _ _ A); do 2 eexists; (split; [reflexivity|exact R]).
      - rewrite (mbind_ok _ _ _ _ _ A). do 2 eexists. split; [reflexivity|exact R]. }
    destruct pp as [p0|]; destruct prt as [p1|]; try exact Go.
    destruct F as [[_ ->]|(d & Fd & _)]; [|discriminate].
    do 2 eexists. split; [reflexivity|apply restored_refl].
  Qed.

  (* ---- jose_jwe_dec_cek_io: prologue ---------------------------------------------------------------------- *)

  Lemma prologue_prt Hb rj j : sub_at Hb rj j ->
    exists h1 ps prt, (pp <- m_get (Some rj) k_protected ;;
                       ps <- m_is_string pp ;;
                       prt <- (if ps then m_dec_load dl pp else mret None) ;;
                       mret (ps, prt)) Hb = MOk h1 (ps, prt) /\ owned_fresh Hb h1 prt.
  Proof.
    intro S.
    rewrite (mbind_ok _ _ _ _ _ (m_get_live _ _ _ k_protected (sub_at_live _ _ _ S))). cbn [nv].
    fold (jmember j rj k_protected).
    destruct (jmember j rj k_protected) as [bp|] eqn:M.
    - destruct (jmember_sub _ _ _ _ _ S M) as (pj & Sp & _ & _ & _).
      rewrite (mbind_ok _ _ _ _ _ (m_is_string_live _ _ _ (sub_at_live _ _ _ Sp))). cbn [nv]. rewrite is_vstr_rootval.
      destruct (is_string pj) eqn:Is; cbv iota.
      + destruct pj; try discriminate. pose proof (m_dec_load_sub _ _ _ Sp) as DL. cbv iota in DL.
        destruct (dl s) as [d|]; rewrite (mbind_ok _ _ _ _ _ DL); do 3 eexists; (split; [reflexivity|]);
          [right; exists d; split; reflexivity|left; split; reflexivity].
      + do 3 eexists. split; [reflexivity|left; split; reflexivity].
    - do 3 eexists. split; [reflexivity|left; split; reflexivity].
  Qed.

  Lemma merged_kids_live Hb mx news lim : absorbed Hb lim news ->
    Forall (fun c => exists m, hlive (merged Hb mx news) c = Some m) (map snd (mroot Hb mx ++ news)).
  Proof.
    intro Ab. rewrite map_app. apply Forall_app. split.
    - unfold mroot. rewrite map_snd_combine by (rewrite jroots_length, !map_length; reflexivity).
      eapply Forall_impl; [|apply jroots_range]. simpl. intros c [A B].
      unfold merged.
      replace c with (length (hbumps (map snd news) Hb) + (c - length Hb)) by (rewrite hbumps_length; lia).
      rewrite hlive_app_r. destruct (c - length Hb) as [|i] eqn:E; [lia|].
      unfold hlive. simpl.
      pose proof (jseg_full (JArr (map snd mx)) (length Hb)) as F. rewrite jseg_eq in F. inversion F as [|? ? _ F']; subst.
      simpl jkids in F'. rewrite Forall_forall in F'.
      destruct (nth_error (jsegs (map snd mx) (S (length Hb))) i) as [sl|] eqn:N.
      + destruct (F' sl (nth_error_In _ _ N)) as (v & ->). eexists. reflexivity.
      + apply nth_error_None in N. rewrite jsegs_length in N. lia.
    - rewrite Forall_map. eapply Forall_impl; [|exact Ab]. simpl. intros kv [(n & L & _) _].
      destruct (merged_old Hb mx news _ _ L) as (c & Lc). eexists. exact Lc.
  Qed.

  Lemma absorbed_lt Hb lim news : absorbed Hb lim news -> Forall (fun r => r < lim) (map snd news).
  Proof. intro Ab. rewrite Forall_map. eapply Forall_impl; [|exact Ab]. simpl. tauto. Qed.

  Lemma prologue_cleanup {A} H0 h1 prt mx news (x : A) :
    owned_fresh H0 h1 prt -> absorbed h1 (length H0) news ->
    exists h4, (m_auto prt ;;; m_auto (Some (length h1)) ;;; mret x) (merged h1 mx news) = MOk h4 x /\ restored H0 h4.
  Proof.
    intros [[-> ->]|(d & -> & ->)] Ab.
    - rewrite (mbind_ok _ _ (merged H0 mx news) (merged H0 mx news) tt) by reflexivity.
      unfold m_auto. rewrite (mbind_ok _ _ _ _ _ (merged_release _ _ _ _ Ab)).
      eexists. split; [reflexivity|]. eexists. reflexivity.
    - set (n0 := length H0) in *. set (rs := map snd news).
      assert (Lt : Forall (fun r => r < length H0) rs) by (apply absorbed_lt with (Hb := H0 ++ jseg d n0); exact Ab).
      assert (E1 : merged (H0 ++ jseg d n0) mx news
                   = hbumps rs H0 ++ jseg d (length (hbumps rs H0))
                     ++ Some (mknode 1 (VObj (mroot (H0 ++ jseg d n0) mx ++ news))) :: jsegs (map snd mx) (S (length (H0 ++ jseg d n0)))).
      { unfold merged. fold rs. rewrite hbumps_app_l by exact Lt. rewrite hbumps_length, <- app_assoc. reflexivity. }
      unfold m_auto. rewrite E1.
      replace (Some n0) with (Some (length (hbumps rs H0))) by (rewrite hbumps_length; reflexivity).
      rewrite (mbind_ok _ _ _ _ _ (m_decref_seg d (hbumps rs H0) _)).
      assert (Ab' : absorbed (H0 ++ nones (jsize d)) (length H0) news).
      { eapply Forall_impl; [|exact Ab]. simpl. intros kv [(n & L & R) Lk]. split; [|exact Lk].
        exists n. rewrite hlive_app_l in * by exact Lk. split; assumption. }
      assert (E2 : hbumps rs H0 ++ nones (jsize d)
                   ++ Some (mknode 1 (VObj (mroot (H0 ++ jseg d n0) mx ++ news))) :: jsegs (map snd mx) (S (length (H0 ++ jseg d n0)))
                   = merged (H0 ++ nones (jsize d)) mx news).
      { unfold merged, mroot. fold rs. rewrite hbumps_app_l by exact Lt.
        rewrite !app_length, jseg_length, nones_length, <- app_assoc. reflexivity. }
      rewrite E2.
      replace (length (H0 ++ jseg d n0)) with (length (H0 ++ nones (jsize d))) by (rewrite !app_length, jseg_length, nones_length; reflexivity).
      rewrite (mbind_ok _ _ _ _ _ (merged_release _ _ _ _ Ab')).
      eexists. split; [reflexivity|]. exists (jsize d + jsize (JObj mx)). rewrite <- app_assoc, nones_app. reflexivity.
  Qed.

  Lemma prologue_early H0 h1 prt k :
    owned_fresh H0 h1 prt ->
    exists h4, (m_auto prt ;;; mret (@None bool)) (h1 ++ nones k) = MOk h4 None /\ restored H0 h4.
  Proof.
    intros [[-> ->]|(d & -> & ->)].
    - eexists. split; [reflexivity|]. eexists. reflexivity.
    - unfold m_auto. rewrite <- app_assoc. rewrite (mbind_ok _ _ _ _ _ (m_decref_seg d H0 (nones k))).
      eexists. split; [reflexivity|]. exists (jsize d + k). rewrite nones_app. reflexivity.
  Qed.

  Theorem dec_cek_io_prologue_balanced (j : json) (go_on : bool) :
    exists h1 r, own_dec_cek_io_prologue dl comp_ok (Some 0) go_on (jseg j 0) = MOk h1 r /\ restored (jseg j 0) h1.
  Proof.
    set (H0 := jseg j 0).
    pose proof (sub_at_root j) as S. fold H0 in S.
    destruct (prologue_prt H0 0 j S) as (h1 & ps & prt & E1 & F).
    unfold own_dec_cek_io_prologue.
    rewrite (mbind_ok _ _ _ _ _ E1). cbn [fst snd].
    assert (Early : ps = true /\ prt = None -> exists h1' r, @mret (option bool) None h1 = MOk h1' r /\ restored H0 h1').
    { intros [_ ->]. destruct F as [[_ ->]|(d & Fd & _)]; [|discriminate].
      do 2 eexists. split; [reflexivity|apply restored_refl]. }
    assert (Rest : (exists h1' r,
       (uz <- m_unpack_s true prt k_zip;;
        hdr <- own_jwe_hdr dl (Some 0) None;;
        match hdr with
        | Some _ =>
            ue <- m_unpack_s false hdr k_enc;;
            (if negb (fst ue)
             then m_auto prt;;; m_auto hdr;;; mret None
             else
              _ <- match snd ue with
                   | Some z => _ <- m_use_str z;; mret tt
                   | None => mret tt
                   end;;
              (if negb go_on
               then m_auto prt;;; m_auto hdr;;; mret None
               else
                z <- match snd uz with
                     | Some z => s <- m_use_str z;; mret (comp_ok s)
                     | None => mret false
                     end;; m_auto prt;;; m_auto hdr;;; mret (Some z)))
        | None => m_auto prt;;; mret None
        end) h1 = MOk h1' r /\ restored H0 h1')).
    2:{ destruct ps; destruct prt; try exact Rest. apply Early. split; reflexivity. }
    clear Early.
    (* the zip member of the decoded header *)
    assert (S1 : sub_at h1 0 j).
    { destruct F as [[_ ->]|(d & _ & ->)]; [exact S|apply sub_at_app; exact S]. }
    assert (UZ : exists uz, m_unpack_s true prt k_zip h1 = MOk h1 uz /\ (forall z, snd uz = Some z -> exists m, hlive h1 z = Some m)).
    { destruct F as [[-> ->]|(d & -> & ->)].
      - eexists. split; [reflexivity|]. simpl. discriminate.
      - apply (m_unpack_s_sub true _ _ _ k_zip (sub_at_fresh H0 d)). }
    destruct UZ as (uz & E2 & Zz). rewrite (mbind_ok _ _ _ _ _ E2).
    destruct (jwe_hdr_spec h1 0 j None (length H0) S1) as (h2 & hdr & E3 & R).
    { unfold H0. rewrite jseg_length. lia. }
    { left. reflexivity. }
    rewrite (mbind_ok _ _ _ _ _ E3).
    destruct R as [[-> (k & ->)]|[-> (mx & news & -> & Ab)]].
    - destruct (prologue_early H0 h1 prt k F) as (h4 & E4 & R4). do 2 eexists. split; [exact E4|exact R4].
    - (* the enc member of the merged header *)
      destruct (m_unpack_s_live false _ _ _ k_enc (merged_root h1 mx news)) as (ue & E5 & Ze).
      { cbn [nv kids_of]. apply (merged_kids_live _ _ _ _ Ab). }
      rewrite (mbind_ok _ _ _ _ _ E5).
      destruct (fst ue); cbn [negb].
      2:{ destruct (prologue_cleanup H0 h1 prt mx news (@None bool) F Ab) as (h4 & E4 & R4). do 2 eexists. split; [exact E4|exact R4]. }
      assert (E6 : exists u, (match snd ue with Some z => _ <- m_use_str z ;; mret tt | None => mret tt end) (merged h1 mx news)
                             = MOk (merged h1 mx news) u).
      { destruct (snd ue) as [z|] eqn:Zs; [|eexists; reflexivity].
        destruct (Ze z eq_refl) as (m & L). destruct (m_use_str_live _ _ _ L) as (s & U).
        rewrite (mbind_ok _ _ _ _ _ U). eexists. reflexivity. }
      destruct E6 as (u & E6). rewrite (mbind_ok _ _ _ _ _ E6).
      destruct go_on; cbn [negb].
      2:{ destruct (prologue_cleanup H0 h1 prt mx news (@None bool) F Ab) as (h4 & E4 & R4). do 2 eexists. split; [exact E4|exact R4]. }
      assert (E7 : exists zb, (match snd uz with Some z => s <- m_use_str z ;; mret (comp_ok s) | None => mret false end) (merged h1 mx news)
                              = MOk (merged h1 mx news) zb).
      { destruct (snd uz) as [z|] eqn:Zs; [|eexists; reflexivity].
        destruct (Zz z eq_refl) as (m & L). destruct (merged_old h1 mx news _ _ L) as (c & Lc).
        destruct (m_use_str_live _ _ _ Lc) as (s & U).
        rewrite (mbind_ok _ _ _ _ _ U). eexists. reflexivity. }
      destruct E7 as (zb & E7). rewrite (mbind_ok _ _ _ _ _ E7).
      destruct (prologue_cleanup H0 h1 prt mx news (Some zb) F Ab) as (h4 & E4 & R4). do 2 eexists. split; [exact E4|exact R4].
  Qed.

  (* ---- encode_protected -------------------------------------------------------------------------------------- *)

  Definition mrefs (m : list (bytes * json)) (base : nat) : list (bytes * jref) :=
    combine (map fst m) (jroots (map snd m) base).

  Lemma mrefs_snd m base : map snd (mrefs m base) = jroots (map snd m) base.
  Proof. unfold mrefs. apply map_snd_combine. rewrite jroots_length, !map_length. reflexivity. Qed.

  Lemma aset_split (m : list (bytes * json)) : forall base key c,
    alookup key (mrefs m base) = Some c ->
    exists m1 pj m2, m = m1 ++ (key, pj) :: m2 /\ c = base + jsizes (map snd m1) /\
      forall v, aset key v (mrefs m base) = mrefs m1 base ++ (key, v) :: mrefs m2 (c + jsize pj).
  Proof.
    induction m as [|[k x] t IH]; intros base key c H; [discriminate|].
    unfold mrefs in *. simpl in H. simpl aset. destruct (bytes_eqb key k) eqn:E.
    - apply bytes_eqb_eq in E. subst k. inversion H; subst. exists [], x, t. simpl.
      split; [reflexivity|]. split; [lia|]. intro v. reflexivity.
    - destruct (IH _ _ _ H) as (m1 & pj & m2 & -> & C & A). exists ((k, x) :: m1), pj, m2. simpl.
      split; [reflexivity|]. split; [lia|]. intro v. rewrite A. reflexivity.
  Qed.

  Lemma rel_segs_at l pre post w f b : length pre = b ->
    hrelease (jsizes l + f) (jroots l b ++ w) (pre ++ jsegs l b ++ post) = hrelease f w (pre ++ nones (jsizes l) ++ post).
  Proof. intros <-. apply rel_segs_all. Qed.

  Lemma rel_seg_at x pre post w f b : length pre = b ->
    hrelease (jsize x + f) (b :: w) (pre ++ jseg x b ++ post) = hrelease f w (pre ++ nones (jsize x) ++ post).
  Proof. intros <-. apply rel_seg. Qed.

  Lemma m_decref_seg_at x pre post b : length pre = b ->
    m_decref (Some b) (pre ++ jseg x b ++ post) = MOk (pre ++ nones (jsize x) ++ post) tt.
  Proof. intros <-. apply m_decref_seg. Qed.

  Lemma release_all j : exists h2, m_decref (Some 0) (jseg j 0) = MOk h2 tt /\ hcount h2 = 0.
  Proof.
    pose proof (m_decref_seg j [] []) as D. simpl in D. rewrite app_nil_r in D.
    eexists. split; [exact D|]. rewrite app_nil_r. apply hcount_nones.
  Qed.

  Lemma jsegs_map_app (m1 m2 : list (bytes * json)) x b :
    jsegs (map snd (m1 ++ x :: m2)) b
    = jsegs (map snd m1) b ++ jseg (snd x) (b + jsizes (map snd m1)) ++ jsegs (map snd m2) (b + jsizes (map snd m1) + jsize (snd x)).
  Proof. rewrite map_app, jsegs_app. reflexivity. Qed.

  Theorem encode_protected_balanced (obj : json) :
    exists h1 b, own_encode_protected ed (Some 0) (jseg obj 0) = MOk h1 b /\
                 exists h2, m_decref (Some 0) h1 = MOk h2 tt /\ hcount h2 = 0.
  Proof.
    set (H0 := jseg obj 0). pose proof (sub_at_root obj) as S. fold H0 in S.
    unfold own_encode_protected.
    rewrite (mbind_ok _ _ _ _ _ (m_is_object_live _ _ _ (sub_at_live _ _ _ S))). cbn [nv]. rewrite is_vobj_rootval.
    destruct (is_object obj) eqn:IO; cbn [negb]; [|do 2 eexists; split; [reflexivity|apply release_all]].
    rewrite (mbind_ok _ _ _ _ _ (m_get_live _ _ _ k_protected (sub_at_live _ _ _ S))). cbn [nv].
    fold (jmember obj 0 k_protected).
    destruct (jmember obj 0 k_protected) as [bp|] eqn:M.
    2:{ rewrite (mbind_ok _ _ H0 H0 false) by reflexivity. do 2 eexists. split; [reflexivity|apply release_all]. }
    destruct (jmember_sub _ _ _ _ _ S M) as (pj & Sp & _ & _ & _).
    rewrite (mbind_ok _ _ _ _ _ (m_is_string_live _ _ _ (sub_at_live _ _ _ Sp))). cbn [nv]. rewrite is_vstr_rootval.
    destruct (is_string pj) eqn:IS; [do 2 eexists; split; [reflexivity|apply release_all]|].
    rewrite (mbind_ok _ _ _ _ _ (m_is_object_live _ _ _ (sub_at_live _ _ _ Sp))). cbn [nv]. rewrite is_vobj_rootval.
    destruct (is_object pj) eqn:IP; cbn [negb]; [|do 2 eexists; split; [reflexivity|apply release_all]].
    (* jose_b64_enc_dump(p) *)
    assert (ED : m_enc_dump ed (Some bp) H0
                 = match ed pj with
                   | Some s => MOk (H0 ++ [Some (mknode 1 (VScalar (JStr s)))]) (Some (length H0))
                   | None => MOk H0 None
                   end).
    { unfold m_enc_dump. rewrite (mbind_ok _ _ _ _ _ (m_node_live _ _ _ (sub_at_live _ _ _ Sp))).
      rewrite (sub_at_tree _ _ _ Sp). destruct (ed pj); reflexivity. }
    destruct (ed pj) as [s|].
    2:{ rewrite (mbind_ok _ _ _ _ _ ED). do 2 eexists. split; [reflexivity|apply release_all]. }
    rewrite (mbind_ok _ _ _ _ _ ED). clear ED.
    (* the layout of obj around its "protected" member *)
    destruct obj as [| | | | | |m]; try discriminate. clear IO.
    unfold jmember in M. cbn [rootval] in M. fold (mrefs m 1) in M.
    destruct (aset_split m 1 k_protected bp M) as (m1 & pj' & m2 & -> & C & AS).
    assert (pj' = pj).
    { pose proof (sub_at_kid _ _ _ (map snd m1) pj' (map snd m2) S) as K. simpl jkids in K.
      rewrite map_app in K. specialize (K eq_refl). replace (1 + jsizes (map snd m1)) with bp in K by lia.
      pose proof (sub_at_tree _ _ _ K) as T1. pose proof (sub_at_tree _ _ _ Sp) as T2. congruence. }
    subst pj'.
    set (M1 := map snd m1) in *. set (M2 := map snd m2) in *.
    set (str := Some (mknode 1 (VScalar (JStr s)))).
    assert (EH : H0 = Some (mknode 1 (VObj (mrefs (m1 ++ (k_protected, pj) :: m2) 1)))
                      :: jsegs M1 1 ++ jseg pj bp ++ jsegs M2 (bp + jsize pj)).
    { unfold H0. rewrite jseg_eq. cbn [rootval jkids]. fold (mrefs (m1 ++ (k_protected, pj) :: m2) 1).
      rewrite jsegs_map_app. cbn [snd]. fold M1 M2. rewrite <- C. reflexivity. }
    assert (LH : length H0 = bp + jsize pj + jsizes M2).
    { rewrite EH. simpl. rewrite !app_length, !jsegs_length, jseg_length. lia. }
    set (n0 := length H0) in *.
    (* json_object_set_new(obj, "protected", e) *)
    unfold m_set_new.
    assert (L0 : hlive (H0 ++ [str]) 0 = Some (mknode 1 (VObj (mrefs (m1 ++ (k_protected, pj) :: m2) 1)))).
    { rewrite EH. reflexivity. }
    rewrite (mbind_ok _ _ _ _ _ (m_node_live _ _ _ L0)). cbn [nv refs].
    assert (N0 : Nat.eqb 0 n0 = false) by (apply Nat.eqb_neq; lia). rewrite N0.
    rewrite M. rewrite AS.
    remember (Some (mknode 1 (VObj (mrefs m1 1 ++ (k_protected, (n0 : jref)) :: mrefs m2 (bp + jsize pj))))) as root' eqn:ER.
    assert (EU : hupd 0 root' (H0 ++ [str])
                 = (root' :: jsegs M1 1) ++ jseg pj bp ++ (jsegs M2 (bp + jsize pj) ++ [str])).
    { rewrite EH. simpl. rewrite <- !app_assoc. reflexivity. }
    unfold mbind at 1. rewrite EU.
    rewrite (mbind_ok _ _ _ _ _ (m_decref_seg_at pj (root' :: jsegs M1 1) _ bp ltac:(simpl; rewrite jsegs_length; lia))).
    do 2 eexists. split; [reflexivity|].
    (* the caller releases obj *)
    set (h1 := (root' :: jsegs M1 1) ++ nones (jsize pj) ++ jsegs M2 (bp + jsize pj) ++ [str]).
    rewrite (m_decref_fuel _ _ (Datatypes.S (jsizes M1 + (1 + (jsizes M2 + 0))))).
    rewrite Nat.add_succ_l.
    erewrite hrelease_free; [|unfold h1; rewrite ER; reflexivity|simpl; lia].
    cbn [nv kids_of]. rewrite map_app. cbn [map snd]. rewrite !mrefs_snd. fold M1 M2.
    assert (EK : hupd 0 None h1 = [None] ++ jsegs M1 1 ++ (nones (jsize pj) ++ jsegs M2 (bp + jsize pj) ++ [str])).
    { unfold h1. simpl. reflexivity. }
    rewrite EK. rewrite <- app_assoc, <- Nat.add_assoc.
    rewrite rel_segs_at by reflexivity.
    (* the new string *)
    set (pre2 := [None] ++ nones (jsizes M1) ++ nones (jsize pj) ++ jsegs M2 (bp + jsize pj)).
    replace ([None] ++ nones (jsizes M1) ++ nones (jsize pj) ++ jsegs M2 (bp + jsize pj) ++ [str])
      with (pre2 ++ jseg (JStr s) n0 ++ []) by (unfold pre2; rewrite <- !app_assoc; reflexivity).
    rewrite <- Nat.add_assoc.
    change ((n0 :: jroots M2 (bp + jsize pj)) ++ []) with (n0 :: (jroots M2 (bp + jsize pj) ++ [])).
    change (1 + (jsizes M2 + 0 + hfuel h1)) with (jsize (JStr s) + (jsizes M2 + 0 + hfuel h1)).
    rewrite rel_seg_at by (unfold pre2; simpl; rewrite !app_length, !nones_length, jsegs_length; lia).
    (* the members after "protected" *)
    unfold pre2. rewrite <- Nat.add_assoc.
    replace (([None] ++ nones (jsizes M1) ++ nones (jsize pj) ++ jsegs M2 (bp + jsize pj)) ++ nones (jsize (JStr s)) ++ [])
      with (([None] ++ nones (jsizes M1) ++ nones (jsize pj)) ++ jsegs M2 (bp + jsize pj) ++ nones 1)
      by (rewrite <- !app_assoc; reflexivity).
    rewrite rel_segs_at by (simpl; rewrite !app_length, !nones_length; lia).
    rewrite hrelease_nil. eexists. split; [reflexivity|].
    rewrite !hcount_app, !hcount_nones. reflexivity.
  Qed.
End GlueProofs.

(* ---- jwe_hdr_set_new: every combination of member kinds, by computation ------------------------------------- *)

Local Open Scope N_scope.
Definition kind_reps : list json :=
  [JNull; JBool true; JInt 5; JReal [49; 46; 53]; JStr [101; 51; 48]; JStr [33];
   JArr [JInt 1; JStr [120]]; JObj []; JObj [(k_enc, JStr [65]); (k_zip, JArr [JNull])]].
Definition k_x : bytes := [120].
Definition k_y : bytes := [121].
Local Close Scope N_scope.

Definition opt_reps : list (option json) := None :: map Some kind_reps.

Definition member_opt (k : bytes) (o : option json) : list (bytes * json) :=
  match o with Some v => [(k, v)] | None => [] end.

(* jwe objects with every kind of "protected" x every kind of "unprotected" (absent included), between other members;
   and every non-object value *)
Definition set_new_jwes : list json :=
  flat_map (fun p => map (fun u => JObj ((k_x, JInt 1) :: member_opt k_protected p ++ (k_y, JArr [JNull]) :: member_opt k_unprotected u))
                         opt_reps) opt_reps
  ++ kind_reps.

Definition set_new_values : list (option json) := opt_reps.

Definition set_new_sweep : bool :=
  forallb (fun jwe =>
    forallb (fun v =>
      forallb (fun name => mem_clean (mem_jwe_hdr_set_new jwe name v)) [k_enc; k_alg; k_protected])
      set_new_values)
    set_new_jwes.

Lemma set_new_sweep_ok : set_new_sweep = true.
Proof. vm_compute. reflexivity. Qed.

Theorem jwe_hdr_set_new_kinds jwe v name :
  In jwe set_new_jwes -> In v set_new_values -> In name [k_enc; k_alg; k_protected] ->
  mem_clean (mem_jwe_hdr_set_new jwe name v) = true.
Proof.
  intros Hj Hv Hn. pose proof set_new_sweep_ok as S. unfold set_new_sweep in S.
  rewrite forallb_forall in S. specialize (S jwe Hj).
  rewrite forallb_forall in S. specialize (S v Hv).
  rewrite forallb_forall in S. exact (S name Hn).
Qed.

(* ---- what the CURRENT text gets wrong: witnesses ----------------------------------------------------------------- *)

Local Open Scope N_scope.
(* {"protected":"e30"}   ("e30" is base64url of "{}") *)
Definition leak_witness : json := JObj [(k_protected, JStr [101; 51; 48])].
(* {"protected":5} *)
Definition borrowed_witness : json := JObj [(k_protected, JInt 5)].
Local Close Scope N_scope.

(* a node created by the function is still alive after the call AND after the caller released its argument *)
Definition leaks {A} (run : jptr -> M A) (j : json) : Prop :=
  exists h1 a, run (Some 0) (jseg j 0) = MOk h1 a /\ hcount (jseg j 0) < hcount h1 /\
               exists h2, m_decref (Some 0) h1 = MOk h2 tt /\ 0 < hcount h2.

Lemma zip_in_protected_header_old_leaks : exists j, leaks (own_zip_in_protected_header_old real_dl real_comp_ok) j.
Proof.
  exists leak_witness. unfold leaks. do 2 eexists. split; [vm_compute; reflexivity|].
  split; [vm_compute; lia|]. eexists. split; [vm_compute; reflexivity|vm_compute; lia].
Qed.

(* the compression stage's free() forgets its downstream: the sink of handle_zip_enc survives *)
Lemma io_forgetful_stage_leaks : exists h, own_enc_cek_io_chain false [] = MOk h tt /\ 0 < hcount h.
Proof. eexists. split; [vm_compute; reflexivity|vm_compute; lia]. Qed.

Lemma io_releasing_stage_balanced : exists h, own_enc_cek_io_chain true [] = MOk h tt /\ hcount h = 0.
Proof. eexists. split; [vm_compute; reflexivity|reflexivity]. Qed.

(* the text of jose_jws_hdr before 530be9d: the caller's release of its own object is Stuck (double free) *)
Lemma jws_hdr_old_stuck : mr_stuck (memr_jws_hdr_old borrowed_witness) = true.
Proof. vm_compute. reflexivity. Qed.

Lemma jws_hdr_now_clean : mem_clean (memr_jws_hdr borrowed_witness) = true.
Proof. vm_compute. reflexivity. Qed.
