(* C09 -- fixed-buffer obligations: every call of jose_b64_dec / jose_b64_dec_buf in lib/ that passes an
   output buffer, with the capacity of the destination and the guard that precedes the call.

   The list is written by hand from the source text; tools/props/c09.py re-derives the (file, function,
   callee, destination, length) part from /repo/lib on every run and fails the check when the two differ.
   What is proved: under the recorded guard the requested output length never exceeds the capacity of the
   destination, hence (dec_buf_bounds) every index the decoder writes is inside the destination. *)
From JoseV Require Import Base.Bytes Codec.B64Impl Codec.B64ImplProofs Gen.Consts.
From Coq Require Import String List NArith Lia.
Import ListNotations.
Local Open Scope N_scope.
Local Open Scope string_scope.

(* sizes as the C text writes them *)
Inductive sexpr :=
| Sz (a : string)      (* sizeof(a): a is an array (fixed or variable length) declared in the function *)
| V (x : string)       (* a size_t variable *)
| K (n : N).           (* a constant *)

Record senv := { sz_of : string -> N; var_of : string -> N }.

Definition seval (e : senv) (x : sexpr) : N :=
  match x with Sz a => sz_of e a | V v => var_of e v | K n => n end.

Definition sexpr_eqb (a b : sexpr) : bool :=
  match a, b with
  | Sz x, Sz y => String.eqb x y
  | V x, V y => String.eqb x y
  | K x, K y => N.eqb x y
  | _, _ => false
  end.

Lemma sexpr_eqb_eq a b : sexpr_eqb a b = true -> a = b.
Proof.
  destruct a, b; simpl; intro H; try discriminate.
  - apply String.eqb_eq in H. congruence.
  - apply String.eqb_eq in H. congruence.
  - apply N.eqb_eq in H. congruence.
Qed.

Record site := mk_site {
  s_file : string; s_func : string; s_callee : string; s_dest : string; s_len : string;
  s_cap : sexpr;                       (* capacity of the destination *)
  s_ol : sexpr;                        (* the length argument *)
  s_guard : list (sexpr * sexpr);      (* (a, b): the call is reached only when a <= b *)
  s_decl : string                      (* the declaration / allocation and the guard, as in the source *)
}.

Definition sites : list site := [
  mk_site "lib/b64.c" "dec_done" "jose_b64_dec_buf" "buf" "sizeof(buf)" (Sz "buf") (Sz "buf") []
          "uint8_t buf[sizeof(i->eb) / JOSE_B64_ENC_BLK * JOSE_B64_DEC_BLK]";
  mk_site "lib/b64.c" "dec_feed" "jose_b64_dec_buf" "buf" "sizeof(buf)" (Sz "buf") (Sz "buf") []
          "uint8_t buf[sizeof(i->eb) / JOSE_B64_ENC_BLK * JOSE_B64_DEC_BLK]";
  mk_site "lib/b64.c" "jose_b64_dec" "jose_b64_dec_buf" "o" "ol" (V "ol") (V "ol") []
          "forwards the caller's (o, ol): o points to ol bytes by the function's contract; its callers in lib/ are the sites below";
  mk_site "lib/b64.c" "jose_b64_dec_load" "jose_b64_dec" "buf" "size" (V "size") (V "size") []
          "size = jose_b64_dec(i, NULL, 0); if (size == SIZE_MAX) return NULL; buf = calloc(1, size)";
  mk_site "lib/openssl/aescbch.c" "alg_encr_dec" "jose_b64_dec" "iv" "sizeof(iv)" (Sz "iv") (Sz "iv") []
          "uint8_t iv[EVP_CIPHER_iv_length(cph)]; preceded by jose_b64_dec(.., NULL, 0) != sizeof(iv) -> return";
  mk_site "lib/openssl/aescbch.c" "dec_done" "jose_b64_dec" "bf" "sizeof(bf)" (Sz "bf") (Sz "bf") []
          "uint8_t bf[sizeof(tg) / 2]; preceded by jose_b64_dec(tag, NULL, 0) != sizeof(bf) -> return";
  mk_site "lib/openssl/aescbch.c" "setup" "jose_b64_dec" "key" "sizeof(key)" (Sz "key") (Sz "key") []
          "uint8_t key[EVP_CIPHER_key_length(cph) * 2]; preceded by jose_b64_dec(.., NULL, 0) != sizeof(key) -> return";
  mk_site "lib/openssl/aesgcm.c" "alg_encr_dec" "jose_b64_dec" "iv" "sizeof(iv)" (Sz "iv") (Sz "iv") []
          "uint8_t iv[EVP_CIPHER_iv_length(cph)]";
  mk_site "lib/openssl/aesgcm.c" "dec_done" "jose_b64_dec" "tg" "sizeof(tg)" (Sz "tg") (Sz "tg") []
          "uint8_t tg[EVP_GCM_TLS_TAG_LEN]";
  mk_site "lib/openssl/aesgcm.c" "setup" "jose_b64_dec" "key" "sizeof(key)" (Sz "key") (Sz "key") []
          "uint8_t key[EVP_CIPHER_key_length(cph)]";
  mk_site "lib/openssl/aeskw.c" "alg_wrap_unw" "jose_b64_dec" "ct" "ctl" (Sz "ct") (V "ctl") [(V "ctl", Sz "ct")]
          "uint8_t ct[KEYMAX + EVP_CIPHER_block_size(cph) * 2]; ctl = jose_b64_dec(.., NULL, 0); if (ctl > sizeof(ct)) goto egress";
  mk_site "lib/openssl/aeskw.c" "alg_wrap_unw" "jose_b64_dec" "ky" "sizeof(ky)" (Sz "ky") (Sz "ky") []
          "uint8_t ky[EVP_CIPHER_key_length(cph)]";
  mk_site "lib/openssl/aeskw.c" "alg_wrap_wrp" "jose_b64_dec" "ky" "sizeof(ky)" (Sz "ky") (Sz "ky") []
          "uint8_t ky[EVP_CIPHER_key_length(cph)]";
  mk_site "lib/openssl/aeskw.c" "alg_wrap_wrp" "jose_b64_dec" "pt" "ptl" (K keymax) (V "ptl") [(V "ptl", K keymax)]
          "uint8_t pt[KEYMAX]; ptl = jose_b64_dec(.., NULL, 0); if (ptl > sizeof(pt)) goto egress";
  mk_site "lib/openssl/ecdhes.c" "decode" "jose_b64_dec_buf" "buf" "len" (V "len") (V "len") []
          "forwards its (buf, len); the three callers pass (pu, sizeof(pu)), (pv, sizeof(pv)), (ky, sizeof(ky)), each uint8_t x[KEYMAX]; and dlen > len -> return before the call";
  mk_site "lib/openssl/ecdsa.c" "ver_done" "jose_b64_dec" "buf" "sizeof(buf)" (Sz "buf") (Sz "buf") []
          "uint8_t buf[(EC_GROUP_get_degree(..) + 7) / 8 * 2]";
  mk_site "lib/openssl/hmac.c" "jhmac" "jose_b64_dec" "key" "sizeof(key)" (Sz "key") (Sz "key") []
          "uint8_t key[KEYMAX]; keyl = jose_b64_dec(.., NULL, 0); if (keyl > KEYMAX) return (the bytes used afterwards are key[0..keyl))";
  mk_site "lib/openssl/hmac.c" "ver_done" "jose_b64_dec" "test" "sizeof(test)" (Sz "test") (Sz "test") []
          "uint8_t test[HMAC_size(i->hctx)]";
  mk_site "lib/openssl/jwk.c" "jose_openssl_jwk_to_EVP_PKEY" "jose_b64_dec" "buf" "len" (V "len") (V "len") []
          "len = jose_b64_dec(.., NULL, 0); if (len == SIZE_MAX) return NULL; buf = malloc(len)";
  mk_site "lib/openssl/misc.c" "bn_decode_json" "jose_b64_dec" "tmp" "len" (V "len") (V "len") []
          "len = jose_b64_dec(json, NULL, 0); if (len == SIZE_MAX) return NULL; tmp = calloc(1, len)";
  mk_site "lib/openssl/pbes2.c" "alg_wrap_unw" "jose_b64_dec" "st" "sizeof(st)" (Sz "st") (Sz "st") []
          "uint8_t st[KEYMAX]; stl = jose_b64_dec(.., NULL, 0); if (stl < 8 || stl > sizeof(st)) return";
  mk_site "lib/openssl/pbes2.c" "pbkdf2" "jose_b64_dec" "ky" "sizeof(ky)" (Sz "ky") (Sz "ky") []
          "uint8_t ky[KEYMAX]; kyl = jose_b64_dec(.., NULL, 0); if (kyl > sizeof(ky)) return";
  mk_site "lib/openssl/rsaes.c" "alg_wrap_unw" "jose_b64_dec" "ct" "ctl" (V "ctl") (V "ctl") []
          "ctl = jose_b64_dec(.., NULL, 0); if (ctl == SIZE_MAX) goto egress; ct = malloc(ctl)";
  mk_site "lib/openssl/rsaes.c" "alg_wrap_wrp" "jose_b64_dec" "pt" "ptl" (V "ptl") (V "ptl") []
          "ptl = jose_b64_dec(.., NULL, 0); if (ptl == SIZE_MAX) return; pt = malloc(ptl)";
  mk_site "lib/openssl/rsassa.c" "ver_done" "jose_b64_dec" "buf" "len" (V "len") (V "len") []
          "len = jose_b64_dec(sig, NULL, 0); if (len == SIZE_MAX) return false; buf = malloc(len)"
].

(* the length argument is the capacity itself, or the guard bounds it by the capacity *)
Definition site_ok (s : site) : bool :=
  sexpr_eqb (s_ol s) (s_cap s)
  || existsb (fun g => sexpr_eqb (fst g) (s_ol s) && sexpr_eqb (snd g) (s_cap s)) (s_guard s).

Definition guards_hold (e : senv) (s : site) : Prop :=
  Forall (fun g => seval e (fst g) <= seval e (snd g)) (s_guard s).

Lemma site_ok_sound s : site_ok s = true ->
  forall e, guards_hold e s -> seval e (s_ol s) <= seval e (s_cap s).
Proof.
  unfold site_ok. intros H e G. apply Bool.orb_true_iff in H. destruct H as [H|H].
  - apply sexpr_eqb_eq in H. rewrite H. lia.
  - apply existsb_exists in H. destruct H as (g & I & H). apply Bool.andb_true_iff in H. destruct H as [A B].
    apply sexpr_eqb_eq in A. apply sexpr_eqb_eq in B. rewrite <- A, <- B.
    unfold guards_hold in G. rewrite Forall_forall in G. exact (G g I).
Qed.

Lemma all_sites_ok : forallb site_ok sites = true.
Proof. vm_compute. reflexivity. Qed.

Theorem buffers_len_le_cap s e : In s sites -> guards_hold e s -> seval e (s_ol s) <= seval e (s_cap s).
Proof.
  intros I G. apply site_ok_sound; [|exact G].
  pose proof all_sites_ok as A. rewrite forallb_forall in A. exact (A s I).
Qed.

(* every byte the decoder stores at such a site lies inside the destination *)
Theorem buffers_writes_inside s e (text : bytes) :
  In s sites -> guards_hold e s ->
  Forall (fun iw => fst iw < seval e (s_cap s)) (writes (dec_buf text (Some (seval e (s_ol s))))).
Proof.
  intros I G. pose proof (buffers_len_le_cap s e I G) as L.
  eapply Forall_impl; [|apply dec_buf_bounds]. simpl. intros iw H. lia.
Qed.
