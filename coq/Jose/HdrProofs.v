(* C15: header merge precedence; the algorithm used is the one recorded. *)
From JoseV Require Import Jose.Jws Jose.Jwe Jose.Entity Jose.EntityProofs.
Local Open Scope N_scope.

(* ---- json_object_update_missing ------------------------------------------------------- *)

Lemma fold_missing_lookup (o : alist) : forall m k,
  NoDup (akeys o) ->
  alookup k (fold_left (fun acc kv => match alookup (fst kv) acc with
                                      | Some _ => acc
                                      | None => aset (fst kv) (snd kv) acc
                                      end) o m) =
  match alookup k m with Some v => Some v | None => alookup k o end.
Proof.
  induction o as [|[k' v'] o IH]; intros m k ND; cbn [fold_left alookup fst snd].
  - destruct (alookup k m); reflexivity.
  - inversion ND as [|? ? Hn ND']; subst. rewrite IH by exact ND'.
    destruct (alookup k' m) as [w|] eqn:E.
    + destruct (alookup k m) eqn:Ek; [reflexivity|].
      destruct (bytes_eqb k k') eqn:B; [apply bytes_eqb_eq in B; subst; congruence|reflexivity].
    + destruct (bytes_eqb k k') eqn:B.
      * apply bytes_eqb_eq in B. subst k'. rewrite alookup_aset_same. rewrite E. reflexivity.
      * rewrite alookup_aset_other by (intro; subst; rewrite bytes_eqb_refl in B; discriminate).
        reflexivity.
Qed.

Lemma update_missing_lookup pm hm r k :
  NoDup (akeys hm) -> jupdate_missing (JObj pm) (JObj hm) = Some r ->
  lookup k r = match alookup k pm with Some v => Some v | None => alookup k hm end.
Proof. intros ND H. cbn [jupdate_missing] in H. inversion H; subst. cbn [lookup]. apply fold_missing_lookup. exact ND. Qed.

(* ---- JWS: protected hides unprotected ---------------------------------------------------- *)

Definition first_some2 {A} (a b : option A) : option A := match a with Some x => Some x | None => b end.

Theorem jws_precedence sig pm hdr k :
  (lookup s_protected sig = Some (JObj pm) \/
   (exists s, lookup s_protected sig = Some (JStr s) /\ jose_b64_dec_load (JStr s) = Some (JObj pm)) \/
   (lookup s_protected sig = None /\ pm = [])) ->
  jws_hdr sig = Some hdr ->
  (forall hm, lookup s_header sig = Some (JObj hm) -> NoDup (akeys hm)) ->
  lookup k hdr = first_some2 (alookup k pm)
                   (match lookup s_header sig with Some (JObj hm) => alookup k hm | _ => None end).
Proof.
  intros P H NDh. unfold jws_hdr in H.
  assert (E : match lookup s_protected sig with
              | None => Some (JObj [])
              | Some (JObj m) => Some (JObj m)
              | Some (JStr s) => jose_b64_dec_load (JStr s)
              | Some _ => None
              end = Some (JObj pm)).
  { destruct P as [P|[(s & P & D)|[P ->]]]; rewrite P; auto. }
  rewrite E in H. destruct (lookup s_header sig) as [h|] eqn:Hh.
  - destruct h as [| | | | | |hm]; try discriminate.
    rewrite (update_missing_lookup pm hm hdr k (NDh hm eq_refl) H). unfold first_some2. reflexivity.
  - inversion H; subst. cbn [lookup]. unfold first_some2. destruct (alookup k pm); reflexivity.
Qed.

(* the merged header does not depend on whether protected is still an object or already encoded *)
Theorem jws_hdr_encoded_same m s pm :
  alookup s_protected m = Some (JStr s) -> jose_b64_dec_load (JStr s) = Some (JObj pm) ->
  jws_hdr (JObj m) = jws_hdr (JObj (aset s_protected (JObj pm) m)).
Proof.
  intros P D. unfold jws_hdr. cbn [lookup]. rewrite P, D. rewrite alookup_aset_same.
  rewrite alookup_aset_other by discriminate. reflexivity.
Qed.

(* ---- JWE: protected hides shared unprotected hides per-recipient ---------------------------- *)

Theorem jwe_precedence jwe rcp pm hdr k :
  (lookup s_protected jwe = Some (JObj pm) \/
   (exists s, lookup s_protected jwe = Some (JStr s) /\ jose_b64_dec_load (JStr s) = Some (JObj pm)) \/
   (lookup s_protected jwe = None /\ pm = [])) ->
  jwe_hdr jwe rcp = Some hdr ->
  (forall um, lookup s_unprotected jwe = Some (JObj um) -> NoDup (akeys um)) ->
  (forall r hm, rcp = Some r -> lookup s_header r = Some (JObj hm) -> NoDup (akeys hm)) ->
  lookup k hdr =
    first_some2 (alookup k pm)
      (first_some2 (match lookup s_unprotected jwe with Some (JObj um) => alookup k um | _ => None end)
                   (match rcp with
                    | Some r => match lookup s_header r with Some (JObj hm) => alookup k hm | _ => None end
                    | None => None
                    end)).
Proof.
  intros P H NDu NDh. unfold jwe_hdr in H.
  assert (E : match lookup s_protected jwe with
              | None => Some (JObj [])
              | Some (JObj m) => Some (JObj m)
              | Some (JStr s) => jose_b64_dec_load (JStr s)
              | Some _ => None
              end = Some (JObj pm)).
  { destruct P as [P|[(s & P & D)|[P ->]]]; rewrite P; auto. }
  rewrite E in H.
  (* first level *)
  assert (L1 : exists p1, (match lookup s_unprotected jwe with
                           | None => Some (JObj pm)
                           | Some s => jupdate_missing (JObj pm) s
                           end) = Some (JObj p1) /\
               forall k, alookup k p1 = first_some2 (alookup k pm)
                            (match lookup s_unprotected jwe with Some (JObj um) => alookup k um | _ => None end)).
  { destruct (lookup s_unprotected jwe) as [u|] eqn:U.
    - destruct u as [| | | | | |um]; try (rewrite U in H; discriminate H);
        try (cbn [jupdate_missing] in H; discriminate H).
      eexists. split; [reflexivity|]. intro k0. apply fold_missing_lookup. apply NDu. reflexivity.
    - exists pm. split; [reflexivity|]. intro k0. unfold first_some2. destruct (alookup k0 pm); reflexivity. }
  destruct L1 as (p1 & E1 & Lk1). rewrite E1 in H.
  destruct rcp as [r|].
  - destruct (lookup s_header r) as [h|] eqn:Hh.
    + destruct h as [| | | | | |hm]; try discriminate.
      rewrite (update_missing_lookup p1 hm hdr k (NDh r hm eq_refl Hh) H). rewrite Lk1.
      unfold first_some2. destruct (alookup k pm); [reflexivity|].
      destruct (match lookup s_unprotected jwe with Some (JObj um) => alookup k um | _ => None end); reflexivity.
    + inversion H; subst. cbn [lookup]. rewrite Lk1. unfold first_some2.
      destruct (alookup k pm); [reflexivity|].
      destruct (match lookup s_unprotected jwe with Some (JObj um) => alookup k um | _ => None end); reflexivity.
  - inversion H; subst. cbn [lookup]. rewrite Lk1. unfold first_some2.
    destruct (alookup k pm); [reflexivity|].
    destruct (match lookup s_unprotected jwe with Some (JObj um) => alookup k um | _ => None end); reflexivity.
Qed.

(* compression is honoured only when "zip" is in the (encoded) protected header *)
Theorem zip_protected_only jwe :
  (forall s, lookup s_protected jwe <> Some (JStr s)) -> protected_zip jwe = None.
Proof.
  intro H. unfold protected_zip. destruct (lookup s_protected jwe) as [p|]; [|reflexivity].
  destruct p; try reflexivity. exfalso. eapply H. reflexivity.
Qed.

Theorem zip_ignores_other_headers m v :
  protected_zip (JObj (aset s_unprotected v m)) = protected_zip (JObj m).
Proof. unfold protected_zip. cbn [lookup]. rewrite alookup_aset_other by discriminate. reflexivity. Qed.

(* ---- the algorithm used is the one recorded ---------------------------------------------------- *)

Lemma find_sign_name algs n a : find_sign algs n = Some a -> sa_name a = n.
Proof. unfold find_sign. intro H. apply find_some in H. destruct H as [_ H]. apply bytes_eqb_eq in H. exact H. Qed.

Definition str_name (o : option json) : option bytes := match o with Some (JStr x) => Some (cstr x) | _ => None end.

(* signing with a caller-supplied algorithm: it is the one applied, and the object is untouched *)
Theorem sig_alg_caller_respected algs sig jwk hdr h a s' :
  jws_hdr sig = Some hdr -> get_opt_str s_alg hdr = OStr h ->
  sig_find_alg algs sig jwk = Some (a, s') -> sa_name a = h /\ s' = sig.
Proof.
  intros H Hh F. unfold sig_find_alg in F. rewrite H, Hh in F.
  destruct (find_sign algs h) as [a0|] eqn:Fa; [|discriminate].
  apply find_sign_name in Fa.
  destruct (get_opt_str s_alg jwk); try discriminate.
  - destruct (jwk_prm jwk false (Some (sa_sprm a0))); [|discriminate]. inversion F; subst. auto.
  - destruct (bytes_eqb h s); [|discriminate]. destruct (jwk_prm jwk false (Some (sa_sprm a0))); [|discriminate].
    inversion F; subst. auto.
Qed.

(* signing with an inferred algorithm: it is written into the protected header (created if absent),
   where it takes precedence over anything in the unprotected header *)
Theorem sig_alg_inferred_recorded algs m jwk hdr a s' :
  jws_hdr (JObj m) = Some hdr -> (forall h, get_opt_str s_alg hdr <> OStr h) ->
  sig_find_alg algs (JObj m) jwk = Some (a, s') ->
  exists pm', s' = JObj (aset s_protected (JObj pm') m) /\ alookup s_alg pm' = Some (JStr (sa_name a)).
Proof.
  intros H Hh F. unfold sig_find_alg in F. rewrite H in F.
  destruct (get_opt_str s_alg hdr) as [|h|] eqn:G; [|exfalso; eapply Hh; reflexivity|].
  - destruct (somes (map (fun a0 => sa_sug a0 jwk) algs)) as [|n r]; [discriminate|].
    destruct (find_sign algs n) as [a0|] eqn:Fa; [|discriminate].
    set (p := match alookup s_protected m with Some p => p | None => JObj [] end) in *.
    destruct (jset s_alg (JStr (sa_name a0)) p) as [p'|] eqn:J; [|discriminate].
    assert (exists pm', p' = JObj pm' /\ alookup s_alg pm' = Some (JStr (sa_name a0))) as (pm' & -> & L).
    { unfold jset in J. destruct p; try discriminate. inversion J; subst. eexists. split; [reflexivity|apply alookup_aset_same]. }
    destruct (get_opt_str s_alg jwk); try discriminate.
    + destruct (jwk_prm jwk false (Some (sa_sprm a0))); [|discriminate]. inversion F; subst. eauto.
    + destruct (bytes_eqb n s); [|discriminate]. destruct (jwk_prm jwk false (Some (sa_sprm a0))); [|discriminate].
      inversion F; subst. eauto.
  - destruct (somes (map (fun a0 => sa_sug a0 jwk) algs)) as [|n r]; [discriminate|].
    destruct (find_sign algs n) as [a0|] eqn:Fa; [|discriminate].
    set (p := match alookup s_protected m with Some p => p | None => JObj [] end) in *.
    destruct (jset s_alg (JStr (sa_name a0)) p) as [p'|] eqn:J; [|discriminate].
    assert (exists pm', p' = JObj pm' /\ alookup s_alg pm' = Some (JStr (sa_name a0))) as (pm' & -> & L).
    { unfold jset in J. destruct p; try discriminate. inversion J; subst. eexists. split; [reflexivity|apply alookup_aset_same]. }
    destruct (get_opt_str s_alg jwk); try discriminate.
    + destruct (jwk_prm jwk false (Some (sa_sprm a0))); [|discriminate]. inversion F; subst. eauto.
    + destruct (bytes_eqb n s); [|discriminate]. destruct (jwk_prm jwk false (Some (sa_sprm a0))); [|discriminate].
      inversion F; subst. eauto.
Qed.

(* the suggestion consulted is the first answer in registry order, and the algorithm applied bears that name *)
Theorem sig_alg_inferred_is_suggestion algs m jwk hdr a s' :
  jws_hdr (JObj m) = Some hdr -> (forall h, get_opt_str s_alg hdr <> OStr h) ->
  sig_find_alg algs (JObj m) jwk = Some (a, s') ->
  exists n r, somes (map (fun a0 => sa_sug a0 jwk) algs) = n :: r /\ sa_name a = n.
Proof.
  intros H Hh F. unfold sig_find_alg in F. rewrite H in F.
  destruct (get_opt_str s_alg hdr) as [|h|] eqn:G; [|exfalso; eapply Hh; reflexivity|];
    (destruct (somes (map (fun a0 => sa_sug a0 jwk) algs)) as [|n r]; [discriminate|]);
    (destruct (find_sign algs n) as [a0|] eqn:Fa; [|discriminate]);
    apply find_sign_name in Fa;
    (destruct (jset s_alg (JStr (sa_name a0)) _) as [p'|]; [|discriminate]);
    (destruct (get_opt_str s_alg jwk); try discriminate);
    try (destruct (bytes_eqb n s); [|discriminate]);
    (destruct (jwk_prm jwk false (Some (sa_sprm a0))); [|discriminate]);
    inversion F; subst; eauto.
Qed.

(* content encryption: a caller-supplied enc is the one applied; an inferred one is written where the
   merged header will find it: into protected while that is still an object, else into shared unprotected *)
Lemma find_encr_name ealgs n a : find_encr ealgs n = Some a -> ea_name a = n.
Proof. unfold find_encr. intro H. apply find_some in H. destruct H as [_ H]. apply bytes_eqb_eq in H. exact H. Qed.

Theorem hdr_set_where m name v r :
  jwe_hdr_set (JObj m) name v = Some r ->
  match alookup s_protected m with
  | Some (JObj pm) => r = JObj (aset s_protected (JObj (aset name v pm)) m)
  | Some (JStr _) => exists um', r = JObj (aset s_unprotected (JObj um') m) /\ alookup name um' = Some v
  | None => match alookup s_unprotected m with
            | Some _ => exists um', r = JObj (aset s_unprotected (JObj um') m) /\ alookup name um' = Some v
            | None => r = JObj (aset s_protected (JObj [(name, v)]) m)
            end
  | Some _ => False
  end.
Proof.
  unfold jwe_hdr_set. destruct (alookup s_protected m) as [p|] eqn:P.
  - destruct p as [| | | |s| |pm]; try discriminate.
    + destruct (alookup s_unprotected m) as [u|]; [destruct u; try discriminate|]; intro H; inversion H; subst;
        eexists; (split; [reflexivity|]); [apply alookup_aset_same|cbn [alookup]; rewrite bytes_eqb_refl; reflexivity].
    + destruct (alookup s_unprotected m) as [u|]; [destruct u; try discriminate|]; intro H; inversion H; reflexivity.
  - destruct (alookup s_unprotected m) as [u|]; [destruct u; try discriminate|]; intro H; inversion H; subst.
    + eexists. split; [reflexivity|apply alookup_aset_same].
    + reflexivity.
Qed.

(* ---- a protected header that is ALREADY base64url text (since /repo 54a50c4 jose_jwe_enc_cek_io decodes it to look
   for "enc"; before, such a template was refused although jwe_hdr_set has the branch for it) *)

(* the caller's enc inside the encoded protected header is the one applied, and nothing is rewritten *)
Theorem enc_cek_encoded_caller ealgs m cek s pm h a :
  alookup s_protected m = Some (JStr s) -> jose_b64_dec_load (JStr s) = Some (JObj pm) ->
  alookup s_enc pm = Some (JStr h) -> alookup s_unprotected m = None ->
  get_opt_str s_alg cek = OAbsent -> find_encr ealgs (cstr h) = Some a ->
  jwk_prm cek false (Some (ea_eprm a)) = true ->
  enc_cek_prepare ealgs (JObj m) cek = Some (a, JObj m).
Proof.
  intros P D E U K F Pm. unfold enc_cek_prepare. rewrite P, D, E, U, K, F, Pm. cbn [negb].
  unfold encode_protected. rewrite P. reflexivity.
Qed.

(* an inferred enc is written into the shared unprotected header; the encoded protected header stays as it is *)
Theorem enc_cek_encoded_inferred ealgs m cek s pm k a :
  alookup s_protected m = Some (JStr s) -> jose_b64_dec_load (JStr s) = Some (JObj pm) ->
  alookup s_enc pm = None -> alookup s_unprotected m = None ->
  get_opt_str s_alg cek = OStr k -> find_encr ealgs k = Some a ->
  jwk_prm cek false (Some (ea_eprm a)) = true ->
  enc_cek_prepare ealgs (JObj m) cek =
    Some (a, JObj (aset s_unprotected (JObj [(s_enc, JStr (ea_name a))]) m)).
Proof.
  intros P D E U K F Pm. unfold enc_cek_prepare. rewrite P, D, E, U, K, F.
  unfold jwe_hdr_set. rewrite P, U, Pm. cbn [negb].
  unfold encode_protected.
  rewrite alookup_aset_other by (vm_compute; discriminate). rewrite P. reflexivity.
Qed.

(* text that does not decode to an object is refused *)
Theorem enc_cek_encoded_undecodable ealgs m cek s :
  alookup s_protected m = Some (JStr s) ->
  (forall pm, jose_b64_dec_load (JStr s) <> Some (JObj pm)) ->
  enc_cek_prepare ealgs (JObj m) cek = None.
Proof.
  intros P D. unfold enc_cek_prepare. rewrite P.
  destruct (jose_b64_dec_load (JStr s)) as [j|] eqn:L.
  - destruct j; try (exfalso; eapply D; reflexivity);
      match goal with |- match ?x with _ => _ end = None => destruct x; reflexivity end.
  - match goal with |- match ?x with _ => _ end = None => destruct x; reflexivity end.
Qed.
