(* Key management backed by public-key arithmetic over BigZ (vm_compute inside coqc; not extracted):
   ECDH-ES[+A*KW] (SEC 1 ECDH + Concat KDF of RFC 7518 4.6.2) and RSAES (PKCS1-v1_5 / OAEP) with the
   private exponentiation supplied as a checked witness. *)
From JoseV Require Export Jose.EncAlgs Jose.PkAlgs.
From JoseV Require Import Jose.Stubs Gen.Tables Gen.Consts Crypto.BigNum Crypto.Rsa Crypto.Ec Crypto.ConcatKdf Crypto.Mgf.
Local Open Scope N_scope.

(* the ECDH exchange of a private key with a public one on the same named curve: Z = x coordinate, fixed width *)
Definition ecdh_x (prv pub : json) : option bytes :=
  match get_opt_str s_crv prv, get_opt_str s_crv pub with
  | OStr c1, OStr c2 =>
      if bytes_eqb c1 c2 then
        match curve_by_name c1, ec_pub prv, ec_pub pub, b64m s_d prv with
        | Some cv, Some _, Some (_, x, y), Some d =>
            match ecdh B (curve_of B cv) (of_bytes B d) x y with
            | Some (zx, _) => to_bytes B zx (bytes_len cv)
            | None => None
            end
        | _, _, _, _ => None
        end
      else None
  | _, _ => None
  end.

Definition opt_b64 (name : bytes) (hdr : json) : option bytes :=
  match lookup name hdr with
  | None => Some []
  | Some (JStr s) => match dec s with Some b => if blen b <=? keymax then Some b else None | None => None end
  | Some _ => None
  end.

Definition ecdhes_keylen (name enc : bytes) : option N :=
  if bytes_eqb name n_ECDHES then enc_key_len enc
  else if bytes_eqb name n_ECDHES128 then Some 16 else if bytes_eqb name n_ECDHES192 then Some 24 else Some 32.

(* derive(): Concat KDF with SHA-256 over Z, AlgorithmID (enc for direct agreement, else the alg name), apu, apv, keydatalen *)
Definition ecdhes_derive (name : bytes) (hdr cek : json) (z : bytes) : option json :=
  let enc := match get_opt_str Jwe.s_enc hdr with
             | OStr e => Some e
             | OAbsent => match get_opt_str s_alg cek with OStr e => Some e | _ => None end
             | OBad => None
             end in
  match enc with
  | None => None
  | Some e =>
      match ecdhes_keylen name e, opt_b64 s_apu hdr, opt_b64 s_apv hdr with
      | Some dkl, Some pu, Some pv =>
          if (dkl <? 16) || (keymax <? dkl) then None
          else
            let algid := if bytes_eqb name n_ECDHES then e else name in
            let dk := concatkdf SHA256 z (jose_otherinfo algid pu pv (dkl * 8)) dkl in
            match jose_b64_enc dk with
            | Some k => Some (JObj [(Jwe.s_kty, JStr t_oct); (s_alg, JStr e); (s_k, k)])
            | None => None
            end
      | _, _, _ => None
      end
  end.

Definition ecdhes_unw (name : bytes) (jwe rcp jwk cek : json) : option json :=
  match jwe_hdr jwe (Some rcp) with
  | None => None
  | Some hdr =>
      match lookup s_epk hdr with
      | None => None
      | Some epk =>
          match lookup s_d jwk with
          | Some _ =>
              match ecdh_x jwk epk with
              | Some z =>
                  match ecdhes_derive name hdr cek z with
                  | Some der =>
                      if bytes_eqb name n_ECDHES then jupdate cek der
                      else aeskw_unw (if bytes_eqb name n_ECDHES128 then n_A128KW else if bytes_eqb name n_ECDHES192 then n_A192KW else n_A256KW)
                                     rcp der cek
                  | None => None
                  end
              | None => None
              end
          | None => None      (* "external exchange" (a pre-computed point as key) is not modelled *)
          end
      end
  end.

(* RSAES: the witness w claims w = c^d mod n as k octets; checked with the public exponent *)
Definition rsa_hash (name : bytes) : hname :=
  if bytes_eqb name n_RSAOAEP224 then SHA224 else if bytes_eqb name n_RSAOAEP256 then SHA256
  else if bytes_eqb name n_RSAOAEP384 then SHA384 else if bytes_eqb name n_RSAOAEP512 then SHA512 else SHA1.

Definition rsaes_unw_w (name : bytes) (rcp jwk cek : json) (w : bytes) : option json :=
  match rsa_pub jwk, member_bytes s_encrypted_key rcp with
  | Some (n, e), Some ct =>
      let h := rsa_hash name in
      let m := if bytes_eqb name n_RSA1_5 then rsaes_pkcs1_v15_decrypt_w B n e ct w
               else rsaes_oaep_decrypt_w B (hash h) (hash_len h) (mgf1 h) [] n e ct w in
      match m with Some k => set_k cek k | None => None end
  | _, _ => None
  end.

Definition pk_wrap_algs (witness : bytes) : list wrap_alg :=
  map (fun e =>
         let nm := a_name e in
         {| wa_name := nm; wa_eprm := oget (a_prm1 e); wa_dprm := oget (a_prm2 e);
            wa_alg := wrap_alg_of nm; wa_enc := wrap_enc_of nm;
            wa_wrp := fun _ _ _ _ _ => None;
            wa_unw := if mem nm ecdhes_names then ecdhes_unw nm
                      else if mem nm rsaes_names then fun _ rcp jwk cek => rsaes_unw_w nm rcp jwk cek witness
                      else wrap_unw_of nm |})
      (filter (is_kind KWrap) alg_registry).

(* entry point for case files: (Some (Some plaintext)) | Some None = refused | None = bad JSON *)
Definition pk_jwe_dec (jwe_text jwk_text witness : bytes) : option (option bytes) :=
  match parse_proto jwe_text, parse_proto jwk_text with
  | Some jwe, Some jwk => Some (jwe_dec_with (pk_wrap_algs witness) jwe None jwk)
  | _, _ => None
  end.
