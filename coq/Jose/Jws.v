(* lib/jws.c: header merge, algorithm choice, signing, verification (the
   composition; the primitives are the functions of a [sign_alg] record). *)
From JoseV Require Export Base.Json Base.JsonDump Codec.B64Json Io.Chain Jose.Entity Jwk.Prm.
Local Open Scope N_scope.

Definition s_alg : bytes := [97; 108; 103].
Definition s_payload : bytes := [112; 97; 121; 108; 111; 97; 100].
Definition s_keys : bytes := [107; 101; 121; 115].

(* one registered signature algorithm (a jose_hook_alg_t of kind SIGN) *)
Record sign_alg := {
  sa_name : bytes;
  sa_sprm : bytes;
  sa_vprm : bytes;
  sa_sug : json -> option bytes;               (* sign.sug(jwk) *)
  sa_sig_ok : json -> bool;                    (* sign.sig() returns an IO object for this key *)
  sa_ver_ok : json -> bool;                    (* sign.ver() returns an IO object for this key *)
  sa_sign : json -> bytes -> bytes -> option bytes;   (* key, randomness, signing input -> signature octets *)
  sa_verify : json -> bytes -> bytes -> bool          (* key, signing input, signature octets *)
}.

(* decoding a JSON member holding base64url (jose_b64_dec on it): None on a non-string or bad text *)
Definition b64_member (j : json) : option bytes :=
  match j with
  | JStr s => dec s
  | _ => None
  end.

(* json_unpack "{s?s}": Error if present and not a string *)
Inductive opt_str := OAbsent | OStr (s : bytes) | OBad.
Definition get_opt_str (k : bytes) (j : json) : opt_str :=
  match j with
  | JObj m => match alookup k m with
              | None => OAbsent
              | Some (JStr s) => OStr (cstr s)
              | Some _ => OBad
              end
  | _ => OBad          (* unpacking a non-object (or NULL) fails *)
  end.

(* jose_jws_hdr *)
Definition jws_hdr (sig : json) : option json :=
  let p := match lookup s_protected sig with
           | None => Some (JObj [])
           | Some (JObj m) => Some (JObj m)
           | Some (JStr s) => jose_b64_dec_load (JStr s)
           | Some _ => None
           end in
  match p with
  | Some (JObj pm) =>
      match lookup s_header sig with
      | None => Some (JObj pm)
      | Some h => jupdate_missing (JObj pm) h
      end
  | _ => None
  end.

Section Jws.
  Variable algs : list sign_alg.     (* in registry order *)

  Definition find_sign (name : bytes) : option sign_alg :=
    find (fun a => bytes_eqb (sa_name a) name) algs.

  (* the key list of a key argument: Some keys for an array or a JWKSet, None for a single key *)
  Definition key_list (jwk : json) : option (list json) :=
    match jwk with
    | JArr l => Some l
    | _ => match lookup s_keys jwk with Some (JArr l) => Some l | _ => None end
    end.

  (* prefix(): the verifier/signer starts with protected || "." already fed *)
  Definition prefix_bytes (sig : json) : option bytes :=
    match sig with
    | JObj m => match alookup s_protected m with
                | None => Some [46]
                | Some (JStr s) => Some (s ++ [46])
                | Some _ => None
                end
    | _ => None
    end.

  (* ---- verification ---------------------------------------------------------------- *)

  (* the terminal verify stage: accumulates, decides at done *)
  Definition ver_leaf (a : sign_alg) (sig jwk : json) (pre : bytes) : chain :=
    Stage (atdone_T (fun input =>
             match lookup s_signature sig with
             | None => None
             | Some sv => match b64_member sv with
                          | None => None
                          | Some sg => if sa_verify a jwk input sg then Some [] else None
                          end
             end)) pre (Sink (SMalloc [])).

  (* one signature object, one key *)
  Definition ver_single (sig jwk : json) : option chain :=
    match sig with
    | JObj _ =>
        match get_opt_str s_alg jwk with
        | OBad => None
        | kalg =>
            match jws_hdr sig with
            | None => None
            | Some hdr =>
                match get_opt_str s_alg hdr with
                | OBad => None
                | halg =>
                    let chosen :=
                      match halg, kalg with
                      | OAbsent, OStr k => Some k
                      | OAbsent, _ => None
                      | OStr h, OStr k => if bytes_eqb h k then Some h else None   (* declared alg must match *)
                      | OStr h, _ => Some h
                      | OBad, _ => None
                      end in
                    match chosen with
                    | None => None
                    | Some name =>
                        match find_sign name with
                        | None => None
                        | Some a =>
                            if negb (jwk_prm jwk false (Some (sa_vprm a))) then None
                            else if negb (sa_ver_ok a jwk) then None
                            else match prefix_bytes sig with
                                 | Some pre => Some (ver_leaf a sig jwk pre)
                                 | None => None
                                 end
                        end
                    end
                end
            end
        end
    | _ => None
    end.

  Fixpoint somes {A} (l : list (option A)) : list A :=
    match l with
    | [] => []
    | Some x :: r => x :: somes r
    | None :: r => somes r
    end.

  Definition plex_of (all : bool) (cs : list chain) : chain := Plex all (map (fun c => (true, c)) cs).

  (* sig = NULL: every signature object of the JWS (or the JWS itself when flattened), any of them *)
  Definition ver_nosig (jws jwk : json) : option chain :=
    match lookup s_signatures jws with
    | Some (JArr l) => Some (plex_of false (somes (map (fun s => ver_single s jwk) l)))
    | _ => ver_single jws jwk
    end.

  (* sig: None = NULL *)
  Definition ver_one (jws : json) (sig : option json) (jwk : json) : option chain :=
    match sig with
    | None => ver_nosig jws jwk
    | Some s => ver_single s jwk
    end.

  Definition ver_io (jws : json) (sig : option json) (jwk : json) (all : bool) : option chain :=
    match key_list jwk with
    | Some keys =>
        let sigs : option (list (option json)) :=
          match sig with
          | Some (JArr sl) => if Nat.eqb (length sl) (length keys) then Some (map Some sl) else None
          | Some (JObj m) => Some (map (fun _ => Some (JObj m)) keys)
          | Some _ => Some (map (fun _ => None) keys)     (* json_array_get of a non-array is NULL *)
          | None => Some (map (fun _ => None) keys)
          end in
        match sigs with
        | None => None
        | Some sl =>
            let ios := map (fun sk => ver_one jws (fst sk) (snd sk)) (combine sl keys) in
            if all && existsb (fun o => match o with None => true | Some _ => false end) ios then None
            else Some (plex_of all (somes ios))
        end
    | None => ver_one jws sig jwk
    end.

  (* jose_jws_ver: one-shot *)
  Definition jws_ver (jws : json) (sig : option json) (jwk : json) (all : bool) : bool :=
    match lookup s_payload jws with
    | Some (JStr pay) =>
        match ver_io jws sig jwk all with
        | Some c => snd (runc c [pay])
        | None => false
        end
    | _ => false
    end.

  (* ---- signing ------------------------------------------------------------------------ *)

  (* find_alg: returns the algorithm and the (possibly updated) signature object *)
  Definition sig_find_alg (sig jwk : json) : option (sign_alg * json) :=
    match jws_hdr sig with
    | None => None
    | Some hdr =>
        let found :=
          match get_opt_str s_alg hdr with
          | OStr h => match find_sign h with Some a => Some (a, sig, h) | None => None end
          | _ =>
              (* ask every signature algorithm for a suggestion, first answer wins *)
              match somes (map (fun a => sa_sug a jwk) algs) with
              | [] => None
              | h :: _ =>
                  match find_sign h with
                  | None => None
                  | Some a =>
                      (* record it in the protected header (created if absent) *)
                      match sig with
                      | JObj m =>
                          let p := match alookup s_protected m with Some p => p | None => JObj [] end in
                          match jset s_alg (JStr (sa_name a)) p with
                          | Some p' => Some (a, JObj (aset s_protected p' m), h)
                          | None => None
                          end
                      | _ => None
                      end
                  end
              end
          end in
        match found with
        | None => None
        | Some (a, sig', h) =>
            match get_opt_str s_alg jwk with
            | OBad => None
            | OStr k => if bytes_eqb h k then
                          (if jwk_prm jwk false (Some (sa_sprm a)) then Some (a, sig') else None)
                        else None
            | OAbsent => if jwk_prm jwk false (Some (sa_sprm a)) then Some (a, sig') else None
            end
        end
    end.

  (* one key: returns the new JWS (the signature is a function of the signing input, so the
     one-shot result is given directly; streaming independence is C07's atdone stage) *)
  Definition sig_single (jws : json) (sig : option json) (jwk : json) (rnd pay : bytes) : option json :=
    let s := match sig with Some s => s | None => JObj [] end in
    match s with
    | JObj _ =>
        match sig_find_alg s jwk with
        | None => None
        | Some (a, s1) =>
            match encode_protected s1 with
            | None => None
            | Some s2 =>
                if negb (sa_sig_ok a jwk) then None
                else match prefix_bytes s2 with
                     | None => None
                     | Some pre =>
                         match sa_sign a jwk rnd (pre ++ pay) with
                         | None => None
                         | Some sg =>
                             match jose_b64_enc sg with
                             | None => None
                             | Some e =>
                                 match jset s_signature e s2 with
                                 | Some s3 => add_signature jws s3
                                 | None => None
                                 end
                             end
                         end
                     end
            end
        end
    | _ => None
    end.
End Jws.
