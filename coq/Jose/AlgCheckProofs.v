(* C05: a key that declares an algorithm is refused whenever the header (or the
   peer key) names a different one -- for all strings, at every entry point. *)
From JoseV Require Import Jose.Jws Jose.Jwe Jwk.Exc Jwk.Prm.
Local Open Scope N_scope.

Lemma eqb_neq a b : a <> b -> bytes_eqb a b = false.
Proof. intro H. destruct (bytes_eqb a b) eqn:E; [apply bytes_eqb_eq in E; contradiction|reflexivity]. Qed.

(* verification *)
Theorem ver_alg_mismatch algs sig jwk hdr h k :
  get_opt_str s_alg jwk = OStr k -> jws_hdr sig = Some hdr -> get_opt_str s_alg hdr = OStr h ->
  h <> k -> ver_single algs sig jwk = None.
Proof.
  intros K H Hh N. unfold ver_single. destruct sig; try reflexivity.
  rewrite K, H, Hh. rewrite (eqb_neq _ _ N). reflexivity.
Qed.

(* signing *)
Theorem sig_alg_mismatch algs sig jwk hdr h k :
  jws_hdr sig = Some hdr -> get_opt_str s_alg hdr = OStr h -> get_opt_str s_alg jwk = OStr k ->
  h <> k -> sig_find_alg algs sig jwk = None.
Proof.
  intros H Hh K N. unfold sig_find_alg. rewrite H, Hh.
  destruct (find_sign algs h) as [a|]; [|reflexivity]. rewrite K. rewrite (eqb_neq _ _ N). reflexivity.
Qed.

(* an inferred algorithm never bypasses the key's declaration either: the suggestion hooks
   are consulted only when the header names none, and the comparison still happens *)
Theorem sig_alg_mismatch_inferred algs sig jwk hdr a s k :
  sig_find_alg algs sig jwk = Some (a, s) -> jws_hdr sig = Some hdr -> get_opt_str s_alg jwk = OStr k ->
  (match get_opt_str s_alg hdr with OStr h => h = k | _ => True end).
Proof.
  unfold sig_find_alg. intros F H K. rewrite H in F.
  destruct (get_opt_str s_alg hdr) as [|h|]; try exact I.
  destruct (find_sign algs h); [|discriminate]. rewrite K in F.
  destruct (bytes_eqb h k) eqn:E; [apply bytes_eqb_eq in E; exact E|discriminate].
Qed.

(* unwrapping: refused when neither the header's alg nor its enc equals the key's alg *)
Theorem dec_jwk_alg_mismatch walgs jwe rcp jwk hdr h k :
  jwe_hdr jwe (Some rcp) = Some hdr -> get_opt_str s_alg hdr = OStr h ->
  lookup s_alg jwk = Some (JStr k) -> h <> cstr k ->
  (match get_opt_str s_enc hdr with OStr e => e <> cstr k | _ => True end) ->
  dec_jwk_single walgs jwe rcp jwk = None.
Proof.
  intros H Hh K N Ne. unfold dec_jwk_single. rewrite H, Hh, K.
  destruct (get_opt_str s_enc hdr) as [|e|]; try reflexivity.
  - rewrite (eqb_neq _ _ N). reflexivity.
  - rewrite (eqb_neq _ _ N), (eqb_neq _ _ Ne). reflexivity.
Qed.

(* content decryption *)
Theorem dec_cek_alg_mismatch ealgs inflate jwe cek ct hdr h k :
  jwe_hdr jwe None = Some hdr -> get_opt_str s_enc hdr = OStr h -> get_opt_str s_alg cek = OStr k ->
  h <> k -> dec_cek_octets ealgs inflate jwe cek ct = None.
Proof.
  intros H Hh K N. unfold dec_cek_octets. rewrite H, Hh, K. rewrite (eqb_neq _ _ N). reflexivity.
Qed.

(* content encryption: the header's enc (protected first, else shared unprotected) against the CEK's alg *)
Theorem enc_cek_alg_mismatch ealgs m cek pm h k :
  alookup s_protected m = Some (JObj pm) -> alookup s_enc pm = Some (JStr h) ->
  (match alookup s_unprotected m with
   | None => True
   | Some (JObj um) => match alookup s_enc um with None | Some (JStr _) => True | _ => False end
   | _ => False end) ->
  get_opt_str s_alg cek = OStr k -> cstr h <> k ->
  enc_cek_prepare ealgs (JObj m) cek = None.
Proof.
  intros P E U K N. unfold enc_cek_prepare. rewrite P, E, K.
  destruct (alookup s_unprotected m) as [u|].
  - destruct u; try contradiction. destruct (alookup s_enc m0) as [v|].
    + destruct v; try contradiction. rewrite (eqb_neq _ _ N). reflexivity.
    + rewrite (eqb_neq _ _ N). reflexivity.
  - rewrite (eqb_neq _ _ N). reflexivity.
Qed.

(* key exchange: the two keys' declarations against each other *)
Theorem exc_alg_mismatch xalgs prv pub ta tb a b :
  unpack_kty_alg prv = Some (ta, Some a) -> unpack_kty_alg pub = Some (tb, Some b) -> a <> b ->
  jwk_exc xalgs prv pub = None.
Proof.
  intros A B N. unfold jwk_exc. rewrite A, B. destruct (negb (bytes_eqb ta tb)); [reflexivity|].
  rewrite (eqb_neq _ _ N). reflexivity.
Qed.

Theorem exc_kty_mismatch xalgs prv pub ta tb a b :
  unpack_kty_alg prv = Some (ta, a) -> unpack_kty_alg pub = Some (tb, b) -> ta <> tb ->
  jwk_exc xalgs prv pub = None.
Proof. intros A B N. unfold jwk_exc. rewrite A, B. rewrite (eqb_neq _ _ N). reflexivity. Qed.

(* permission refusals *)
Theorem ver_denied algs sig jwk c :
  ver_single algs sig jwk = Some c ->
  exists a, In a algs /\ jwk_prm jwk false (Some (sa_vprm a)) = true.
Proof.
  unfold ver_single. destruct sig; try discriminate.
  destruct (get_opt_str s_alg jwk) eqn:K; try discriminate;
  destruct (jws_hdr (JObj m)) as [hdr|]; try discriminate;
  destruct (get_opt_str s_alg hdr) eqn:Hh; try discriminate;
  try (destruct (bytes_eqb s0 s)); try discriminate;
  match goal with |- context [find_sign algs ?n] => destruct (find_sign algs n) as [a|] eqn:F; [|discriminate] end;
  (destruct (jwk_prm jwk false (Some (sa_vprm a))) eqn:P; [|discriminate]);
  intros _; exists a; (split; [|exact P]); unfold find_sign in F; apply find_some in F; tauto.
Qed.

Theorem sig_denied algs sig jwk a s :
  sig_find_alg algs sig jwk = Some (a, s) -> jwk_prm jwk false (Some (sa_sprm a)) = true.
Proof.
  unfold sig_find_alg. destruct (jws_hdr sig) as [hdr|]; [|discriminate].
  set (found := match get_opt_str s_alg hdr with OStr h => _ | _ => _ end).
  destruct found as [[[a' s'] h]|]; [|discriminate].
  destruct (get_opt_str s_alg jwk); try discriminate.
  - destruct (jwk_prm jwk false (Some (sa_sprm a'))) eqn:P; [|discriminate]. intro H; inversion H; subst. exact P.
  - destruct (bytes_eqb h s0); [|discriminate].
    destruct (jwk_prm jwk false (Some (sa_sprm a'))) eqn:P; [|discriminate]. intro H; inversion H; subst. exact P.
Qed.

Theorem exc_denied xalgs prv pub r :
  jwk_exc xalgs prv pub = Some r ->
  exists a, In a xalgs /\ jwk_prm prv false (Some (xa_prm a)) = true /\ jwk_prm pub false (Some (xa_prm a)) = true.
Proof.
  unfold jwk_exc. destruct (unpack_kty_alg prv) as [[ta a]|]; [|discriminate].
  destruct (unpack_kty_alg pub) as [[tb b]|]; [|discriminate].
  destruct (negb (bytes_eqb ta tb)); [discriminate|].
  match goal with |- context [if ?c then None else _] => destruct c; [discriminate|] end.
  match goal with |- context [match ?nm with Some _ => _ | None => None end = _] => destruct nm as [n0|]; [|discriminate] end.
  destruct (find _ xalgs) as [x|] eqn:F; [|discriminate].
  destruct (jwk_prm prv false (Some (xa_prm x))) eqn:P1; [|discriminate].
  destruct (jwk_prm pub false (Some (xa_prm x))) eqn:P2; [|discriminate].
  cbn [negb]. intros _. exists x. apply find_some in F. tauto.
Qed.
