(* lib/openssl/misc.c add_entity() and lib/misc.c encode_protected(): how a
   signature / recipient object is merged into a JWS / JWE. *)
From JoseV Require Export Base.Json Base.JsonDump Codec.B64Json.
Local Open Scope N_scope.

Definition alist := list (bytes * json).

(* move every listed member that is present from the root into a fresh object *)
Fixpoint migrate (keys : list bytes) (m o : alist) : alist * alist :=
  match keys with
  | [] => (m, o)
  | k :: r =>
      match alookup k m with
      | Some v => migrate r (adel k m) (aset k v o)
      | None => migrate r m o
      end
  end.

Definition any_key (keys : list bytes) (m : alist) : bool :=
  existsb (fun k => match alookup k m with Some _ => true | None => false end) keys.

(* returns the new root, None for `false` *)
Definition add_entity (root obj : json) (plural : bytes) (keys : list bytes) : option json :=
  match root with
  | JObj m =>
      (* pl = json_object_get(root, plural); must be an array; an empty one is deleted *)
      match (match alookup plural m with
             | None => Some (m, None)
             | Some (JArr []) => Some (adel plural m, None)
             | Some (JArr l) => Some (m, Some l)
             | Some _ => None
             end) with
      | None => None
      | Some (m1, pl) =>
          let found := any_key keys m1 in
          let '(m2, pl2) :=
            if found then
              (* flattened -> general: a new first element takes the listed members *)
              let '(m', o) := migrate keys (match pl with
                                            | Some _ => m1
                                            | None => aset plural (JArr []) m1
                                            end) [] in
              (m', Some (match pl with Some l => l | None => [] end ++ [JObj o]))
            else (m1, pl) in
          match pl2 with
          | Some l => Some (JObj (aset plural (JArr (l ++ [obj])) m2))
          | None => jupdate (JObj m2) obj
          end
      end
  | _ => None
  end.

Definition s_protected : bytes := [112; 114; 111; 116; 101; 99; 116; 101; 100].
Definition s_header : bytes := [104; 101; 97; 100; 101; 114].
Definition s_signature : bytes := [115; 105; 103; 110; 97; 116; 117; 114; 101].
Definition s_signatures : bytes := s_signature ++ [115].
Definition s_encrypted_key : bytes := [101; 110; 99; 114; 121; 112; 116; 101; 100; 95; 107; 101; 121].
Definition s_recipients : bytes := [114; 101; 99; 105; 112; 105; 101; 110; 116; 115].

Definition jws_keys : list bytes := [s_signature; s_protected; s_header].
Definition jwe_keys : list bytes := [s_header; s_encrypted_key].

Definition add_signature (jws sig : json) : option json := add_entity jws sig s_signatures jws_keys.
Definition add_recipient (jwe rcp : json) : option json := add_entity jwe rcp s_recipients jwe_keys.

(* lib/misc.c encode_protected: returns the new object, None for `false` *)
Definition encode_protected (obj : json) : option json :=
  match obj with
  | JObj m =>
      match alookup s_protected m with
      | None => Some obj
      | Some (JStr _) => Some obj
      | Some (JObj p) =>
          match jose_b64_enc_dump (JObj p) with
          | Some e => Some (JObj (aset s_protected e m))
          | None => None
          end
      | Some _ => None
      end
  | _ => None     (* json_unpack(obj, "{s?o}") fails on a non-object *)
  end.
