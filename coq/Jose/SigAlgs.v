(* Concrete signature algorithms for the executable model: the HMAC family completely
   (Gallina HMAC-SHA2); the others only as far as the extracted driver needs them (names,
   permissions, suggestions -- their primitives run through the BigZ route, Jose/PkAlgs.v). *)
From JoseV Require Export Jose.Jws Jose.Suggest Crypto.Sha Crypto.Hmac.
From JoseV Require Import Jose.Stubs Gen.Tables.
Local Open Scope N_scope.

Definition hs_hash (name : bytes) : hname :=
  if bytes_eqb name n_HS256 then SHA256 else if bytes_eqb name n_HS384 then SHA384 else SHA512.

Definition oct_key (jwk : json) : option bytes :=
  match lookup s_k jwk with Some (JStr s) => dec s | _ => None end.

Definition hs_alg (name : bytes) (sprm vprm : bytes) : sign_alg := {|
  sa_name := name; sa_sprm := sprm; sa_vprm := vprm;
  sa_sug := hmac_sug;
  sa_sig_ok := sig_key_ok name;
  sa_ver_ok := sig_key_ok name;
  sa_sign := fun jwk _ m => match oct_key jwk with Some k => Some (hmac (hs_hash name) k m) | None => None end;
  sa_verify := fun jwk m sg => match oct_key jwk with Some k => bytes_eqb sg (hmac (hs_hash name) k m) | None => false end
|}.

(* the registry in its own order; non-HMAC entries carry the real suggestion hook and structural
   key test, but no primitive (the extracted driver is never asked to run them) *)
Definition real_sign_algs : list sign_alg :=
  map (fun e =>
         if mem (a_name e) hs_names then hs_alg (a_name e) (oget (a_prm1 e)) (oget (a_prm2 e))
         else {| sa_name := a_name e; sa_sprm := oget (a_prm1 e); sa_vprm := oget (a_prm2 e);
                 sa_sug := sign_sug_of (a_name e);
                 sa_sig_ok := fun _ => false; sa_ver_ok := fun _ => false;
                 sa_sign := fun _ _ _ => None; sa_verify := fun _ _ _ => false |})
      (filter (is_kind KSign) alg_registry).

(* jose_jws_sig with a key set: one deep copy of the template per key (or the i-th template of an
   array of the same length), signatures added in key order *)
Definition sig_io_keys (algs : list sign_alg) (jws : json) (sig : option json) (keys : list json) (rnd pay : bytes) : option json :=
  let tmpls : option (list (option json)) :=
    match sig with
    | Some (JArr sl) => if Nat.eqb (length sl) (length keys) then Some (map Some sl) else None
    | other => Some (map (fun _ => other) keys)
    end in
  match tmpls with
  | None => None
  | Some tl =>
      (* an empty key set gives a multiplexer without branches, whose feed fails *)
      match keys with
      | [] => None
      | _ =>
      (* every signer is constructed first (find_alg, key checks); only then is the payload fed *)
      fold_left (fun acc tk => match acc with
                               | None => None
                               | Some j => sig_single algs j (fst tk) (snd tk) rnd pay
                               end) (combine tl keys) (Some jws)
      end
  end.

Definition jws_sig (algs : list sign_alg) (jws : json) (sig : option json) (jwk : json) (rnd : bytes) : option json :=
  match lookup s_payload jws with
  | Some (JStr pay) =>
      match key_list jwk with
      | Some keys => sig_io_keys algs jws sig keys rnd pay
      | None => sig_single algs jws sig jwk rnd pay
      end
  | _ => None
  end.
