(* lib/jwe.c: header merge, algorithm choice, wrapping, content encryption and
   the reverse (the composition; primitives are functions of the alg records). *)
From JoseV Require Export Jose.Jws.
Local Open Scope N_scope.

Definition s_unprotected : bytes := [117; 110; 112; 114; 111; 116; 101; 99; 116; 101; 100].
Definition s_enc : bytes := [101; 110; 99].
Definition s_zip : bytes := [122; 105; 112].
Definition s_ciphertext : bytes := [99; 105; 112; 104; 101; 114; 116; 101; 120; 116].
Definition s_kty : bytes := [107; 116; 121].
Definition s_oct : bytes := [111; 99; 116].
Definition s_encrypt : bytes := [101; 110; 99; 114; 121; 112; 116].
Definition s_decrypt : bytes := [100; 101; 99; 114; 121; 112; 116].
Definition s_DEF : bytes := [68; 69; 70].

Record wrap_alg := {
  wa_name : bytes;
  wa_eprm : bytes;
  wa_dprm : bytes;
  wa_alg : json -> option bytes;                 (* wrap.alg(jwk): suggestion by key *)
  wa_enc : json -> option bytes;                 (* wrap.enc(jwk): default content encryption *)
  (* wrp(jwe, rcp, jwk, cek) with randomness: new jwe and cek, None = false *)
  wa_wrp : json -> json -> json -> json -> bytes -> option (json * json);
  (* unw(jwe, rcp, jwk, cek): the cek filled in, None = false *)
  wa_unw : json -> json -> json -> json -> option json
}.

Record encr_alg := {
  ea_name : bytes;
  ea_eprm : bytes;
  ea_dprm : bytes;
  ea_sug : json -> option bytes;                 (* encr.sug(cek) *)
  (* enc(jwe, cek) on the whole (possibly compressed) plaintext with randomness:
     (jwe with iv/tag set, ciphertext octets) *)
  ea_enc : json -> json -> bytes -> bytes -> option (json * bytes);
  (* dec(jwe, cek) on the ciphertext octets *)
  ea_dec : json -> json -> bytes -> option bytes
}.

(* jose_jwe_hdr: rcp None = NULL *)
Definition jwe_hdr (jwe : json) (rcp : option json) : option json :=
  let p := match lookup s_protected jwe with
           | None => Some (JObj [])
           | Some (JObj m) => Some (JObj m)
           | Some (JStr s) => jose_b64_dec_load (JStr s)
           | Some _ => None
           end in
  match p with
  | Some (JObj pm) =>
      let p1 := match lookup s_unprotected jwe with
                | None => Some (JObj pm)
                | Some s => jupdate_missing (JObj pm) s
                end in
      match p1 with
      | None => None
      | Some p1 =>
          match (match rcp with Some r => lookup s_header r | None => None end) with
          | None => Some p1
          | Some h => jupdate_missing p1 h
          end
      end
  | _ => None
  end.

(* "zip" is looked up in the decoded protected header only *)
Definition protected_zip (jwe : json) : option bytes :=
  match lookup s_protected jwe with
  | Some (JStr s) =>
      match jose_b64_dec_load (JStr s) with
      | Some (JObj pm) => match alookup s_zip pm with Some (JStr z) => Some (cstr z) | _ => None end
      | _ => None
      end
  | _ => None
  end.

Section Jwe.
  Variable walgs : list wrap_alg.
  Variable ealgs : list encr_alg.
  Variable deflate : bytes -> bytes.
  Variable inflate : bytes -> option bytes.

  Definition find_wrap (name : bytes) : option wrap_alg := find (fun a => bytes_eqb (wa_name a) name) walgs.
  Definition find_encr (name : bytes) : option encr_alg := find (fun a => bytes_eqb (ea_name a) name) ealgs.

  (* jwe_hdr_set_new: where a chosen "enc" is recorded *)
  Definition jwe_hdr_set (jwe : json) (name : bytes) (v : json) : option json :=
    match jwe with
    | JObj m =>
        let p := alookup s_protected m in
        let u := alookup s_unprotected m in
        match p with
        | Some (JObj _) | Some (JStr _) | None =>
            match u with
            | Some (JObj _) | None =>
                match p, u with
                | Some (JObj pm), _ => Some (JObj (aset s_protected (JObj (aset name v pm)) m))
                | Some (JStr _), Some (JObj um) => Some (JObj (aset s_unprotected (JObj (aset name v um)) m))
                | Some (JStr _), None => Some (JObj (aset s_unprotected (JObj [(name, v)]) m))
                | None, Some (JObj um) => Some (JObj (aset s_unprotected (JObj (aset name v um)) m))
                | None, None => Some (JObj (aset s_protected (JObj [(name, v)]) m))
                | _, _ => None
                end
            | _ => None
            end
        | _ => None
        end
    | _ => None
    end.

  (* ---- decryption ------------------------------------------------------------------- *)

  (* jose_jwe_dec_jwk for one recipient object and one key *)
  Definition dec_jwk_single (jwe rcp jwk : json) : option json :=
    match jwe_hdr jwe (Some rcp) with
    | None => None
    | Some hdr =>
        match get_opt_str s_alg hdr, get_opt_str s_enc hdr with
        | OBad, _ | _, OBad => None
        | halg, henc =>
            let kalg := match lookup s_alg jwk with Some (JStr k) => Some (cstr k) | _ => None end in
            let chosen :=
              match halg with
              | OStr h =>
                  match kalg with
                  | Some k =>
                      if bytes_eqb h k then Some h
                      else match henc with
                           | OStr e => if bytes_eqb e k then Some h else None
                           | _ => None
                           end
                  | None => Some h
                  end
              | _ => kalg
              end in
            match chosen with
            | None => None
            | Some name =>
                match find_wrap name with
                | None => None
                | Some a =>
                    if negb (jwk_prm jwk false (Some (wa_dprm a))) then None
                    else
                      (* json_pack("{s:s,s:s,s:O,s:[ss]}") needs a non-NULL "enc" *)
                      match lookup s_enc hdr with
                      | None => None
                      | Some encv =>
                          let cek := JObj [(s_kty, JStr s_oct); (s_use, JStr s_enc); (s_enc, encv);
                                           (s_key_ops, JArr [JStr s_encrypt; JStr s_decrypt])] in
                          wa_unw a jwe rcp jwk cek
                      end
                end
            end
        end
    end.

  Fixpoint first_some {A B} (f : A -> option B) (l : list A) : option B :=
    match l with
    | [] => None
    | x :: r => match f x with Some y => Some y | None => first_some f r end
    end.

  Definition dec_jwk_key (jwe : json) (rcp : option json) (jwk : json) : option json :=
    match rcp with
    | Some r => dec_jwk_single jwe r jwk
    | None =>
        match lookup s_recipients jwe with
        | Some (JArr l) => first_some (fun r => dec_jwk_single jwe r jwk) l
        | Some _ => None
        | None => dec_jwk_single jwe jwe jwk
        end
    end.

  Definition dec_jwk (jwe : json) (rcp : option json) (jwk : json) : option json :=
    match key_list jwk with
    | Some keys => first_some (fun k => dec_jwk_key jwe rcp k) keys
    | None => dec_jwk_key jwe rcp jwk
    end.

  (* jose_jwe_dec_cek_io + the one-shot wrapper, on the decoded ciphertext octets *)
  Definition dec_cek_octets (jwe cek : json) (ct : bytes) : option bytes :=
    match jwe_hdr jwe None with
    | None => None
    | Some hdr =>
        match get_opt_str s_enc hdr, get_opt_str s_alg cek with
        | OBad, _ | _, OBad => None
        | halg, kalg =>
            let chosen :=
              match halg, kalg with
              | OStr h, OStr k => if bytes_eqb h k then Some h else None
              | OStr h, _ => Some h
              | _, OStr k => Some k
              | _, _ => None
              end in
            match chosen with
            | None => None
            | Some name =>
                match find_encr name with
                | None => None
                | Some a =>
                    if negb (jwk_prm cek false (Some (ea_dprm a))) then None
                    else match protected_zip jwe with
                         | Some z =>
                             if negb (bytes_eqb z s_DEF) then None
                             else match ea_dec a jwe cek ct with
                                  | Some pt => inflate pt
                                  | None => None
                                  end
                         | None => ea_dec a jwe cek ct
                         end
                end
            end
        end
    end.

  (* ---- encryption: choice of the content encryption algorithm ------------------------- *)

  (* jose_jwe_enc_cek_io up to the call of encr.enc: (algorithm, jwe with enc recorded and protected encoded) *)
  Definition enc_cek_prepare (jwe cek : json) : option (encr_alg * json) :=
    let enc_of (hm : list (bytes * json)) : opt_str :=
      match alookup s_enc hm with
      | None => OAbsent
      | Some (JStr s) => OStr (cstr s)
      | Some _ => OBad
      end in
    (* [encoded]: the member may already be base64url text (the protected header only, since /repo 54a50c4) *)
    let sub (k : bytes) (encoded : bool) : opt_str :=
      match jwe with
      | JObj m => match alookup k m with
                  | None => OAbsent
                  | Some (JObj hm) => enc_of hm
                  | Some (JStr s) =>
                      if encoded then match jose_b64_dec_load (JStr s) with
                                      | Some (JObj hm) => enc_of hm
                                      | _ => OBad
                                      end
                      else OBad
                  | Some _ => OBad
                  end
      | _ => OBad
      end in
    match sub s_unprotected false, sub s_protected true, get_opt_str s_alg cek with
    | OBad, _, _ | _, OBad, _ | _, _, OBad => None
    | hu, hp, k =>
        let h := match hp with OStr x => Some x | _ => match hu with OStr x => Some x | _ => None end end in
        let k := match k with OStr x => Some x | _ => None end in
        let pick :=
          match h with
          | None =>
              let h' := match k with
                        | Some x => Some x
                        | None => match somes (map (fun a => ea_sug a cek) ealgs) with x :: _ => Some x | [] => None end
                        end in
              match h' with
              | None => None
              | Some x => match find_encr x with
                          | Some a => match jwe_hdr_set jwe s_enc (JStr (ea_name a)) with
                                      | Some jwe' => Some (a, jwe')
                                      | None => None
                                      end
                          | None => None
                          end
              end
          | Some x =>
              match k with
              | Some kx => if bytes_eqb x kx then match find_encr x with Some a => Some (a, jwe) | None => None end
                           else None
              | None => match find_encr x with Some a => Some (a, jwe) | None => None end
              end
          end in
        match pick with
        | None => None
        | Some (a, jwe1) =>
            if negb (jwk_prm cek false (Some (ea_eprm a))) then None
            else match encode_protected jwe1 with
                 | Some jwe2 => Some (a, jwe2)
                 | None => None
                 end
        end
    end.
End Jwe.
