(* C04: content encryption followed by content decryption returns the plaintext (from the AEAD law);
   what jose_jwe_enc_cek produces. *)
From JoseV Require Import Jose.Jwe Jose.EncAlgs Codec.B64Spec Codec.B64Proofs Codec.B64JsonProofs.
From Coq Require Import ZifyBool ZifyN ZifyNat.
Local Open Scope N_scope.

Lemma set_b64_obj k v m j' :
  wf_bytes v -> set_b64 k v (JObj m) = Some j' -> j' = JObj (aset k (JStr (enc v)) m).
Proof.
  intros W H. unfold set_b64 in H. rewrite (b64_enc_spec v W) in H. cbn [jset] in H. inversion H. reflexivity.
Qed.

Lemma member_bytes_set k v m : wf_bytes v -> member_bytes k (JObj (aset k (JStr (enc v)) m)) = Some v.
Proof. intro W. unfold member_bytes. cbn [lookup]. rewrite alookup_aset_same. apply dec_enc. exact W. Qed.

Lemma member_bytes_other k k' v m : k <> k' -> member_bytes k' (JObj (aset k v m)) = member_bytes k' (JObj m).
Proof. intro N. unfold member_bytes. cbn [lookup]. rewrite alookup_aset_other by exact N. reflexivity. Qed.

Lemma gcm_aad_other k v m : k <> s_aad -> k <> s_protected -> gcm_aad_input (JObj (aset k v m)) = gcm_aad_input (JObj m).
Proof. intros N1 N2. unfold gcm_aad_input. rewrite !alookup_aset_other by congruence. reflexivity. Qed.

Lemma cbc_aad_other k v m : k <> s_aad -> k <> s_protected -> cbc_aad_input (JObj (aset k v m)) = cbc_aad_input (JObj m).
Proof. intros N1 N2. unfold cbc_aad_input. rewrite !alookup_aset_other by congruence. reflexivity. Qed.

Lemma blen_take12 (rnd : bytes) : (12 <= length rnd)%nat -> blen (take 12 rnd) = 12.
Proof. intro H. unfold blen. rewrite take_length. lia. Qed.
Lemma blen_take16 (rnd : bytes) : (16 <= length rnd)%nat -> blen (take 16 rnd) = 16.
Proof. intro H. unfold blen. rewrite take_length. lia. Qed.

Lemma wf_take n (l : bytes) : wf_bytes l -> wf_bytes (take n l).
Proof.
  revert l; induction n as [|n IH]; intros [|x l] W; cbn [take]; try constructor.
  - inversion W; assumption. - apply IH. inversion W; assumption.
Qed.

Section Roundtrip.
  (* the AEAD laws of the primitives (SP 800-38D, RFC 7518 5.2): open(seal(m)) = m, 16-octet GCM tags, octet outputs *)
  Hypothesis gcm_law : forall k iv aad pt, gcm_decrypt k iv aad (fst (gcm_encrypt k iv aad pt)) (snd (gcm_encrypt k iv aad pt)) = Some pt.
  Hypothesis gcm_tag_shape : forall k iv aad pt, wf_bytes (snd (gcm_encrypt k iv aad pt)) /\ blen (snd (gcm_encrypt k iv aad pt)) = 16.
  Hypothesis cbchs_law : forall mac tl k iv aad pt,
    cbchs_decrypt mac tl k iv aad (fst (cbchs_encrypt mac tl k iv aad pt)) (snd (cbchs_encrypt mac tl k iv aad pt)) = Some pt.
  Hypothesis cbchs_tag_wf : forall mac tl k iv aad pt, wf_bytes (snd (cbchs_encrypt mac tl k iv aad pt)).

  Theorem gcm_content_roundtrip name eprm dprm m cek rnd pt jwe2 ct :
    wf_bytes rnd -> (12 <= length rnd)%nat ->
    ea_enc (gcm_alg name eprm dprm) (JObj m) cek rnd pt = Some (jwe2, ct) ->
    ea_dec (gcm_alg name eprm dprm) jwe2 cek ct = Some pt.
  Proof using gcm_law gcm_tag_shape.
    intros Wr Lr H.
    assert (Wiv : wf_bytes (take 12 rnd)) by (apply wf_take; exact Wr).
    pose proof (blen_take12 rnd Lr) as Liv.
    unfold gcm_alg in *. cbv beta iota zeta delta [ea_enc ea_dec] in *.
    set (iv := take 12 rnd) in *. clearbody iv.
    destruct (gcm_aad_input (JObj m)) as [aad|] eqn:A; [|discriminate].
    destruct (key_exact cek _) as [key|] eqn:K; [|discriminate].
    pose proof (gcm_law key iv aad pt) as Law.
    pose proof (gcm_tag_shape key iv aad pt) as [Wt Lt].
    destruct (gcm_encrypt key iv aad pt) as [c tag] eqn:E. cbn [fst snd] in *.
    destruct (set_b64 s_iv iv (JObj m)) as [j1|] eqn:S1; [|discriminate].
    apply set_b64_obj in S1; [|exact Wiv]. subst j1.
    destruct (set_b64 s_tag tag _) as [j2|] eqn:S2; [|discriminate].
    apply set_b64_obj in S2; [|exact Wt]. subst j2. inversion H; subst jwe2 ct. clear H.
    rewrite gcm_aad_other by discriminate. rewrite gcm_aad_other by discriminate. rewrite A.
    rewrite member_bytes_set by exact Wt.
    rewrite member_bytes_other by discriminate. rewrite member_bytes_set by exact Wiv.
    rewrite Liv, Lt. cbn [N.eqb Pos.eqb andb]. exact Law.
  Qed.

  Theorem cbchs_content_roundtrip name eprm dprm m cek rnd pt jwe2 ct :
    wf_bytes rnd -> (16 <= length rnd)%nat ->
    ea_enc (cbchs_alg name eprm dprm) (JObj m) cek rnd pt = Some (jwe2, ct) ->
    ea_dec (cbchs_alg name eprm dprm) jwe2 cek ct = Some pt.
  Proof using cbchs_law cbchs_tag_wf.
    intros Wr Lr H.
    assert (Wiv : wf_bytes (take 16 rnd)) by (apply wf_take; exact Wr).
    pose proof (blen_take16 rnd Lr) as Liv.
    unfold cbchs_alg in *. cbv beta iota zeta delta [ea_enc ea_dec] in *.
    set (iv := take 16 rnd) in *. clearbody iv.
    destruct (cbc_aad_input (JObj m)) as [aad|] eqn:A; [|discriminate].
    destruct (key_exact cek _) as [key|] eqn:K; [|discriminate].
    set (mac := hmac (cbc_hash name)) in *. set (tl := hash_len (cbc_hash name) / 2) in *.
    pose proof (cbchs_law mac tl key iv aad pt) as Law.
    pose proof (cbchs_tag_wf mac tl key iv aad pt) as Wt.
    destruct (cbchs_encrypt mac tl key iv aad pt) as [c tag] eqn:E. cbn [fst snd] in *.
    destruct (set_b64 s_iv iv (JObj m)) as [j1|] eqn:S1; [|discriminate].
    apply set_b64_obj in S1; [|exact Wiv]. subst j1.
    destruct (set_b64 s_tag tag _) as [j2|] eqn:S2; [|discriminate].
    apply set_b64_obj in S2; [|exact Wt]. subst j2. inversion H; subst jwe2 ct. clear H.
    rewrite cbc_aad_other by discriminate. rewrite cbc_aad_other by discriminate. rewrite A.
    rewrite member_bytes_set by exact Wt.
    rewrite member_bytes_other by discriminate. rewrite member_bytes_set by exact Wiv.
    rewrite Liv. cbn [N.eqb Pos.eqb]. exact Law.
  Qed.
End Roundtrip.

(* what jose_jwe_enc_cek produces: enc chosen and recorded (C15), protected encoded once, the plaintext
   deflated exactly when zip=DEF is in the protected header, sealed by the algorithm's enc, the ciphertext
   member = base64url of the ciphertext octets *)
Theorem enc_cek_product defl jwe cek rnd pt j' :
  jwe_enc_cek defl jwe cek rnd pt = Some j' ->
  exists a0 a jwe1 body jwe2 ct,
    enc_cek_prepare real_sug_encr jwe cek = Some (a0, jwe1) /\ find_encr real_encr_algs (ea_name a0) = Some a /\
    body = (match protected_zip jwe1 with Some _ => defl pt | None => pt end) /\
    (forall z, protected_zip jwe1 = Some z -> z = s_DEF) /\
    ea_enc a jwe1 cek rnd body = Some (jwe2, ct) /\ set_b64 s_ciphertext ct jwe2 = Some j'.
Proof.
  unfold jwe_enc_cek. destruct (enc_cek_prepare real_sug_encr jwe cek) as [[a0 jwe1]|] eqn:Pr; [|discriminate].
  destruct (find_encr real_encr_algs (ea_name a0)) as [a|] eqn:Fa; [|discriminate].
  destruct (protected_zip jwe1) as [z|] eqn:Z.
  - destruct (bytes_eqb z s_DEF) eqn:E; [|discriminate]. apply bytes_eqb_eq in E. subst z.
    destruct (ea_enc a jwe1 cek rnd (defl pt)) as [[jwe2 ct]|] eqn:En; [|discriminate]. intro H.
    exists a0, a, jwe1, (defl pt), jwe2, ct. split; [reflexivity|]. split; [exact Fa|]. split; [rewrite Z; reflexivity|].
    split; [intros z0 Hz; rewrite Z in Hz; inversion Hz; reflexivity|]. split; [exact En|exact H].
  - destruct (ea_enc a jwe1 cek rnd pt) as [[jwe2 ct]|] eqn:En; [|discriminate]. intro H.
    exists a0, a, jwe1, pt, jwe2, ct. split; [reflexivity|]. split; [exact Fa|]. split; [rewrite Z; reflexivity|].
    split; [intros z0 Hz; rewrite Z in Hz; discriminate|]. split; [exact En|exact H].
Qed.
