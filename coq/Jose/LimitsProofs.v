(* C14 -- proofs about the guards of Jose/Limits.v.  Every statement is over all inputs. *)
From JoseV Require Import Codec.B64Spec Codec.B64Impl Codec.B64ImplProofs Codec.B64Json Jose.Limits.
From Coq Require Import Lia ZifyBool ZifyN ZifyNat.
Local Open Scope N_scope.

(* ---- the generated constants are the property's numbers ------------------------------------------ *)

Lemma consts_are_the_propertys :
  keymax = 1024 /\ max_compressed_size = 262144 /\ p2c_min_iterations = 1000 /\ p2c_max_iterations = 32768.
Proof. repeat split; reflexivity. Qed.

(* ---- wrap32 ------------------------------------------------------------------------------------ *)

Lemma wrap32_range z : (-2147483648 <= wrap32 z < 2147483648)%Z.
Proof.
  unfold wrap32.
  pose proof (Z.mod_pos_bound z 4294967296 ltac:(lia)) as H.
  destruct (Z.ltb_spec (z mod 4294967296) 2147483648); lia.
Qed.

Lemma wrap32_id z : (-2147483648 <= z < 2147483648)%Z -> wrap32 z = z.
Proof.
  intro Hz. unfold wrap32.
  destruct (Z.ltb_spec (z mod 4294967296) 2147483648) as [L|G].
  - destruct (Z_lt_le_dec z 0) as [N|P].
    + exfalso. assert (z mod 4294967296 = z + 4294967296)%Z.
      { symmetry. apply Z.mod_unique with (q := (-1)%Z); lia. }
      lia.
    + apply Z.mod_small; lia.
  - destruct (Z_lt_le_dec z 0) as [N|P].
    + assert (z mod 4294967296 = z + 4294967296)%Z.
      { symmetry. apply Z.mod_unique with (q := (-1)%Z); lia. }
      lia.
    + exfalso. rewrite Z.mod_small in G; lia.
Qed.

Lemma wrap32_congr z : ((wrap32 z - z) mod 4294967296 = 0)%Z.
Proof.
  unfold wrap32.
  pose proof (Z.div_mod z 4294967296 ltac:(lia)) as D.
  destruct (Z.ltb_spec (z mod 4294967296) 2147483648).
  - replace (z mod 4294967296 - z)%Z with ((- (z / 4294967296)) * 4294967296)%Z by lia.
    apply Z.mod_mul; lia.
  - replace (z mod 4294967296 - 4294967296 - z)%Z with ((- (z / 4294967296) - 1) * 4294967296)%Z by lia.
    apply Z.mod_mul; lia.
Qed.

(* ---- the decode-into-a-buffer pattern -------------------------------------------------------------- *)

Definition site_ok (r : site_res) : Prop :=
  Forall (fun iw => fst iw < sr_cap r) (sr_writes r) /\ forall n, sr_go r = Some n -> n <= sr_cap r.

Lemma b64_dec_writes_bound j ol : Forall (fun iw => fst iw < ol) (writes (jose_b64_dec j (Some ol))).
Proof.
  unfold jose_b64_dec. destruct (str_sl j) as [s|].
  - apply dec_buf_bounds.
  - constructor.
Qed.

Lemma decode_into_cap j min cap b : sr_cap (decode_into j min cap b) = cap.
Proof.
  unfold decode_into, site_refuse. destruct j as [j|]; [|reflexivity].
  destruct (ret (jose_b64_dec j None)) as [len|]; [|reflexivity].
  destruct ((len <? min) || (cap <? len)); reflexivity.
Qed.

Lemma decode_into_go j min cap b n :
  sr_go (decode_into j min cap b) = Some n ->
  exists j', j = Some j' /\ ret (jose_b64_dec j' None) = Some n /\ min <= n /\ n <= cap.
Proof.
  unfold decode_into, site_refuse. destruct j as [j|]; [|discriminate].
  destruct (ret (jose_b64_dec j None)) as [len|] eqn:E; [|discriminate].
  destruct ((len <? min) || (cap <? len)) eqn:C; [discriminate|].
  simpl. intro H. exists j. split; [reflexivity|].
  destruct (ret (jose_b64_dec j (Some (if b then len else cap)))) as [m|]; [|discriminate].
  destruct (m =? len); [|discriminate]. injection H as <-.
  split; [exact E|]. lia.
Qed.

Lemma decode_into_ok j min cap b : site_ok (decode_into j min cap b).
Proof.
  split.
  - rewrite decode_into_cap.
    unfold decode_into, site_refuse. destruct j as [j|]; [|constructor].
    destruct (ret (jose_b64_dec j None)) as [len|] eqn:E; [|constructor].
    destruct ((len <? min) || (cap <? len)) eqn:C; [constructor|].
    simpl. destruct b.
    + eapply Forall_impl; [|apply b64_dec_writes_bound]. simpl. intros a Ha. lia.
    + apply b64_dec_writes_bound.
  - intros n H. rewrite decode_into_cap. apply decode_into_go in H as (_ & _ & _ & _ & H). exact H.
Qed.

(* ---- hmac ------------------------------------------------------------------------------------------ *)

Theorem keymax_hmac mdsize jwk :
  let r := jhmac mdsize jwk in
  sr_cap r = 1024 /\
  Forall (fun iw => fst iw < 1024) (sr_writes r) /\
  forall n, sr_go r = Some n -> mdsize <= n /\ n <= 1024.
Proof.
  unfold jhmac. pose proof (decode_into_ok (lookup l_k jwk) mdsize keymax false) as [W G].
  rewrite decode_into_cap in *. change keymax with 1024 in *.
  split; [reflexivity|]. split; [exact W|].
  intros n Hn. split; [|apply G; exact Hn].
  apply decode_into_go in Hn as (j' & _ & _ & Lo & _). exact Lo.
Qed.

(* ---- oct ------------------------------------------------------------------------------------------- *)

Theorem keymax_oct jwk n :
  oct_make jwk = Proceed n ->
  1 <= n /\ n <= 1024 /\ exists z, lookup l_bytes jwk = Some (JInt z) /\ Z.of_N n = z.
Proof.
  unfold oct_make. destruct (lookup l_bytes jwk) as [j|]; [|discriminate].
  destruct j; simpl; try discriminate.
  change (Z.of_N keymax) with 1024%Z.
  destruct (Z.leb_spec z 0) as [L0|G0]; simpl; [discriminate|].
  destruct (Z.ltb_spec 1024 z) as [L1|G1]; [discriminate|].
  intro Hp. injection Hp as <-. rewrite wrap32_id by lia.
  split; [lia|]. split; [lia|]. exists z. split; [reflexivity|]. lia.
Qed.

Theorem oct_refuses jwk :
  match lookup l_bytes jwk with
  | Some (JInt z) => (z <= 0 \/ 1024 < z)%Z -> oct_make jwk = Refuse
  | _ => oct_make jwk = Refuse
  end.
Proof.
  unfold oct_make. destruct (lookup l_bytes jwk) as [j|]; [|reflexivity].
  destruct j; simpl; try reflexivity.
  change (Z.of_N keymax) with 1024%Z. intros [Hz|Hz].
  - destruct (Z.leb_spec z 0) as [L0|G0]; [reflexivity|lia].
  - destruct (Z.leb_spec z 0) as [L0|G0]; [reflexivity|]. simpl.
    destruct (Z.ltb_spec 1024 z) as [L1|G1]; [reflexivity|lia].
Qed.

(* ---- aeskw ----------------------------------------------------------------------------------------- *)

Theorem keymax_aeskw_wrp cek :
  let r := aeskw_wrp_pt cek in
  sr_cap r = 1024 /\
  Forall (fun iw => fst iw < 1024) (sr_writes r) /\
  forall ptl, sr_go r = Some ptl ->
    ptl <= 1024 /\ fst (aeskw_wrp_ct ptl) <= snd (aeskw_wrp_ct ptl) /\ snd (aeskw_wrp_ct ptl) = 1040.
Proof.
  unfold aeskw_wrp_pt. pose proof (decode_into_ok (lookup l_k cek) 0 keymax true) as [W G].
  rewrite decode_into_cap in *. change keymax with 1024 in *.
  split; [reflexivity|]. split; [exact W|].
  intros ptl Hp. apply G in Hp. split; [exact Hp|].
  unfold aeskw_wrp_ct, aeskw_ctcap, aeskw_blk. change keymax with 1024. simpl. split; [lia|reflexivity].
Qed.

Theorem keymax_aeskw_unw rcp :
  let r := aeskw_unw_ct rcp in
  sr_cap r = 1040 /\
  Forall (fun iw => fst iw < 1040) (sr_writes r) /\
  forall ctl, sr_go r = Some ctl ->
    ctl <= 1040 /\ fst (aeskw_unw_pt ctl) <= snd (aeskw_unw_pt ctl) /\ snd (aeskw_unw_pt ctl) = 1040.
Proof.
  unfold aeskw_unw_ct. pose proof (decode_into_ok (lookup l_encrypted_key rcp) 0 aeskw_ctcap true) as [W G].
  rewrite decode_into_cap in *. change aeskw_ctcap with 1040 in *.
  split; [reflexivity|]. split; [exact W|].
  intros ctl Hc. apply G in Hc. split; [exact Hc|].
  unfold aeskw_unw_pt. change aeskw_ctcap with 1040. simpl. split; [lia|reflexivity].
Qed.

(* ---- pbkdf2_guard / PBES2 -------------------------------------------------------------------------------- *)

Theorem keymax_pbkdf2 jwk :
  let r := pbkdf2_ky jwk in
  sr_cap r = 1024 /\
  Forall (fun iw => fst iw < 1024) (sr_writes r) /\
  forall n, sr_go r = Some n -> n <= 1024.
Proof.
  unfold pbkdf2_ky. destruct (pbkdf2_jwk jwk) as [key|].
  - pose proof (decode_into_ok (lookup l_k key) 0 keymax false) as [W G].
    rewrite decode_into_cap in *. change keymax with 1024 in *.
    split; [reflexivity|]. split; [exact W|exact G].
  - simpl. split; [reflexivity|]. split; [constructor|]. intros n Hn. discriminate.
Qed.

Lemma pbkdf2_inv alg jwk iter stl r :
  pbkdf2_guard alg jwk iter stl = Proceed r ->
  exists kyl, sr_go (pbkdf2_ky jwk) = Some kyl /\
              r = {| kr_iter := iter; kr_passl := kyl; kr_saltl := blen alg + 1 + stl |}.
Proof.
  unfold pbkdf2_guard. destruct (pbes2_idx alg); [|discriminate].
  destruct (sr_go (pbkdf2_ky jwk)) as [kyl|]; [|discriminate].
  intro H. injection H as <-. exists kyl. split; reflexivity.
Qed.

Lemma pbes2_unw_inv alg hdr jwk r :
  pbes2_unw_guard alg hdr jwk = Proceed r ->
  exists z stl kyl,
    lookup l_p2c hdr = Some (JInt z) /\ (1 <= z <= 32768)%Z /\
    sr_go (pbes2_unw_st hdr) = Some stl /\ sr_go (pbkdf2_ky jwk) = Some kyl /\
    r = {| kr_iter := z; kr_passl := kyl; kr_saltl := blen alg + 1 + stl |}.
Proof.
  unfold pbes2_unw_guard. destruct (pbes2_idx alg); [|discriminate].
  destruct (lookup l_p2c hdr) as [pj|]; [|discriminate].
  destruct pj; simpl; try discriminate.
  change (Z.of_N p2c_max_iterations) with 32768%Z.
  destruct (Z.ltb_spec z 1) as [L0|G0]; simpl; [discriminate|].
  destruct (Z.ltb_spec 32768 z) as [L1|G1]; [discriminate|].
  destruct (sr_go (pbes2_unw_st hdr)) as [stl|]; [|discriminate].
  intro Hp. apply pbkdf2_inv in Hp as (kyl & K & ->).
  exists z, stl, kyl. rewrite wrap32_id by lia. repeat split; try assumption; try lia.
Qed.

(* a count above the maximum or below 1, an absent count, a count that is not a JSON integer: refused, nothing
   requested *)
Lemma refuse_both alg hdr jwk :
  pbes2_unw_guard alg hdr jwk = Refuse ->
  pbes2_unw_guard alg hdr jwk = Refuse /\ iters_requested (pbes2_unw_guard alg hdr jwk) = 0%Z.
Proof. intro H. rewrite H. split; reflexivity. Qed.

Theorem p2c_unw alg hdr jwk :
  match lookup l_p2c hdr with
  | Some (JInt z) =>
      (32768 < z \/ z < 1)%Z ->
      pbes2_unw_guard alg hdr jwk = Refuse /\ iters_requested (pbes2_unw_guard alg hdr jwk) = 0%Z
  | _ => pbes2_unw_guard alg hdr jwk = Refuse /\ iters_requested (pbes2_unw_guard alg hdr jwk) = 0%Z
  end.
Proof.
  destruct (lookup l_p2c hdr) as [pj|] eqn:E.
  - destruct pj; try (apply refuse_both; unfold pbes2_unw_guard; rewrite E; destruct (pbes2_idx alg); reflexivity).
    intro Hz. apply refuse_both. unfold pbes2_unw_guard. rewrite E. destruct (pbes2_idx alg); [|reflexivity].
    simpl. change (Z.of_N p2c_max_iterations) with 32768%Z.
    destruct (Z.ltb_spec z 1) as [L0|G0]; [reflexivity|]. simpl.
    destruct (Z.ltb_spec 32768 z) as [L1|G1]; [reflexivity|lia].
  - apply refuse_both. unfold pbes2_unw_guard. rewrite E. destruct (pbes2_idx alg); reflexivity.
Qed.

(* what the unwrap guard lets through: exactly the count of the header, which is in 1..32768 *)
Theorem p2c_unw_passes alg hdr jwk r :
  pbes2_unw_guard alg hdr jwk = Proceed r ->
  exists z, lookup l_p2c hdr = Some (JInt z) /\ (1 <= z <= 32768)%Z /\ kr_iter r = z.
Proof.
  intro H. apply pbes2_unw_inv in H as (z & stl & kyl & L & Hz & _ & _ & ->).
  exists z. simpl. repeat split; try assumption; lia.
Qed.

Theorem salt alg hdr jwk r :
  pbes2_unw_guard alg hdr jwk = Proceed r ->
  sr_cap (pbes2_unw_st hdr) = 1024 /\
  Forall (fun iw => fst iw < 1024) (sr_writes (pbes2_unw_st hdr)) /\
  exists p2s stl,
    lookup l_p2s hdr = Some p2s /\ ret (jose_b64_dec p2s None) = Some stl /\
    8 <= stl /\ stl <= 1024 /\
    kr_saltl r = blen alg + 1 + stl /\
    pbkdf2_slt alg stl = (kr_saltl r, kr_saltl r).
Proof.
  intro H. apply pbes2_unw_inv in H as (z & stl & kyl & _ & _ & S & _ & ->).
  unfold pbes2_unw_st in *.
  pose proof (decode_into_ok (lookup l_p2s hdr) 8 keymax false) as [W _].
  rewrite decode_into_cap in *. change keymax with 1024 in *.
  split; [reflexivity|]. split; [exact W|].
  apply decode_into_go in S as (p2s & L & Q & Lo & Hi).
  exists p2s, stl. simpl. repeat split; assumption || reflexivity.
Qed.

(* the salt buffer is never written outside, whatever the header (also on the refused paths) *)
Theorem salt_buffer hdr :
  sr_cap (pbes2_unw_st hdr) = 1024 /\ Forall (fun iw => fst iw < 1024) (sr_writes (pbes2_unw_st hdr)).
Proof.
  unfold pbes2_unw_st.
  pose proof (decode_into_ok (lookup l_p2s hdr) 8 keymax false) as [W _].
  rewrite decode_into_cap in *. split; [reflexivity|exact W].
Qed.

Lemma pbes2_wrp_inv alg hdr jwk rec r :
  pbes2_wrp_guard alg hdr jwk = Proceed (rec, r) ->
  (1000 <= kr_iter r <= 32768)%Z /\ rec = JInt (kr_iter r) /\
  match lookup l_p2c hdr with
  | None => kr_iter r = 32768%Z
  | Some j => j = rec
  end.
Proof.
  unfold pbes2_wrp_guard. destruct (pbes2_idx alg) as [i|]; [|discriminate].
  change (Z.of_N p2c_max_iterations) with 32768%Z. change (Z.of_N p2c_min_iterations) with 1000%Z.
  destruct (lookup l_p2c hdr) as [j|].
  - destruct j; simpl; try discriminate.
    destruct (Z.ltb_spec z 1000) as [L0|G0]; simpl; [discriminate|].
    destruct (Z.ltb_spec 32768 z) as [L1|G1]; [discriminate|].
    rewrite wrap32_id by lia.
    destruct (pbkdf2_guard alg jwk z (pbes2_wrp_stl i)) as [|q] eqn:P; [discriminate|].
    intro Hp. injection Hp as <- <-. apply pbkdf2_inv in P as (kyl & _ & ->). simpl.
    split; [lia|]. split; reflexivity.
  - simpl. rewrite wrap32_id by lia.
    destruct (pbkdf2_guard alg jwk 32768 (pbes2_wrp_stl i)) as [|q] eqn:P; [discriminate|].
    intro Hp. injection Hp as <- <-. apply pbkdf2_inv in P as (kyl & _ & ->). simpl.
    split; [lia|]. split; reflexivity.
Qed.

(* the wrap path: the count handed to the KDF is within 1000..32768 and is exactly the count recorded in the
   produced header (the supplied one when there is one, the maximum otherwise) *)
Theorem p2c_wrp alg hdr jwk rec r :
  pbes2_wrp_guard alg hdr jwk = Proceed (rec, r) ->
  (1000 <= kr_iter r <= 32768)%Z /\ rec = JInt (kr_iter r) /\
  match lookup l_p2c hdr with None => kr_iter r = 32768%Z | Some j => j = rec end.
Proof. exact (pbes2_wrp_inv alg hdr jwk rec r). Qed.

(* a supplied count outside 1000..32768, of whatever size, or a supplied value that is not an integer: refused *)
Theorem p2c_wrp_refuses alg hdr jwk :
  match lookup l_p2c hdr with
  | Some (JInt z) => (z < 1000 \/ 32768 < z)%Z -> pbes2_wrp_guard alg hdr jwk = Refuse
  | Some _ => pbes2_wrp_guard alg hdr jwk = Refuse
  | None => True
  end.
Proof.
  unfold pbes2_wrp_guard. destruct (lookup l_p2c hdr) as [j|]; [|exact I].
  destruct j; try (destruct (pbes2_idx alg); reflexivity).
  intro Hz. destruct (pbes2_idx alg); [|reflexivity]. simpl.
  change (Z.of_N p2c_max_iterations) with 32768%Z. change (Z.of_N p2c_min_iterations) with 1000%Z.
  destruct (Z.ltb_spec z 1000) as [L0|G0]; [reflexivity|]. simpl.
  destruct (Z.ltb_spec 32768 z) as [L1|G1]; [reflexivity|lia].
Qed.

Definition hdr_of_p2c (z : Z) : json :=
  JObj [(l_p2c, JInt z); (l_p2s, JStr (repeatN 65 22))].
Definition password_jwk : json := JObj [(l_kty, JStr l_oct); (l_k, JStr [99; 71; 70; 122; 99; 51; 100; 118; 99; 109; 81])].

(* ---- work ------------------------------------------------------------------------------------------- *)

Section Work.
  (* PKCS5_PBKDF2_HMAC: which iteration counts it accepts (no assumption is needed any more: the guards let
     nothing below 1 through) *)
  Variable accepts : Z -> bool.

  Theorem work_bound_wrp alg hdr jwk :
    (0 <= kdf_work accepts (pbes2_wrp_req alg hdr jwk) <= 32768)%Z.
  Proof.
    unfold pbes2_wrp_req. destruct (pbes2_wrp_guard alg hdr jwk) as [|[rec r]] eqn:E; simpl; [lia|].
    apply pbes2_wrp_inv in E as (R & _). destruct (accepts (kr_iter r)); lia.
  Qed.

  Theorem work_bound_unw alg hdr jwk :
    (0 <= kdf_work accepts (pbes2_unw_guard alg hdr jwk) <= 32768)%Z.
  Proof.
    destruct (pbes2_unw_guard alg hdr jwk) as [|r] eqn:E; simpl; [lia|].
    apply pbes2_unw_inv in E as (z & stl & kyl & _ & Hm & _ & _ & ->). simpl.
    destruct (accepts z); lia.
  Qed.
End Work.

(* ---- ECDH-ES ------------------------------------------------------------------------------------------- *)

Lemma ecdhes_decode_cap obj name cap : sr_cap (ecdhes_decode obj name cap) = cap.
Proof.
  unfold ecdhes_decode, site_refuse. destruct (negb (is_object obj)); [reflexivity|].
  destruct (lookup name obj) as [j|]; [|reflexivity].
  destruct j; try reflexivity.
  destruct (ret (dec_buf s None)) as [d|]; [|reflexivity].
  destruct (cap <? d); reflexivity.
Qed.

Lemma site_refuse_ok cap : site_ok (site_refuse cap).
Proof. split; [constructor|]. intros n Hn. discriminate. Qed.

Lemma ecdhes_decode_ok obj name cap : site_ok (ecdhes_decode obj name cap).
Proof.
  unfold ecdhes_decode.
  destruct (negb (is_object obj)); [apply site_refuse_ok|].
  destruct (lookup name obj) as [j|].
  - destruct j; try apply site_refuse_ok.
    destruct (ret (dec_buf s None)) as [d|]; [|apply site_refuse_ok].
    destruct (cap <? d); [apply site_refuse_ok|].
    split; cbn [sr_go sr_writes sr_cap].
    + apply dec_buf_bounds.
    + intros n. destruct (ret (dec_buf s (Some cap))) as [m|]; [|intro Hn; discriminate].
      destruct (N.ltb_spec cap m) as [L|G]; [intro Hn; discriminate|]. intro Hn. injection Hn as <-. exact G.
  - split; simpl; [constructor|]. intros n Hn. injection Hn as <-. lia.
Qed.

Lemma concatkdf_written_all dkl hsz : hsz <> 0 -> concatkdf_written dkl hsz = dkl.
Proof.
  intro H. unfold concatkdf_written. pose proof (N.div_mod dkl hsz H). lia.
Qed.

Theorem keymax_ecdhes dkl hdr key d :
  ecdhes_derive dkl hdr key = Proceed d ->
  (exists l, dkl = Some l /\ dv_dk d = l /\ 16 <= l) /\
  dv_dk d <= 1024 /\ dv_pu d <= 1024 /\ dv_pv d <= 1024 /\ dv_ky d <= 1024.
Proof.
  unfold ecdhes_derive. destruct dkl as [l|]; [|discriminate].
  change keymax with 1024.
  destruct (N.ltb_spec l 16) as [L0|G0]; simpl; [discriminate|].
  destruct (N.ltb_spec 1024 l) as [L1|G1]; [discriminate|].
  destruct (sr_go (ecdhes_decode hdr l_apu 1024)) as [pul|] eqn:U; [|discriminate].
  destruct (sr_go (ecdhes_decode hdr l_apv 1024)) as [pvl|] eqn:V; [|discriminate].
  destruct (sr_go (ecdhes_decode key l_x 1024)) as [kyl|] eqn:K; [|discriminate].
  intro Hd. injection Hd as <-. simpl.
  rewrite concatkdf_written_all by discriminate.
  pose proof (ecdhes_decode_ok hdr l_apu 1024) as [_ GU].
  pose proof (ecdhes_decode_ok hdr l_apv 1024) as [_ GV].
  pose proof (ecdhes_decode_ok key l_x 1024) as [_ GK].
  rewrite ecdhes_decode_cap in *.
  apply GU in U. apply GV in V. apply GK in K.
  split; [exists l; repeat split; assumption|]. repeat split; assumption.
Qed.

(* the three buffers are never written outside, whatever the header and the key *)
Theorem keymax_ecdhes_buffers obj name :
  Forall (fun iw => fst iw < 1024) (sr_writes (ecdhes_decode obj name keymax)).
Proof.
  pose proof (ecdhes_decode_ok obj name keymax) as [W _]. rewrite ecdhes_decode_cap in W. exact W.
Qed.

(* a member that decodes to more than 1024 bytes refuses the derivation *)
Theorem ecdhes_refuses_long obj name s d :
  lookup name obj = Some (JStr s) -> ret (dec_buf s None) = Some d -> 1024 < d ->
  sr_go (ecdhes_decode obj name keymax) = None.
Proof.
  intros L Q Hd. unfold ecdhes_decode. destruct (negb (is_object obj)); [reflexivity|].
  rewrite L, Q. change keymax with 1024. destruct (N.ltb_spec 1024 d) as [L1|G1]; [reflexivity|lia].
Qed.

(* ---- inflate ----------------------------------------------------------------------------------------- *)

Theorem inf_block len :
  (262144 < len -> inf_feed_guard len = Refuse) /\
  (forall n, inf_feed_guard len = Proceed n -> n = len /\ n <= 262144).
Proof.
  unfold inf_feed_guard. change max_compressed_size with 262144.
  destruct (N.ltb_spec 262144 len) as [L|G]; split.
  - intros _. reflexivity.
  - intros n Hn. discriminate.
  - intro. lia.
  - intros n Hn. injection Hn as <-. split; [reflexivity|exact G].
Qed.

(* ---- compressed ciphertext ---------------------------------------------------------------------------- *)

Theorem zip_ct jwe io_ok n :
  (zip_in_protected_header jwe = true -> 262144 < n -> dec_cek_guard jwe (Some n) io_ok = Refuse) /\
  (zip_in_protected_header jwe = true -> n <= 262144 -> io_ok = true -> dec_cek_guard jwe (Some n) io_ok = Proceed n) /\
  (zip_in_protected_header jwe = false -> io_ok = true -> dec_cek_guard jwe (Some n) io_ok = Proceed n) /\
  (forall m, dec_cek_guard jwe (Some n) io_ok = Proceed m -> m = n).
Proof.
  unfold dec_cek_guard. change max_compressed_size with 262144.
  split; [|split; [|split]].
  - intros -> Hn. destruct (N.ltb_spec 262144 n) as [L|G]; [reflexivity|lia].
  - intros -> Hn ->. destruct (N.ltb_spec 262144 n) as [L|G]; [lia|reflexivity].
  - intros -> ->. reflexivity.
  - intros m. destruct (zip_in_protected_header jwe && (262144 <? n)); [discriminate|].
    destruct io_ok; [|discriminate]. intro Hm. injection Hm as <-. reflexivity.
Qed.

(* the check sits in front of the decoder for a whole JWE object as well *)
Theorem zip_ct_json jwe cek s :
  lookup l_ciphertext jwe = Some (JStr s) -> zip_in_protected_header jwe = true -> 262144 < blen s ->
  dec_cek jwe cek = Refuse.
Proof.
  intros L Z H. unfold dec_cek, ct_len. rewrite L.
  apply (proj1 (zip_ct jwe (decide_deccek jwe cek) (blen s))); assumption.
Qed.
