(* Concrete content-encryption and key-management algorithms of lib/openssl/*.c over the
   Gallina primitives (symmetric ones here, extractable; ECDH-ES and RSA in Jose/PkEncAlgs.v). *)
From JoseV Require Export Jose.Jwe Jose.Suggest Crypto.Sha Crypto.Hmac Crypto.Gcm Crypto.CbcHs Crypto.KeyWrap
     Crypto.Pbkdf2 Crypto.Inflate.
From JoseV Require Import Jose.Stubs Gen.Tables Gen.Consts.
Local Open Scope N_scope.

Definition s_iv : bytes := [105; 118].
Definition s_tag : bytes := [116; 97; 103].
Definition s_aad : bytes := [97; 97; 100].
Definition s_p2s : bytes := [112; 50; 115].
Definition s_p2c : bytes := [112; 50; 99].
Definition s_epk : bytes := [101; 112; 107].
Definition s_apu : bytes := [97; 112; 117].
Definition s_apv : bytes := [97; 112; 118].

Definition member_bytes (name : bytes) (j : json) : option bytes :=
  match lookup name j with Some (JStr s) => dec s | _ => None end.

(* key material of exactly n octets *)
Definition key_exact (jwk : json) (n : N) : option bytes :=
  match member_bytes s_k jwk with
  | Some k => if blen k =? n then Some k else None
  | None => None
  end.

(* ---- content encryption -------------------------------------------------------------- *)

(* json_unpack "{s?s%,s?s%}" aad protected: full lengths; None = type error *)
Definition gcm_aad_input (jwe : json) : option bytes :=
  match jwe with
  | JObj m =>
      let get k := match alookup k m with
                   | None => Some None
                   | Some (JStr s) => Some (Some s)
                   | Some _ => None
                   end in
      match get s_aad, get s_protected with
      | Some a, Some p =>
          Some ((match p with Some p => p | None => [] end) ++
                (match a with Some a => 46 :: a | None => [] end))
      | _, _ => None
      end
  | _ => None
  end.

(* json_unpack "{s?s,s?s}": C strings (cut at the first NUL); protected defaults to "" *)
Definition cbc_aad_input (jwe : json) : option bytes :=
  match jwe with
  | JObj m =>
      let get k := match alookup k m with
                   | None => Some None
                   | Some (JStr s) => Some (Some (cstr s))
                   | Some _ => None
                   end in
      match get s_aad, get s_protected with
      | Some a, Some p =>
          Some ((match p with Some p => p | None => [] end) ++
                (match a with Some a => 46 :: a | None => [] end))
      | _, _ => None
      end
  | _ => None
  end.

Definition set_b64 (k : bytes) (v : bytes) (j : json) : option json :=
  match jose_b64_enc v with Some e => jset k e j | None => None end.

Definition gcm_alg (name : bytes) (eprm dprm : bytes) : encr_alg :=
  let klen := match enc_key_len name with Some n => n | None => 0 end in {|
  ea_name := name; ea_eprm := eprm; ea_dprm := dprm; ea_sug := aesgcm_sug;
  ea_enc := fun jwe cek rnd pt =>
    match gcm_aad_input jwe, key_exact cek klen with
    | Some aad, Some key =>
        let iv := take 12 rnd in
        let '(ct, tag) := gcm_encrypt key iv aad pt in
        match set_b64 s_iv iv jwe with
        | Some j1 => match set_b64 s_tag tag j1 with Some j2 => Some (j2, ct) | None => None end
        | None => None
        end
    | _, _ => None
    end;
  ea_dec := fun jwe cek ct =>
    match gcm_aad_input jwe, key_exact cek klen, member_bytes s_iv jwe, member_bytes s_tag jwe with
    | Some aad, Some key, Some iv, Some tag =>
        if (blen iv =? 12) && (blen tag =? 16) then gcm_decrypt key iv aad ct tag else None
    | _, _, _, _ => None
    end
|}.

Definition cbc_hash (name : bytes) : hname :=
  if bytes_eqb name n_A128CBC then SHA256 else if bytes_eqb name n_A192CBC then SHA384 else SHA512.

Definition cbchs_alg (name : bytes) (eprm dprm : bytes) : encr_alg :=
  let klen := match enc_key_len name with Some n => n | None => 0 end in
  let h := cbc_hash name in
  let tl := hash_len h / 2 in {|
  ea_name := name; ea_eprm := eprm; ea_dprm := dprm; ea_sug := aescbch_sug;
  ea_enc := fun jwe cek rnd pt =>
    match cbc_aad_input jwe, key_exact cek klen with
    | Some aad, Some key =>
        let iv := take 16 rnd in
        let '(ct, tag) := cbchs_encrypt (hmac h) tl key iv aad pt in
        match set_b64 s_iv iv jwe with
        | Some j1 => match set_b64 s_tag tag j1 with Some j2 => Some (j2, ct) | None => None end
        | None => None
        end
    | _, _ => None
    end;
  ea_dec := fun jwe cek ct =>
    match cbc_aad_input jwe, key_exact cek klen, member_bytes s_iv jwe, member_bytes s_tag jwe with
    | Some aad, Some key, Some iv, Some tag =>
        if blen iv =? 16 then cbchs_decrypt (hmac h) tl key iv aad ct tag else None
    | _, _, _, _ => None
    end
|}.

Definition encr_of (e : alg_entry) : encr_alg :=
  if mem (a_name e) gcm_names then gcm_alg (a_name e) (oget (a_prm1 e)) (oget (a_prm2 e))
  else cbchs_alg (a_name e) (oget (a_prm1 e)) (oget (a_prm2 e)).

Definition real_encr_algs : list encr_alg := map encr_of (filter (is_kind KEncr) alg_registry).

(* ---- key management: unwrap side --------------------------------------------------------- *)

Definition set_k (cek : json) (k : bytes) : option json := set_b64 s_k k cek.

Definition kw_keylen (name : bytes) : N :=
  if bytes_eqb name n_A128KW || bytes_eqb name n_A128GCMKW then 16
  else if bytes_eqb name n_A192KW || bytes_eqb name n_A192GCMKW then 24 else 32.

(* A*KW: the wrapped key must fit KEYMAX + 16; the KEK must have exactly the algorithm's length *)
Definition aeskw_unw (name : bytes) (rcp jwk cek : json) : option json :=
  match key_exact jwk (kw_keylen name) with
  | None => None
  | Some kek =>
      match lookup s_encrypted_key rcp with
      | Some (JStr s) =>
          match b64_dlen (blen s) with
          | Some ctl =>
              if keymax + 16 <? ctl then None
              else match dec s with
                   | Some ct => match kw_unwrap kek ct with Some k => set_k cek k | None => None end
                   | None => None
                   end
          | None => None
          end
      | _ => None
      end
  end.

(* A*GCMKW: iv and tag come from the MERGED header; no AAD *)
Definition aesgcmkw_unw (name : bytes) (jwe rcp jwk cek : json) : option json :=
  match jwe_hdr jwe (Some rcp) with
  | None => None
  | Some hdr =>
      match lookup s_encrypted_key rcp with
      | Some (JStr s) =>
          match key_exact jwk (kw_keylen name), member_bytes s_iv hdr, member_bytes s_tag hdr, dec s with
          | Some kek, Some iv, Some tag, Some ct =>
              if (blen iv =? 12) && (blen tag =? 16) then
                match gcm_decrypt kek iv [] ct tag with Some k => set_k cek k | None => None end
              else None
          | _, _, _, _ => None
          end
      | _ => None
      end
  end.

(* dir: the whole key is copied over the CEK skeleton *)
Definition dir_unw (jwk cek : json) : option json := jupdate cek jwk.

Definition pbes2_hash (name : bytes) : hname :=
  if bytes_eqb name n_PBES2_256 then SHA256 else if bytes_eqb name n_PBES2_384 then SHA384 else SHA512.
Definition pbes2_kw (name : bytes) : bytes :=
  if bytes_eqb name n_PBES2_256 then n_A128KW else if bytes_eqb name n_PBES2_384 then n_A192KW else n_A256KW.

(* the password: a JSON string as is, or the k of an oct key; at most KEYMAX octets *)
Definition pbes2_password (jwk : json) : option bytes :=
  match jwk with
  | JStr s => if blen s <=? keymax then Some s else None      (* json_string_length: the full string *)
  | _ => match member_bytes s_k jwk with
         | Some k => if blen k <=? keymax then Some k else None
         | None => None
         end
  end.

Definition pbes2_derive (name : bytes) (jwk : json) (p2c : Z) (salt : bytes) : option json :=
  match pbes2_password jwk with
  | None => None
  | Some pw =>
      if (p2c <? 1)%Z then None      (* PKCS5_PBKDF2_HMAC rejects iter < 1 *)
      else
        let dk := pbkdf2 (pbes2_hash name) pw (name ++ [0] ++ salt) (Z.to_N p2c) (kw_keylen (pbes2_kw name)) in
        match jose_b64_enc dk with
        | Some e => Some (JObj [(Jwe.s_kty, JStr t_oct); (s_k, e)])
        | None => None
        end
  end.

(* "{s:I}": a JSON integer (64-bit); the value handed to PBKDF2 is narrowed to int *)
Definition wrap32 (z : Z) : Z :=
  let m := (z mod 4294967296)%Z in if (m <? 2147483648)%Z then m else (m - 4294967296)%Z.

Definition pbes2_unw (name : bytes) (jwe rcp jwk cek : json) : option json :=
  match jwe_hdr jwe (Some rcp) with
  | None => None
  | Some hdr =>
      match lookup s_p2c hdr with
      | Some (JInt p2c) =>
          if (Z.of_N p2c_max_iterations <? p2c)%Z then None
          else
            match lookup s_p2s hdr with
            | Some (JStr s) =>
                match b64_dlen (blen s) with
                | Some stl =>
                    if (stl <? 8) || (keymax <? stl) then None
                    else match dec s with
                         | Some salt =>
                             match pbes2_derive name jwk (wrap32 p2c) salt with
                             | Some kek => aeskw_unw (pbes2_kw name) rcp kek cek
                             | None => None
                             end
                         | None => None
                         end
                | None => None
                end
            | _ => None
            end
      | _ => None
      end
  end.

Definition wrap_unw_of (name : bytes) : json -> json -> json -> json -> option json :=
  if mem name kw_names then fun _ rcp jwk cek => aeskw_unw name rcp jwk cek
  else if mem name gcmkw_names then aesgcmkw_unw name
  else if mem name pbes2_names then pbes2_unw name
  else if bytes_eqb name n_dir then fun _ _ jwk cek => dir_unw jwk cek
  else fun _ _ _ _ => None.      (* ECDH-ES*, RSA*: Jose/PkEncAlgs.v *)

Definition real_wrap_algs : list wrap_alg :=
  map (fun e => {| wa_name := a_name e; wa_eprm := oget (a_prm1 e); wa_dprm := oget (a_prm2 e);
                   wa_alg := wrap_alg_of (a_name e); wa_enc := wrap_enc_of (a_name e);
                   wa_wrp := fun _ _ _ _ _ => None;
                   wa_unw := wrap_unw_of (a_name e) |})
      (filter (is_kind KWrap) alg_registry).

(* ---- jose_jwe_dec: unwrap, decode the ciphertext text, decrypt (and inflate) ----------------- *)

Definition jwe_dec_with (walgs : list wrap_alg) (jwe : json) (rcp : option json) (jwk : json) : option bytes :=
  match dec_jwk walgs jwe rcp jwk with
  | None => None
  | Some cek =>
      match lookup s_ciphertext jwe with
      | Some (JStr ct) =>
          (* one-shot decryption refuses compressed ciphertext text beyond the limit *)
          if (match protected_zip jwe with Some z => bytes_eqb z s_DEF | None => false end)
             && (max_compressed_size <? blen ct) then None
          else match dec ct with
               | Some cto => dec_cek_octets real_encr_algs inflate jwe cek cto
               | None => None
               end
      | _ => None
      end
  end.

Definition jwe_dec := jwe_dec_with real_wrap_algs.

(* ---- producing side with explicit randomness (the independent encryptor) ---------------------- *)

(* content encryption of pt under a given CEK: sets enc if needed, encodes protected, (deflates), seals *)
Definition jwe_enc_cek (deflate : bytes -> bytes) (jwe cek : json) (rnd pt : bytes) : option json :=
  match enc_cek_prepare real_sug_encr jwe cek with
  | None => None
  | Some (a0, jwe1) =>
      match find_encr real_encr_algs (ea_name a0) with
      | None => None
      | Some a =>
          let body := match protected_zip jwe1 with
                      | Some z => if bytes_eqb z s_DEF then Some (deflate pt) else None
                      | None => Some pt
                      end in
          match body with
          | None => None
          | Some b =>
              match ea_enc a jwe1 cek rnd b with
              | Some (jwe2, ct) => set_b64 s_ciphertext ct jwe2
              | None => None
              end
          end
      end
  end.
