(* C16: the serialization shape across any history of additions. *)
From JoseV Require Import Jose.Entity.
Local Open Scope N_scope.

(* ---- abstraction: the list of entries an object holds ------------------------------- *)

Definition view (keys : list bytes) (m : alist) : alist :=
  flat_map (fun k => match alookup k m with Some v => [(k, v)] | None => [] end) keys.

Definition vw (keys : list bytes) (j : json) : json :=
  match j with JObj m => JObj (view keys m) | _ => j end.

Definition entries (plural : bytes) (keys : list bytes) (m : alist) : list json :=
  match alookup plural m with
  | Some (JArr (x :: l)) => x :: l
  | _ => if any_key keys m then [JObj (view keys m)] else []
  end.

(* exactly one RFC form: general (non-empty list, none of the members at top level) or
   flattened / empty (no list, or an empty one which counts as absent) *)
Definition form_ok (plural : bytes) (keys : list bytes) (m : alist) : Prop :=
  match alookup plural m with
  | Some (JArr (_ :: _)) => any_key keys m = false
  | Some (JArr []) => True
  | Some _ => False
  | None => True
  end.

Definition is_general (plural : bytes) (keys : list bytes) (m : alist) (n : nat) : Prop :=
  exists l, alookup plural m = Some (JArr l) /\ length l = n /\ any_key keys m = false.
Definition is_flat (plural : bytes) (keys : list bytes) (m : alist) : Prop :=
  alookup plural m = None /\ any_key keys m = true.

(* ---- association-list lemmas -------------------------------------------------------------- *)

Lemma aset_new_app {A} k (v : A) m : alookup k m = None -> aset k v m = m ++ [(k, v)].
Proof.
  induction m as [|[k' v'] m IH]; simpl; intro H; [reflexivity|].
  destruct (bytes_eqb k k'); [discriminate|]. rewrite IH by exact H. reflexivity.
Qed.

Lemma alookup_app {A} k (a b : list (bytes * A)) :
  alookup k (a ++ b) = match alookup k a with Some v => Some v | None => alookup k b end.
Proof.
  induction a as [|[k' v'] a IH]; simpl; [reflexivity|]. destruct (bytes_eqb k k'); [reflexivity|exact IH].
Qed.

Lemma view_ext keys m m' : (forall k, In k keys -> alookup k m' = alookup k m) -> view keys m' = view keys m.
Proof.
  intro H. unfold view. induction keys as [|k r IH]; simpl; [reflexivity|].
  rewrite H by (left; reflexivity). rewrite IH; [reflexivity|]. intros k' Hk. apply H. right. exact Hk.
Qed.

Lemma any_key_false keys m : any_key keys m = false <-> forall k, In k keys -> alookup k m = None.
Proof.
  unfold any_key. split.
  - intros H k Hk. destruct (alookup k m) eqn:E; [|reflexivity].
    assert (existsb (fun k => match alookup k m with Some _ => true | None => false end) keys = true).
    { apply existsb_exists. exists k. split; [exact Hk|]. rewrite E. reflexivity. }
    congruence.
  - intro H. destruct (existsb _ keys) eqn:E; [|reflexivity].
    apply existsb_exists in E. destruct E as (k & Hk & Hv). rewrite (H k Hk) in Hv. discriminate.
Qed.

Lemma any_key_ext keys m m' : (forall k, In k keys -> alookup k m' = alookup k m) -> any_key keys m' = any_key keys m.
Proof.
  intro H. unfold any_key. induction keys as [|k r IH]; simpl; [reflexivity|].
  rewrite H by (left; reflexivity). rewrite IH; [reflexivity|]. intros k' Hk. apply H. right. exact Hk.
Qed.

Lemma view_nil_iff keys m : any_key keys m = false -> view keys m = [].
Proof.
  intro H. rewrite any_key_false in H. unfold view. induction keys as [|k r IH]; simpl; [reflexivity|].
  rewrite H by (left; reflexivity). apply IH. intros k' Hk. apply H. right. exact Hk.
Qed.

Lemma alookup_view_notin keys m k : ~ In k keys -> alookup k (view keys m) = None.
Proof.
  unfold view. induction keys as [|k0 r IH]; intro H; cbn [flat_map]; [reflexivity|].
  rewrite alookup_app. destruct (alookup k0 m) as [v|]; cbn [alookup].
  - destruct (bytes_eqb k k0) eqn:E; [apply bytes_eqb_eq in E; subst; exfalso; apply H; left; reflexivity|].
    apply IH. intro F. apply H. right. exact F.
  - apply IH. intro F. apply H. right. exact F.
Qed.

Lemma alookup_view keys m k : NoDup keys -> In k keys -> alookup k (view keys m) = alookup k m.
Proof.
  induction keys as [|k0 r IH]; intros ND Hin; [destruct Hin|].
  inversion ND as [|? ? Hn ND']; subst. unfold view. cbn [flat_map]. rewrite alookup_app. fold (view r m).
  destruct (bytes_eq_dec k k0) as [->|Ne].
  - destruct (alookup k0 m) as [v|] eqn:E; cbn [alookup].
    + rewrite bytes_eqb_refl. reflexivity.
    + apply alookup_view_notin. exact Hn.
  - destruct Hin as [F|Hin]; [congruence|].
    destruct (alookup k0 m) as [v|]; cbn [alookup].
    + destruct (bytes_eqb k k0) eqn:E; [apply bytes_eqb_eq in E; congruence|]. apply IH; assumption.
    + apply IH; assumption.
Qed.

Lemma view_idem keys m : NoDup keys -> view keys (view keys m) = view keys m.
Proof. intro ND. apply view_ext. intros k Hk. apply alookup_view; assumption. Qed.

(* ---- migrate -------------------------------------------------------------------------------- *)

Lemma migrate_spec keys : forall m o,
  NoDup keys -> NoDup (akeys m) -> (forall k, In k keys -> alookup k o = None) ->
  let '(m', o') := migrate keys m o in
  o' = o ++ view keys m /\
  NoDup (akeys m') /\
  (forall k, In k keys -> alookup k m' = None) /\
  (forall k, ~ In k keys -> alookup k m' = alookup k m).
Proof.
  induction keys as [|k r IH]; intros m o ND NDm Ho; cbn [migrate].
  - unfold view; simpl. rewrite app_nil_r. repeat split; auto. intros k [].
  - inversion ND as [|? ? Hk NDr]; subst.
    destruct (alookup k m) as [v|] eqn:E.
    + specialize (IH (adel k m) (aset k v o) NDr (adel_nodup k m NDm)).
      assert (Ho' : forall k', In k' r -> alookup k' (aset k v o) = None).
      { intros k' Hk'. rewrite alookup_aset_other; [apply Ho; right; exact Hk'|]. intro; subst; contradiction. }
      specialize (IH Ho'). destruct (migrate r (adel k m) (aset k v o)) as [m' o'].
      destruct IH as (Eo & NDm' & Hin & Hout). split; [|split; [exact NDm'|split]].
      * rewrite Eo. rewrite aset_new_app by (apply Ho; left; reflexivity).
        rewrite <- app_assoc. f_equal. unfold view at 2. cbn [flat_map]. rewrite E. cbn [app]. f_equal.
        apply view_ext. intros k' Hk'. apply alookup_adel_other. intro; subst; contradiction.
      * intros k' [Hk'|Hk'].
        -- subst k'. destruct (in_dec bytes_eq_dec k r) as [i|n]; [contradiction|].
           rewrite Hout by exact n. apply alookup_adel_same. exact NDm.
        -- apply Hin. exact Hk'.
      * intros k' Hk'. rewrite Hout by (intro F; apply Hk'; right; exact F).
        apply alookup_adel_other. intro; subst. apply Hk'. left. reflexivity.
    + specialize (IH m o NDr NDm (fun k' Hk' => Ho k' (or_intror Hk'))).
      destruct (migrate r m o) as [m' o']. destruct IH as (Eo & NDm' & Hin & Hout).
      split; [|split; [exact NDm'|split]].
      * rewrite Eo. unfold view at 2. cbn [flat_map]. rewrite E. reflexivity.
      * intros k' [Hk'|Hk']; [|apply Hin; exact Hk'].
        subst k'. destruct (in_dec bytes_eq_dec k r) as [i|n]; [contradiction|]. rewrite Hout by exact n. exact E.
      * intros k' Hk'. apply Hout. intro F. apply Hk'. right. exact F.
Qed.

(* ---- jupdate ---------------------------------------------------------------------------------- *)

Lemma fold_aset_lookup (o : alist) : forall m k,
  alookup k (fold_left (fun acc kv => aset (fst kv) (snd kv) acc) o m) =
  match alookup k (rev o) with Some v => Some v | None => alookup k m end.
Proof.
  induction o as [|[k' v'] o IH]; intros m k; cbn [fold_left rev]; [reflexivity|].
  rewrite IH. cbn [fst snd]. rewrite alookup_app. destruct (alookup k (rev o)); [reflexivity|].
  cbn [alookup]. destruct (bytes_eqb k k') eqn:E.
  - apply bytes_eqb_eq in E. subst. apply alookup_aset_same.
  - apply alookup_aset_other. intro; subst. rewrite bytes_eqb_refl in E. discriminate.
Qed.

Lemma fold_aset_nodup (o : alist) : forall m, NoDup (akeys m) ->
  NoDup (akeys (fold_left (fun acc kv => aset (fst kv) (snd kv) acc) o m)).
Proof.
  induction o as [|[k' v'] o IH]; intros m H; cbn [fold_left]; [exact H|]. apply IH. apply aset_nodup. exact H.
Qed.

Lemma alookup_rev_none {A} k (o : list (bytes * A)) : alookup k (rev o) = None <-> alookup k o = None.
Proof.
  rewrite !alookup_none_notin. unfold akeys. rewrite map_rev. split; intros H F; apply H; [apply in_rev in F|apply in_rev]; assumption.
Qed.

Lemma alookup_rev_nodup {A} k (o : list (bytes * A)) : NoDup (akeys o) -> alookup k (rev o) = alookup k o.
Proof.
  induction o as [|[k' v'] o IH]; intro ND; cbn [rev alookup]; [reflexivity|].
  inversion ND as [|? ? Hn ND']; subst. rewrite alookup_app. rewrite IH by exact ND'.
  destruct (bytes_eqb k k') eqn:E.
  - apply bytes_eqb_eq in E. subst k'. apply alookup_none_notin in Hn. rewrite Hn. cbn [alookup]. rewrite bytes_eqb_refl. reflexivity.
  - destruct (alookup k o); [reflexivity|]. cbn [alookup]. rewrite E. reflexivity.
Qed.

(* ---- one addition --------------------------------------------------------------------------------- *)

Section Add.
  Variable plural : bytes.
  Variable keys : list bytes.
  Hypothesis NDk : NoDup keys.
  Hypothesis Hpl : ~ In plural keys.

  Lemma entries_general m x l :
    alookup plural m = Some (JArr (x :: l)) -> entries plural keys m = x :: l.
  Proof. intro H. unfold entries. rewrite H. reflexivity. Qed.

  Theorem add_entity_step m om r :
    NoDup (akeys m) -> NoDup (akeys om) -> form_ok plural keys m ->
    any_key keys om = true -> alookup plural om = None ->
    add_entity (JObj m) (JObj om) plural keys = Some r ->
    exists m', r = JObj m' /\ NoDup (akeys m') /\ form_ok plural keys m' /\
      map (vw keys) (entries plural keys m') = map (vw keys) (entries plural keys m) ++ [vw keys (JObj om)] /\
      (* the shape *)
      (entries plural keys m = [] -> is_flat plural keys m') /\
      (entries plural keys m <> [] ->
         is_general plural keys m' (S (length (entries plural keys m))) /\
         (* earlier entries are moved / kept unchanged, the new one is appended as given *)
         exists es, alookup plural m' = Some (JArr (es ++ [JObj om])) /\
                    map (vw keys) es = map (vw keys) (entries plural keys m) /\
                    (forall l0, alookup plural m = Some (JArr l0) -> l0 <> [] -> es = l0)) /\
      (* members that are neither entry members nor the list are never touched by a migration or an append *)
      (entries plural keys m <> [] -> forall k, ~ In k keys -> k <> plural -> alookup k m' = alookup k m).
  Proof.
    intros NDm NDo Form Hany Hopl H. unfold add_entity in H.
    unfold form_ok in Form.
    destruct (alookup plural m) as [pv|] eqn:Epl.
    - destruct pv as [| | | | |l|]; try contradiction.
      destruct l as [|x l].
      + (* an empty list is treated as absent *)
        set (m1 := adel plural m) in *.
        assert (ND1 : NoDup (akeys m1)) by (apply adel_nodup; exact NDm).
        assert (Hk1 : forall k, In k keys -> alookup k m1 = alookup k m).
        { intros k Hk. apply alookup_adel_other. intro; subst. contradiction. }
        assert (Hp1 : alookup plural m1 = None) by (apply alookup_adel_same; exact NDm).
        assert (Ent : entries plural keys m = if any_key keys m then [JObj (view keys m)] else []).
        { unfold entries. rewrite Epl. reflexivity. }
        rewrite <- (any_key_ext keys m m1 Hk1) in Ent. rewrite <- (view_ext keys m m1 Hk1) in Ent.
        destruct (any_key keys m1) eqn:Found.
        * (* flattened -> general *)
          pose proof (migrate_spec keys (aset plural (JArr []) m1) [] NDk (aset_nodup _ _ _ ND1) (fun _ _ => eq_refl)) as MS.
          destruct (migrate keys (aset plural (JArr []) m1) []) as [m2 o]. destruct MS as (Eo & ND2 & Hin & Hout).
          cbn [app] in Eo, H. inversion H; subst r. clear H.
          assert (Ev : view keys (aset plural (JArr []) m1) = view keys m1).
          { apply view_ext. intros k Hk. apply alookup_aset_other. intro; subst. contradiction. }
          rewrite Ev in Eo. subst o.
          exists (aset plural (JArr [JObj (view keys m1); JObj om]) m2).
          assert (Lp : alookup plural (aset plural (JArr [JObj (view keys m1); JObj om]) m2) = Some (JArr [JObj (view keys m1); JObj om]))
            by apply alookup_aset_same.
          assert (Lk : forall k, In k keys -> alookup k (aset plural (JArr [JObj (view keys m1); JObj om]) m2) = None).
          { intros k Hk. rewrite alookup_aset_other by (intro; subst; contradiction). apply Hin. exact Hk. }
          split; [reflexivity|]. split; [apply aset_nodup; exact ND2|]. split.
          { unfold form_ok. rewrite Lp. apply any_key_false. exact Lk. }
          split.
          { unfold entries at 1. rewrite Lp. rewrite Ent. reflexivity. }
          split; [rewrite Ent; discriminate|]. split.
          { intros _. rewrite Ent. cbn [length]. split.
            - exists [JObj (view keys m1); JObj om]. split; [exact Lp|]. split; [reflexivity|]. apply any_key_false. exact Lk.
            - exists [JObj (view keys m1)]. split; [exact Lp|]. split; [reflexivity|].
              intros l0 E0 N0. inversion E0; subst. congruence. }
          { intros _ k Hk Hkp. rewrite alookup_aset_other by congruence. rewrite Hout by exact Hk.
            rewrite alookup_aset_other by congruence. apply alookup_adel_other. congruence. }
        * (* empty -> flattened *)
          cbn [jupdate] in H. inversion H; subst r. clear H.
          set (m' := fold_left (fun acc kv => aset (fst kv) (snd kv) acc) om m1).
          assert (Lk : forall k, alookup k m' = match alookup k om with Some v => Some v | None => alookup k m1 end).
          { intro k. unfold m'. rewrite fold_aset_lookup. rewrite alookup_rev_nodup by exact NDo. reflexivity. }
          exists m'. split; [reflexivity|]. split; [apply fold_aset_nodup; exact ND1|].
          assert (Lp : alookup plural m' = None) by (rewrite Lk, Hopl; exact Hp1).
          assert (Vw : view keys m' = view keys om).
          { apply view_ext. intros k Hk. rewrite Lk. destruct (alookup k om); [reflexivity|].
            rewrite any_key_false in Found. apply Found. exact Hk. }
          assert (Ak : any_key keys m' = true).
          { rewrite <- Hany. apply any_key_ext. intros k Hk. rewrite Lk. destruct (alookup k om); [reflexivity|].
            rewrite any_key_false in Found. apply Found. exact Hk. }
          split; [unfold form_ok; rewrite Lp; exact I|]. split.
          { unfold entries at 1. rewrite Lp, Ak, Ent. cbn [map app vw]. rewrite view_idem by exact NDk. rewrite Vw. reflexivity. }
          split; [intros _; split; assumption|]. split; intro F; rewrite Ent in F; congruence.
      + (* already general: append *)
        assert (Found : any_key keys m = false) by exact Form.
        rewrite Found in H. inversion H; subst r. clear H.
        exists (aset plural (JArr ((x :: l) ++ [JObj om])) m).
        assert (Lp : alookup plural (aset plural (JArr ((x :: l) ++ [JObj om])) m) = Some (JArr ((x :: l) ++ [JObj om])))
          by apply alookup_aset_same.
        assert (Ak : any_key keys (aset plural (JArr ((x :: l) ++ [JObj om])) m) = false).
        { rewrite <- Found. apply any_key_ext. intros k Hk. apply alookup_aset_other. intro; subst; contradiction. }
        assert (Ent : entries plural keys m = x :: l) by (unfold entries; rewrite Epl; reflexivity).
        split; [reflexivity|]. split; [apply aset_nodup; exact NDm|]. split.
        { unfold form_ok. rewrite Lp. cbn [app]. exact Ak. }
        split.
        { unfold entries at 1. rewrite Lp. cbn [app]. rewrite Ent. change (x :: l ++ [JObj om]) with ((x :: l) ++ [JObj om]). rewrite map_app. reflexivity. }
        split; [rewrite Ent; discriminate|]. split.
        { intros _. rewrite Ent. split.
          - exists ((x :: l) ++ [JObj om]). split; [exact Lp|]. split; [rewrite app_length; cbn [length]; lia|exact Ak].
          - exists (x :: l). split; [exact Lp|]. split; [reflexivity|]. intros l0 E0 _. congruence. }
        { intros _ k Hk Hkp. apply alookup_aset_other. congruence. }
    - (* no list *)
      assert (Ent : entries plural keys m = if any_key keys m then [JObj (view keys m)] else []).
      { unfold entries. rewrite Epl. reflexivity. }
      destruct (any_key keys m) eqn:Found.
      + pose proof (migrate_spec keys (aset plural (JArr []) m) [] NDk (aset_nodup _ _ _ NDm) (fun _ _ => eq_refl)) as MS.
        destruct (migrate keys (aset plural (JArr []) m) []) as [m2 o]. destruct MS as (Eo & ND2 & Hin & Hout).
        cbn [app] in Eo, H. inversion H; subst r. clear H.
        assert (Ev : view keys (aset plural (JArr []) m) = view keys m).
        { apply view_ext. intros k Hk. apply alookup_aset_other. intro; subst. contradiction. }
        rewrite Ev in Eo. subst o.
        exists (aset plural (JArr [JObj (view keys m); JObj om]) m2).
        assert (Lp : alookup plural (aset plural (JArr [JObj (view keys m); JObj om]) m2) = Some (JArr [JObj (view keys m); JObj om]))
          by apply alookup_aset_same.
        assert (Lk : forall k, In k keys -> alookup k (aset plural (JArr [JObj (view keys m); JObj om]) m2) = None).
        { intros k Hk. rewrite alookup_aset_other by (intro; subst; contradiction). apply Hin. exact Hk. }
        split; [reflexivity|]. split; [apply aset_nodup; exact ND2|]. split.
        { unfold form_ok. rewrite Lp. apply any_key_false. exact Lk. }
        split.
        { unfold entries at 1. rewrite Lp. rewrite Ent. reflexivity. }
        split; [rewrite Ent; discriminate|]. split.
        { intros _. rewrite Ent. cbn [length]. split.
          - exists [JObj (view keys m); JObj om]. split; [exact Lp|]. split; [reflexivity|]. apply any_key_false. exact Lk.
          - exists [JObj (view keys m)]. split; [exact Lp|]. split; [reflexivity|].
            intros l0 E0 N0. congruence. }
        { intros _ k Hk Hkp. rewrite alookup_aset_other by congruence. rewrite Hout by exact Hk.
          apply alookup_aset_other. congruence. }
      + cbn [jupdate] in H. inversion H; subst r. clear H.
        set (m' := fold_left (fun acc kv => aset (fst kv) (snd kv) acc) om m).
        assert (Lk : forall k, alookup k m' = match alookup k om with Some v => Some v | None => alookup k m end).
        { intro k. unfold m'. rewrite fold_aset_lookup. rewrite alookup_rev_nodup by exact NDo. reflexivity. }
        exists m'. split; [reflexivity|]. split; [apply fold_aset_nodup; exact NDm|].
        assert (Lp : alookup plural m' = None) by (rewrite Lk, Hopl; exact Epl).
        assert (Vw : view keys m' = view keys om).
        { apply view_ext. intros k Hk. rewrite Lk. destruct (alookup k om); [reflexivity|].
          rewrite any_key_false in Found. apply Found. exact Hk. }
        assert (Ak : any_key keys m' = true).
        { rewrite <- Hany. apply any_key_ext. intros k Hk. rewrite Lk. destruct (alookup k om); [reflexivity|].
          rewrite any_key_false in Found. apply Found. exact Hk. }
        split; [unfold form_ok; rewrite Lp; exact I|]. split.
        { unfold entries at 1. rewrite Lp, Ak, Ent. cbn [map app vw]. rewrite view_idem by exact NDk. rewrite Vw. reflexivity. }
        split; [intros _; split; assumption|]. split; intro F; rewrite Ent in F; congruence.
  Qed.

  (* ---- any history of additions ---------------------------------------------------------------- *)

  Definition addable (om : alist) : Prop :=
    NoDup (akeys om) /\ any_key keys om = true /\ alookup plural om = None.

  Fixpoint add_all (root : json) (objs : list alist) : option json :=
    match objs with
    | [] => Some root
    | om :: r => match add_entity root (JObj om) plural keys with
                 | Some root' => add_all root' r
                 | None => None
                 end
    end.

  Theorem history m objs r :
    NoDup (akeys m) -> form_ok plural keys m -> Forall addable objs ->
    add_all (JObj m) objs = Some r ->
    exists m', r = JObj m' /\ NoDup (akeys m') /\ form_ok plural keys m' /\
      (* a list of entries, in the order added, earlier ones unchanged *)
      map (vw keys) (entries plural keys m') =
        map (vw keys) (entries plural keys m) ++ map (fun om => vw keys (JObj om)) objs /\
      (* exactly one form, decided by the number of entries *)
      match length (entries plural keys m') with
      | O => objs = [] /\ entries plural keys m = []
      | S O => is_flat plural keys m' \/ (objs = [] /\ length (entries plural keys m) = 1%nat)
      | S (S n) => is_general plural keys m' (S (S n)) \/ objs = []
      end.
  Proof.
    revert m r. induction objs as [|om objs IH]; intros m r NDm Form Hall H.
    - cbn [add_all] in H. inversion H; subst r. exists m. split; [reflexivity|]. split; [exact NDm|].
      split; [exact Form|]. split; [rewrite app_nil_r; reflexivity|].
      destruct (entries plural keys m) as [|e [|e2 es]]; cbn [length]; auto.
    - inversion Hall as [|? ? [NDo [Hany Hopl]] Hall']; subst. cbn [add_all] in H.
      destruct (add_entity (JObj m) (JObj om) plural keys) as [r1|] eqn:E1; [|discriminate].
      destruct (add_entity_step m om r1 NDm NDo Form Hany Hopl E1) as (m1 & -> & ND1 & Form1 & Ent1 & Flat1 & Gen1 & _).
      destruct (IH m1 r ND1 Form1 Hall' H) as (m' & -> & ND' & Form' & Ent' & Shape').
      exists m'. split; [reflexivity|]. split; [exact ND'|]. split; [exact Form'|]. split.
      { rewrite Ent', Ent1. rewrite <- app_assoc. reflexivity. }
      assert (Len : length (entries plural keys m') = (length (entries plural keys m) + 1 + length objs)%nat).
      { rewrite <- (map_length (vw keys)). rewrite Ent', Ent1. rewrite !app_length, !map_length. cbn [length]. reflexivity. }
      destruct (length (entries plural keys m')) as [|[|n]] eqn:L; [lia| |].
      + assert (objs = []) by (destruct objs; [reflexivity|cbn [length] in Len; lia]).
        assert (E0 : entries plural keys m = []) by (destruct (entries plural keys m); [reflexivity|cbn [length] in Len; lia]).
        subst objs. cbn [add_all] in H. inversion H; subst. left. apply Flat1. exact E0.
      + destruct Shape' as [G|Eo]; [left; exact G|]. subst objs. cbn [add_all] in H. inversion H; subst.
        left. assert (Ne : entries plural keys m <> []).
        { intro E0. rewrite E0 in Len. cbn [length] in Len. lia. }
        destruct (Gen1 Ne) as [G _]. cbn [length] in Len.
        replace (S (S n)) with (S (length (entries plural keys m))) by lia. exact G.
  Qed.
End Add.

(* ---- encode_protected ------------------------------------------------------------------------------- *)

Theorem encode_protected_string m s :
  alookup s_protected m = Some (JStr s) -> encode_protected (JObj m) = Some (JObj m).
Proof. intro H. unfold encode_protected. rewrite H. reflexivity. Qed.

Theorem encode_protected_absent m :
  alookup s_protected m = None -> encode_protected (JObj m) = Some (JObj m).
Proof. intro H. unfold encode_protected. rewrite H. reflexivity. Qed.

Theorem encode_protected_result obj r :
  encode_protected obj = Some r ->
  exists m m', obj = JObj m /\ r = JObj m' /\
    (forall k, k <> s_protected -> alookup k m' = alookup k m) /\
    match alookup s_protected m with
    | None => m' = m
    | Some (JStr _) => m' = m
    | Some p => exists e, jose_b64_enc_dump p = Some e /\ alookup s_protected m' = Some e
    end.
Proof.
  unfold encode_protected. destruct obj as [| | | | | |m]; try discriminate.
  destruct (alookup s_protected m) as [p|] eqn:E.
  - destruct p as [| | | |s| |pm]; try discriminate.
    + intro H. inversion H; subst. exists m, m. rewrite E. auto.
    + destruct (jose_b64_enc_dump (JObj pm)) as [e|] eqn:D; [|discriminate].
      intro H. inversion H; subst. exists m, (aset s_protected e m). rewrite E. split; [reflexivity|]. split; [reflexivity|].
      split; [intros k Hk; apply alookup_aset_other; congruence|].
      exists e. split; [exact D|apply alookup_aset_same].
  - intro H. inversion H; subst. exists m, m. rewrite E. auto.
Qed.
