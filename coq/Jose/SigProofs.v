(* C03: what jose_jws_sig produces is the RFC 7515 construction. *)
From JoseV Require Import Jose.Jws Jose.SigAlgs Jose.JwsProofs Codec.B64Proofs Codec.B64JsonProofs.
Local Open Scope N_scope.

Theorem sig_single_product algs jws sig jwk rnd pay j' :
  sig_single algs jws sig jwk rnd pay = Some j' ->
  exists a s1 s2 pre sg e s3,
    sig_find_alg algs (match sig with Some s => s | None => JObj [] end) jwk = Some (a, s1) /\
    encode_protected s1 = Some s2 /\ prefix_bytes s2 = Some pre /\
    sa_sig_ok a jwk = true /\
    (* JWS Signature = sign(ASCII(protected '.' payload)) *)
    sa_sign a jwk rnd (pre ++ pay) = Some sg /\
    jose_b64_enc sg = Some e /\ jset s_signature e s2 = Some s3 /\
    add_signature jws s3 = Some j'.
Proof.
  unfold sig_single. set (s := match sig with Some s => s | None => JObj [] end).
  destruct s eqn:Es; try discriminate.
  destruct (sig_find_alg algs (JObj m) jwk) as [[a s1]|] eqn:F; [|discriminate].
  destruct (encode_protected s1) as [s2|] eqn:E; [|discriminate].
  destruct (sa_sig_ok a jwk) eqn:K; cbn [negb]; [|discriminate].
  destruct (prefix_bytes s2) as [pre|] eqn:P; [|discriminate].
  destruct (sa_sign a jwk rnd (pre ++ pay)) as [sg|] eqn:S; [|discriminate].
  destruct (jose_b64_enc sg) as [e|] eqn:B; [|discriminate].
  destruct (jset s_signature e s2) as [s3|] eqn:J; [|discriminate].
  intro H. exists a, s1, s2, pre, sg, e, s3. repeat split; auto.
Qed.

(* the signature member is the unpadded base64url text of the signature octets, which decodes back to them *)
Theorem sig_member_text sg e :
  wf_bytes sg -> jose_b64_enc sg = Some e -> e = JStr (enc sg) /\ b64_member e = Some sg.
Proof.
  intros W H. rewrite (b64_enc_spec sg W) in H. inversion H; subst. split; [reflexivity|].
  cbn [b64_member]. apply dec_enc. exact W.
Qed.

(* the signing input starts with the protected text exactly as stored, followed by one '.' *)
Theorem prefix_is_protected_dot m pre :
  prefix_bytes (JObj m) = Some pre ->
  pre = (match alookup s_protected m with Some (JStr s) => s | _ => [] end) ++ [46].
Proof.
  unfold prefix_bytes. destruct (alookup s_protected m) as [p|]; [|intro H; inversion H; reflexivity].
  destruct p; try discriminate. intro H; inversion H; reflexivity.
Qed.

(* the concrete HMAC family satisfies the primitive law used by the round trip *)
Theorem hs_sign_verifies name sprm vprm jwk r m sg :
  sa_sign (hs_alg name sprm vprm) jwk r m = Some sg -> sa_verify (hs_alg name sprm vprm) jwk m sg = true.
Proof.
  cbn [sa_sign sa_verify hs_alg]. destruct (oct_key jwk) as [k|]; [|discriminate].
  intro H. inversion H. apply bytes_eqb_refl.
Qed.

Theorem hs_same_key_test name sprm vprm jwk :
  sa_sig_ok (hs_alg name sprm vprm) jwk = sa_ver_ok (hs_alg name sprm vprm) jwk.
Proof. reflexivity. Qed.
