(* C14 -- the guards that bound work and buffer use on hostile parameters.

   One function per guard site of the C code, written in the order of the C statements.  Each takes
   the attacker-controlled JSON (or the length the C code extracted from it) and says whether the
   code goes on, and with how much: PBKDF2 iterations, bytes handed to the inflater / the cipher,
   bytes written into which fixed buffer.  C [size_t] results of the base64 length query are
   [option N] with [None] = SIZE_MAX (as in Codec/B64Impl.v).  The only arithmetic that is not the
   mathematical one is the conversion of a 64-bit [json_int_t] to a C [int], written [wrap32].

   No proofs here (Jose/LimitsProofs.v). *)
From JoseV Require Export Codec.B64Spec Codec.B64Json Gen.Consts Gen.Tables Jose.Stubs.
Local Open Scope N_scope.

Inductive gverdict (A : Type) : Type :=
| Refuse
| Proceed (a : A).
Arguments Refuse {A}.
Arguments Proceed {A} a.

(* ---- C integer conversions and jansson's unpack formats ------------------------------------- *)

(* conversion of an integer to a 32-bit two's complement [int] (clang/gcc: modulo 2^32) *)
Definition wrap32 (z : Z) : Z :=
  let m := Z.modulo z 4294967296 in
  if (m <? 2147483648)%Z then m else (m - 4294967296)%Z.

(* json_unpack "I": the json_int_t itself (64 bits; every integer jansson can hold) *)
Definition unpack_I (j : json) : option Z := match j with JInt z => Some z | _ => None end.
(* json_unpack "i": [*va_arg(ap, int * ) = (int) json_integer_value(root)] *)
Definition unpack_i (j : json) : option Z := match j with JInt z => Some (wrap32 z) | _ => None end.

(* ---- member names ------------------------------------------------------------------------- *)

Definition l_p2c : bytes := [112; 50; 99].
Definition l_p2s : bytes := [112; 50; 115].
Definition l_k : bytes := [107].
Definition l_kty : bytes := [107; 116; 121].
Definition l_oct : bytes := [111; 99; 116].
Definition l_bytes : bytes := [98; 121; 116; 101; 115].
Definition l_apu : bytes := [97; 112; 117].
Definition l_apv : bytes := [97; 112; 118].
Definition l_x : bytes := [120].
Definition l_zip : bytes := [122; 105; 112].
Definition l_protected : bytes := [112; 114; 111; 116; 101; 99; 116; 101; 100].
Definition l_ciphertext : bytes := [99; 105; 112; 104; 101; 114; 116; 101; 120; 116].
Definition l_encrypted_key : bytes := [101; 110; 99; 114; 121; 112; 116; 101; 100; 95; 107; 101; 121].

Definition n_pbes2_256 : bytes := [80;66;69;83;50;45;72;83;50;53;54;43;65;49;50;56;75;87].
Definition n_pbes2_384 : bytes := [80;66;69;83;50;45;72;83;51;56;52;43;65;49;57;50;75;87].
Definition n_pbes2_512 : bytes := [80;66;69;83;50;45;72;83;53;49;50;43;65;50;53;54;75;87].

(* ---- the decode-into-a-fixed-buffer pattern --------------------------------------------------

     len = jose_b64_dec(json, NULL, 0);
     if (len < min || len > sizeof(buf)) fail;          (SIZE_MAX is > sizeof(buf))
     if (jose_b64_dec(json, buf, ol) != len) fail;      ol = sizeof(buf), or len itself

   sr_go: the length the caller goes on with (None = refused); sr_writes: every store into the
   buffer, in order, also when the text is rejected half way; sr_cap: sizeof(buf). *)
Record site_res := { sr_go : option N; sr_writes : list (N * N); sr_cap : N }.

Definition site_refuse (cap : N) : site_res := {| sr_go := None; sr_writes := []; sr_cap := cap |}.

Definition sr_verdict (r : site_res) : gverdict N :=
  match sr_go r with Some n => Proceed n | None => Refuse end.

Definition decode_into (j : option json) (min cap : N) (ol_is_len : bool) : site_res :=
  match j with
  | None => site_refuse cap                       (* json_object_get gave NULL: the unpack fails, SIZE_MAX *)
  | Some j =>
      match ret (jose_b64_dec j None) with
      | None => site_refuse cap
      | Some len =>
          if (len <? min) || (cap <? len) then site_refuse cap
          else
            let r := jose_b64_dec j (Some (if ol_is_len then len else cap)) in
            {| sr_go := match ret r with
                        | Some n => if n =? len then Some len else None
                        | None => None
                        end;
               sr_writes := writes r;
               sr_cap := cap |}
      end
  end.

(* ---- lib/openssl/hmac.c jhmac(): key[KEYMAX] ------------------------------------------------- *)

Definition jhmac (mdsize : N) (jwk : json) : site_res :=
  decode_into (lookup l_k jwk) mdsize keymax false.

(* ---- lib/openssl/oct.c jwk_make_execute(): key[KEYMAX], "{s:I}" ------------------------------- *)

(* Proceed n: RAND_bytes(key, (int) len) fills n bytes of key[KEYMAX] *)
Definition oct_make (jwk : json) : gverdict N :=
  match lookup l_bytes jwk with
  | None => Refuse
  | Some j =>
      match unpack_I j with
      | None => Refuse
      | Some len =>
          if (len <=? 0)%Z || (Z.of_N keymax <? len)%Z then Refuse
          else Proceed (Z.to_N (wrap32 len))
      end
  end.

(* ---- lib/openssl/aeskw.c ------------------------------------------------------------------------ *)

(* EVP_CIPHER_block_size of the AES key-wrap ciphers *)
Definition aeskw_blk : N := 8.
Definition aeskw_ctcap : N := keymax + aeskw_blk * 2.

(* alg_wrap_wrp: pt[KEYMAX] <- cek.k, decoded with ol = ptl *)
Definition aeskw_wrp_pt (cek : json) : site_res := decode_into (lookup l_k cek) 0 keymax true.
(* ... and ct[sizeof(pt) + 2 * blk] receives the RFC 3394 output of ptl + 8 bytes: (bytes, capacity) *)
Definition aeskw_wrp_ct (ptl : N) : N * N := (ptl + 8, aeskw_ctcap).

(* alg_wrap_unw: ct[KEYMAX + 2 * blk] <- encrypted_key, decoded with ol = ctl; pt[sizeof(ct)] receives ctl - 8 *)
Definition aeskw_unw_ct (rcp : json) : site_res := decode_into (lookup l_encrypted_key rcp) 0 aeskw_ctcap true.
Definition aeskw_unw_pt (ctl : N) : N * N := (ctl - 8, aeskw_ctcap).

(* ---- lib/openssl/pbes2.c ------------------------------------------------------------------------- *)

(* what reaches PKCS5_PBKDF2_HMAC *)
Record kdf_req := { kr_iter : Z; kr_passl : N; kr_saltl : N }.

Definition iters_requested (v : gverdict kdf_req) : Z :=
  match v with Proceed q => kr_iter q | Refuse => 0%Z end.

Definition pbes2_idx (alg : bytes) : option N :=
  if bytes_eqb alg n_pbes2_256 then Some 0
  else if bytes_eqb alg n_pbes2_384 then Some 1
  else if bytes_eqb alg n_pbes2_512 then Some 2
  else None.

(* a JSON string as key is turned into {"kty":"oct","k":b64(string)} first.  The encoder is taken by its
   specification [enc] (Codec/B64JsonProofs.b64_enc_spec: jose_b64_enc s = Some (JStr (enc s))) *)
Definition pbkdf2_jwk (jwk : json) : option json :=
  match jwk with
  | JStr s => Some (JObj [(l_kty, JStr l_oct); (l_k, JStr (enc s))])
  | _ => Some jwk
  end.

(* pbkdf2(): ky[KEYMAX] <- k *)
Definition pbkdf2_ky (jwk : json) : site_res :=
  match pbkdf2_jwk jwk with
  | None => site_refuse keymax
  | Some key => decode_into (lookup l_k key) 0 keymax false
  end.

(* pbkdf2(): slt[pfx + stl] <- alg NUL st : (bytes copied, capacity of the variable-length array) *)
Definition pbkdf2_slt (alg : bytes) (stl : N) : N * N := (blen alg + 1 + stl, blen alg + 1 + stl).

Definition pbkdf2_guard (alg : bytes) (jwk : json) (iter : Z) (stl : N) : gverdict kdf_req :=
  match pbes2_idx alg with
  | None => Refuse
  | Some _ =>
      match sr_go (pbkdf2_ky jwk) with
      | None => Refuse
      | Some kyl => Proceed {| kr_iter := iter; kr_passl := kyl; kr_saltl := fst (pbkdf2_slt alg stl) |}
      end
  end.

(* alg_wrap_unw: st[KEYMAX] <- p2s *)
Definition pbes2_unw_st (hdr : json) : site_res := decode_into (lookup l_p2s hdr) 8 keymax false.

(* alg_wrap_unw: "{s:I}" p2c (64 bits), [p2c < 1 || p2c > MAX] refuses, then [pbkdf2(..., int iter = p2c, ...)] *)
Definition pbes2_unw_guard (alg : bytes) (hdr jwk : json) : gverdict kdf_req :=
  match pbes2_idx alg with
  | None => Refuse
  | Some _ =>
      match lookup l_p2c hdr with
      | None => Refuse
      | Some pj =>
          match unpack_I pj with
          | None => Refuse
          | Some p2c =>
              if (p2c <? 1)%Z || (Z.of_N p2c_max_iterations <? p2c)%Z then Refuse
              else
                match sr_go (pbes2_unw_st hdr) with
                | None => Refuse
                | Some stl => pbkdf2_guard alg jwk (wrap32 p2c) stl
                end
          end
      end
  end.

Definition pbes2_wrp_stl (i : N) : N := match i with 0 => 16 | 1 => 24 | _ => 32 end.

(* alg_wrap_wrp: [json_int_t p2c = P2C_MAX_ITERATIONS; json_unpack(hdr, "{s?I}", "p2c", &p2c)]; the range test is
   on the 64-bit value; [pbkdf2(..., int iter = p2c, ...)].  Proceed (p2c member of the produced header, request). *)
Definition pbes2_wrp_guard (alg : bytes) (hdr jwk : json) : gverdict (json * kdf_req) :=
  match pbes2_idx alg with
  | None => Refuse
  | Some i =>
      let p2c := match lookup l_p2c hdr with
                 | None => Some (Z.of_N p2c_max_iterations)
                 | Some j => unpack_I j
                 end in
      match p2c with
      | None => Refuse
      | Some c =>
          if (c <? Z.of_N p2c_min_iterations)%Z || (Z.of_N p2c_max_iterations <? c)%Z then Refuse
          else
            match pbkdf2_guard alg jwk (wrap32 c) (pbes2_wrp_stl i) with
            | Refuse => Refuse
            | Proceed r =>
                Proceed (match lookup l_p2c hdr with Some j => j | None => JInt c end, r)
            end
      end
  end.

Definition pbes2_wrp_req (alg : bytes) (hdr jwk : json) : gverdict kdf_req :=
  match pbes2_wrp_guard alg hdr jwk with
  | Proceed (_, r) => Proceed r
  | Refuse => Refuse
  end.

(* what the KDF then does: OpenSSL refuses a count below 1 (hypothesis of the proofs; this is the
   executable form the correspondence run validates) *)
Definition openssl_pbkdf2_accepts (iter : Z) : bool := (1 <=? iter)%Z.

Definition kdf_work (accepts : Z -> bool) (v : gverdict kdf_req) : Z :=
  match v with
  | Proceed q => if accepts (kr_iter q) then kr_iter q else 0%Z
  | Refuse => 0%Z
  end.

(* ---- lib/openssl/ecdhes.c decode() / derive() --------------------------------------------------- *)

(* decode(obj, name, buf, len): "{s?s%}"; absent = 0 bytes; longer than the buffer or undecodable = refusal *)
Definition ecdhes_decode (obj : json) (name : bytes) (cap : N) : site_res :=
  if negb (is_object obj) then site_refuse cap
  else
    match lookup name obj with
    | None => {| sr_go := Some 0; sr_writes := []; sr_cap := cap |}
    | Some (JStr s) =>
        match ret (dec_buf s None) with
        | None => site_refuse cap
        | Some dlen =>
            if cap <? dlen then site_refuse cap
            else let r := dec_buf s (Some cap) in
                 {| sr_go := match ret r with
                             | Some n => if cap <? n then None else Some n
                             | None => None
                             end;
                    sr_writes := writes r; sr_cap := cap |}
        end
    | Some _ => site_refuse cap
    end.

(* concatkdf(): reps full digests and one partial one are copied into dk *)
Definition concatkdf_written (dkl hsz : N) : N := dkl / hsz * hsz + dkl mod hsz.

Record derive_res := { dv_dk : N; dv_pu : N; dv_pv : N; dv_ky : N }.

(* derive(): dkl is the key length of the content encryption (None = SIZE_MAX: unknown "enc");
   dk, pu, pv, ky are all [KEYMAX] *)
Definition ecdhes_derive (dkl : option N) (hdr key : json) : gverdict derive_res :=
  match dkl with
  | None => Refuse
  | Some dkl =>
      if (dkl <? 16) || (keymax <? dkl) then Refuse
      else
        match sr_go (ecdhes_decode hdr l_apu keymax) with
        | None => Refuse
        | Some pul =>
            match sr_go (ecdhes_decode hdr l_apv keymax) with
            | None => Refuse
            | Some pvl =>
                match sr_go (ecdhes_decode key l_x keymax) with
                | None => Refuse
                | Some kyl => Proceed {| dv_dk := concatkdf_written dkl 32; dv_pu := pul; dv_pv := pvl; dv_ky := kyl |}
                end
            end
        end
  end.

(* ---- lib/zlib/deflate.c inf_feed() ---------------------------------------------------------------- *)

(* Proceed n: n bytes are handed to inflate() *)
Definition inf_feed_guard (len : N) : gverdict N :=
  if max_compressed_size <? len then Refuse else Proceed len.

(* ---- lib/misc.c zip_in_protected_header(), lib/jwe.c jose_jwe_dec_cek() ---------------------------- *)

Definition zip_in_protected_header (jwe : json) : bool :=
  let prt := match lookup l_protected jwe with
             | Some (JStr s) => jose_b64_dec_load (JStr s)
             | other => other
             end in
  match prt with
  | Some p =>
      match lookup l_zip p with
      | Some (JStr z) => registered KComp (cstr z)
      | _ => false
      end
  | None => false
  end.

(* "{s:s%}" ciphertext: the length of the text *)
Definition ct_len (jwe : json) : option N :=
  match lookup l_ciphertext jwe with
  | Some (JStr s) => Some (blen s)
  | _ => None
  end.

(* jose_jwe_dec_cek(): io_ok = the three IO objects could be made (jose_jwe_dec_cek_io did not refuse).
   Proceed n: n characters are fed to the base64 decoder in front of the cipher. *)
Definition dec_cek_guard (jwe : json) (ctl : option N) (io_ok : bool) : gverdict N :=
  match ctl with
  | None => Refuse
  | Some n =>
      if zip_in_protected_header jwe && (max_compressed_size <? n) then Refuse
      else if io_ok then Proceed n else Refuse
  end.

Definition dec_cek (jwe cek : json) : gverdict N :=
  dec_cek_guard jwe (ct_len jwe) (decide_deccek jwe cek).

(* ---- OpenSSL behaviour used only to predict the final gverdict in the correspondence run ------------ *)

(* RFC 3394 as implemented by EVP_aes_*_wrap: whole 64-bit blocks, at least two of plaintext; an empty
   update is a no-op that succeeds *)
Definition openssl_kw_wrap_ok (ptl : N) : bool := (ptl =? 0) || ((16 <=? ptl) && (ptl mod 8 =? 0)).
Definition openssl_kw_unwrap_ok (ctl : N) : bool := (ctl =? 0) || ((24 <=? ctl) && (ctl mod 8 =? 0)).
