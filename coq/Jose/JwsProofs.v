(* C01: the verdict of JWS verification is exactly the any/all composition of the
   primitive verification predicate over exactly the signing input. *)
From JoseV Require Import Jose.Jws Io.Chain Io.B64Stream Io.ChainProofs.
Local Open Scope N_scope.

Section Sound.
  Variable algs : list sign_alg.

  (* ---- the verdict of one leaf -------------------------------------------------------- *)

  Definition leaf_valid (a : sign_alg) (sig jwk : json) (input : bytes) : bool :=
    match lookup s_signature sig with
    | None => false
    | Some sv => match b64_member sv with
                 | None => false
                 | Some sg => sa_verify a jwk input sg
                 end
    end.

  Lemma sink_malloc_true d L : snd (runc (Sink (SMalloc d)) L) = true.
  Proof. cbn [runc]. rewrite sink_feeds_malloc. rewrite Nat.eqb_refl. reflexivity. Qed.

  Lemma leaf_verdict a sig jwk pre chunks :
    snd (runc (ver_leaf a sig jwk pre) chunks) = leaf_valid a sig jwk (pre ++ concat chunks).
  Proof.
    unfold ver_leaf, leaf_valid.
    match goal with |- snd (runc (Stage (atdone_T ?f) pre ?n) chunks) = _ => set (F := f) end.
    pose proof (runc_stage (atdone_T F) pre (Sink (SMalloc [])) chunks) as R.
    rewrite atdone_accept in R. unfold F in R |- *.
    destruct (lookup s_signature sig) as [sv|]; [|exact R].
    destruct (b64_member sv) as [sg|]; [|exact R].
    destruct (sa_verify a jwk (pre ++ concat chunks) sg).
    - destruct R as (L & _ & V & _). rewrite V. apply sink_malloc_true.
    - exact R.
  Qed.

  Lemma leaf_lawful a sig jwk pre : lawful (ver_leaf a sig jwk pre).
  Proof. unfold ver_leaf. cbn [lawful sink_ok]. split; [apply atdone_lawful|exact I]. Qed.

  (* ---- one signature object, one key: the decision and the check, without chains --------- *)

  Definition single_choice (sig jwk : json) : option (sign_alg * bytes) :=
    match sig with
    | JObj _ =>
        match get_opt_str s_alg jwk with
        | OBad => None
        | kalg =>
            match jws_hdr sig with
            | None => None
            | Some hdr =>
                match get_opt_str s_alg hdr with
                | OBad => None
                | halg =>
                    let chosen :=
                      match halg, kalg with
                      | OAbsent, OStr k => Some k
                      | OAbsent, _ => None
                      | OStr h, OStr k => if bytes_eqb h k then Some h else None
                      | OStr h, _ => Some h
                      | OBad, _ => None
                      end in
                    match chosen with
                    | None => None
                    | Some name =>
                        match find_sign algs name with
                        | None => None
                        | Some a =>
                            if negb (jwk_prm jwk false (Some (sa_vprm a))) then None
                            else if negb (sa_ver_ok a jwk) then None
                            else match prefix_bytes sig with
                                 | Some pre => Some (a, pre)
                                 | None => None
                                 end
                        end
                    end
                end
            end
        end
    | _ => None
    end.

  Lemma ver_single_choice sig jwk :
    ver_single algs sig jwk =
    match single_choice sig jwk with Some (a, pre) => Some (ver_leaf a sig jwk pre) | None => None end.
  Proof.
    unfold ver_single, single_choice. destruct sig; try reflexivity.
    destruct (get_opt_str s_alg jwk); try reflexivity;
      destruct (jws_hdr (JObj m)) as [hdr|]; try reflexivity;
      destruct (get_opt_str s_alg hdr); try reflexivity;
      try (destruct (bytes_eqb s0 s); try reflexivity);
      match goal with |- context [find_sign algs ?n] => destruct (find_sign algs n) as [a|]; try reflexivity end;
      destruct (negb (jwk_prm jwk false (Some (sa_vprm a)))); try reflexivity;
      destruct (negb (sa_ver_ok a jwk)); try reflexivity;
      destruct (prefix_bytes (JObj m)); reflexivity.
  Qed.

  Definition single_valid (sig jwk : json) (pay : bytes) : bool :=
    match single_choice sig jwk with
    | Some (a, pre) => leaf_valid a sig jwk (pre ++ pay)
    | None => false
    end.

  Definition chain_verdict (o : option chain) (chunks : list bytes) : bool :=
    match o with Some c => snd (runc c chunks) | None => false end.

  Lemma single_verdict sig jwk chunks :
    chain_verdict (ver_single algs sig jwk) chunks = single_valid sig jwk (concat chunks).
  Proof.
    unfold chain_verdict, single_valid. rewrite ver_single_choice.
    destruct (single_choice sig jwk) as [[a pre]|]; [apply leaf_verdict|reflexivity].
  Qed.

  (* ---- multiplexers over optional verifiers ------------------------------------------------ *)

  Lemma somes_filter_in {A} (l : list (option A)) x : In x (somes l) <-> In (Some x) l.
  Proof.
    induction l as [|[y|] l IH]; cbn [somes In].
    - tauto.
    - split; (intros [H|H]; [left; congruence|right; apply IH; exact H]).
    - split.
      + intro H. right. apply IH. exact H.
      + intros [H|H]; [discriminate|apply IH; exact H].
  Qed.

  Lemma plex_any_somes (os : list (option chain)) chunks :
    snd (runc (plex_of false (somes os)) chunks) = existsb (fun o => chain_verdict o chunks) os.
  Proof.
    unfold plex_of. destruct (snd (runc _ chunks)) eqn:V.
    - apply plex_any_verdict in V. destruct V as (fb & Hin & Hf & Hv).
      apply in_map_iff in Hin. destruct Hin as (c & <- & Hc). cbn [snd] in Hv.
      symmetry. apply existsb_exists. exists (Some c). split; [apply somes_filter_in; exact Hc|exact Hv].
    - symmetry. destruct (existsb _ os) eqn:E; [|reflexivity].
      apply existsb_exists in E. destruct E as ([c|] & Hin & Hv); cbn [chain_verdict] in Hv; [|discriminate].
      assert (T : snd (runc (Plex false (map (fun c => (true, c)) (somes os))) chunks) = true).
      { apply plex_any_verdict. exists (true, c). split; [apply in_map_iff; exists c; split; [reflexivity|apply somes_filter_in; exact Hin]|].
        split; [reflexivity|exact Hv]. }
      congruence.
  Qed.

  Lemma plex_all_list (cs : list chain) chunks :
    snd (runc (plex_of true cs) chunks) = (match cs with [] => false | _ => true end) && forallb (fun c => snd (runc c chunks)) cs.
  Proof.
    unfold plex_of. destruct (snd (runc _ chunks)) eqn:V.
    - apply plex_all_verdict in V. destruct V as [(fb & Hin & _) Hall]. symmetry. apply andb_true_iff. split.
      + destruct cs; [destruct Hin|reflexivity].
      + apply forallb_forall. intros c Hc. apply (Hall (true, c)); [apply in_map_iff; eauto|reflexivity].
    - symmetry. destruct cs as [|c0 cs']; [reflexivity|]. cbn [andb].
      destruct (forallb _ (c0 :: cs')) eqn:E; [|reflexivity].
      assert (T : snd (runc (Plex true (map (fun c => (true, c)) (c0 :: cs'))) chunks) = true).
      { apply plex_all_verdict. split.
        - exists (true, c0). split; [left; reflexivity|reflexivity].
        - intros fb Hin _. apply in_map_iff in Hin. destruct Hin as (c & <- & Hc). cbn [snd].
          rewrite forallb_forall in E. apply E. exact Hc. }
      congruence.
  Qed.

  (* ---- the whole verification ------------------------------------------------------------------ *)

  Definition nosig_valid (jws jwk : json) (pay : bytes) : bool :=
    match lookup s_signatures jws with
    | Some (JArr l) => existsb (fun s => single_valid s jwk pay) l
    | _ => single_valid jws jwk pay
    end.

  Definition one_valid (jws : json) (sig : option json) (jwk : json) (pay : bytes) : bool :=
    match sig with None => nosig_valid jws jwk pay | Some s => single_valid s jwk pay end.

  Lemma existsb_map' {A B} (f : A -> B) (p : B -> bool) l : existsb p (map f l) = existsb (fun x => p (f x)) l.
  Proof. induction l as [|x l IH]; cbn [map existsb]; [reflexivity|]. rewrite IH. reflexivity. Qed.

  Lemma forallb_map' {A B} (f : A -> B) (p : B -> bool) l : forallb p (map f l) = forallb (fun x => p (f x)) l.
  Proof. induction l as [|x l IH]; cbn [map forallb]; [reflexivity|]. rewrite IH. reflexivity. Qed.

  Lemma existsb_ext' {A} (p q : A -> bool) l : (forall x, p x = q x) -> existsb p l = existsb q l.
  Proof. intro H. induction l as [|x l IH]; cbn [existsb]; [reflexivity|]. rewrite H, IH. reflexivity. Qed.

  Lemma forallb_ext' {A} (p q : A -> bool) l : (forall x, p x = q x) -> forallb p l = forallb q l.
  Proof. intro H. induction l as [|x l IH]; cbn [forallb]; [reflexivity|]. rewrite H, IH. reflexivity. Qed.

  Lemma one_verdict jws sig jwk chunks :
    chain_verdict (ver_one algs jws sig jwk) chunks = one_valid jws sig jwk (concat chunks).
  Proof.
    unfold ver_one, one_valid. destruct sig as [s|]; [apply single_verdict|].
    unfold ver_nosig, nosig_valid. destruct (lookup s_signatures jws) as [v|]; [|apply single_verdict].
    destruct v; try apply single_verdict.
    cbn [chain_verdict]. rewrite plex_any_somes. rewrite existsb_map'.
    apply existsb_ext'. intro s. apply single_verdict.
  Qed.

  Definition sig_list (sig : option json) (keys : list json) : option (list (option json)) :=
    match sig with
    | Some (JArr sl) => if Nat.eqb (length sl) (length keys) then Some (map Some sl) else None
    | Some (JObj m) => Some (map (fun _ => Some (JObj m)) keys)
    | Some _ => Some (map (fun _ => None) keys)
    | None => Some (map (fun _ => None) keys)
    end.

  (* the verdict, stated without any IO object *)
  Definition ver_valid (jws : json) (sig : option json) (jwk : json) (all : bool) (pay : bytes) : bool :=
    match key_list jwk with
    | Some keys =>
        match sig_list sig keys with
        | None => false
        | Some sl =>
            let pairs := combine sl keys in
            if all then (match pairs with [] => false | _ => true end) &&
                        forallb (fun sk => one_valid jws (fst sk) (snd sk) pay) pairs
            else existsb (fun sk => one_valid jws (fst sk) (snd sk) pay) pairs
        end
    | None => one_valid jws sig jwk pay
    end.

  Lemma somes_all {A} (os : list (option A)) :
    existsb (fun o => match o with None => true | Some _ => false end) os = false ->
    map Some (somes os) = os.
  Proof.
    induction os as [|[x|] os IH]; cbn [existsb somes map orb]; intro H; [reflexivity| |discriminate].
    rewrite IH by exact H. reflexivity.
  Qed.

  Definition nonempty_b {A} (l : list A) : bool := match l with [] => false | _ => true end.

  Lemma nonempty_somes {A} (os : list (option A)) :
    existsb (fun o => match o with None => true | Some _ => false end) os = false ->
    nonempty_b (somes os) = nonempty_b os.
  Proof. destruct os as [|[x|] os]; cbn [existsb somes nonempty_b orb]; intro H; try reflexivity. discriminate. Qed.

  Lemma nonempty_map {A B} (f : A -> B) l : nonempty_b (map f l) = nonempty_b l.
  Proof. destruct l; reflexivity. Qed.

  Theorem ver_io_verdict jws sig jwk all chunks :
    chain_verdict (ver_io algs jws sig jwk all) chunks = ver_valid jws sig jwk all (concat chunks).
  Proof.
    unfold ver_io, ver_valid. destruct (key_list jwk) as [keys|]; [|apply one_verdict].
    change (match sig with
            | Some (JArr sl) => if Nat.eqb (length sl) (length keys) then Some (map Some sl) else None
            | Some (JObj m) => Some (map (fun _ : json => Some (JObj m)) keys)
            | Some _ => Some (map (fun _ : json => None) keys)
            | None => Some (map (fun _ : json => None) keys)
            end) with (sig_list sig keys).
    destruct (sig_list sig keys) as [sl|]; [|reflexivity].
    set (pairs := combine sl keys).
    set (ios := map (fun sk => ver_one algs jws (fst sk) (snd sk)) pairs).
    assert (Hv : forall sk, chain_verdict (ver_one algs jws (fst sk) (snd sk)) chunks = one_valid jws (fst sk) (snd sk) (concat chunks))
      by (intro sk; apply one_verdict).
    destruct all.
    - cbn [andb].
      destruct (existsb (fun o => match o with None => true | Some _ => false end) ios) eqn:Ex.
      + (* some key has no verifier: refused; that key's own verdict is false *)
        cbn [chain_verdict]. symmetry. apply existsb_exists in Ex. destruct Ex as (o & Hin & Ho).
        destruct o; [discriminate|]. unfold ios in Hin. apply in_map_iff in Hin. destruct Hin as (sk & E & Hsk).
        destruct pairs as [|p0 pr] eqn:P; [destruct Hsk|]. cbn [andb].
        apply Bool.not_true_is_false. intro F. rewrite forallb_forall in F. specialize (F sk Hsk).
        rewrite <- Hv in F. rewrite E in F. discriminate.
      + cbn [chain_verdict]. rewrite plex_all_list.
        pose proof (somes_all ios Ex) as SA.
        change (match somes ios with [] => false | _ => true end) with (nonempty_b (somes ios)).
        change (match pairs with [] => false | _ => true end) with (nonempty_b pairs).
        rewrite (nonempty_somes ios Ex). unfold ios at 1. rewrite nonempty_map. f_equal.
        transitivity (forallb (fun o => chain_verdict o chunks) ios).
        * rewrite <- SA at 2. rewrite forallb_map'. reflexivity.
        * unfold ios. rewrite forallb_map'. apply forallb_ext'. exact Hv.
    - cbn [andb chain_verdict]. rewrite plex_any_somes. unfold ios. rewrite existsb_map'. apply existsb_ext'. exact Hv.
  Qed.

  (* jose_jws_ver (one-shot) and the streamed form give the same verdict, for every chunking *)
  Theorem jws_ver_spec jws sig jwk all :
    jws_ver algs jws sig jwk all =
    match lookup s_payload jws with
    | Some (JStr pay) => ver_valid jws sig jwk all pay
    | _ => false
    end.
  Proof.
    unfold jws_ver. destruct (lookup s_payload jws) as [p|]; [|reflexivity]. destruct p; try reflexivity.
    pose proof (ver_io_verdict jws sig jwk all [s]) as V. cbn [concat] in V. rewrite app_nil_r in V.
    unfold chain_verdict in V. destruct (ver_io algs jws sig jwk all); exact V.
  Qed.

  Theorem ver_stream_same jws sig jwk all chunks c :
    ver_io algs jws sig jwk all = Some c -> snd (runc c chunks) = ver_valid jws sig jwk all (concat chunks).
  Proof. intro H. pose proof (ver_io_verdict jws sig jwk all chunks) as V. rewrite H in V. exact V. Qed.

  (* ---- soundness read off the specification --------------------------------------------------- *)

  (* one key accepted means: some signature object names (or the key declares) an algorithm a, the key is
     permitted to verify, and the primitive accepts the decoded signature over protected || '.' || payload *)
  Theorem single_valid_sound sig jwk pay :
    single_valid sig jwk pay = true ->
    exists a pre sv sg,
      single_choice sig jwk = Some (a, pre) /\ prefix_bytes sig = Some pre /\
      In a algs /\ jwk_prm jwk false (Some (sa_vprm a)) = true /\
      lookup s_signature sig = Some sv /\ b64_member sv = Some sg /\
      sa_verify a jwk (pre ++ pay) sg = true.
  Proof.
    unfold single_valid. destruct (single_choice sig jwk) as [[a pre]|] eqn:C; [|discriminate].
    unfold leaf_valid. destruct (lookup s_signature sig) as [sv|] eqn:L; [|discriminate].
    destruct (b64_member sv) as [sg|] eqn:B; [|discriminate]. intro V.
    exists a, pre, sv, sg. split; [reflexivity|].
    unfold single_choice in C. destruct sig; try discriminate.
    destruct (get_opt_str s_alg jwk); try discriminate;
      destruct (jws_hdr (JObj m)) as [hdr|]; try discriminate;
      destruct (get_opt_str s_alg hdr); try discriminate;
      try (destruct (bytes_eqb s0 s); try discriminate);
      match type of C with context [find_sign algs ?n] => destruct (find_sign algs n) as [a0|] eqn:F; try discriminate end;
      (destruct (jwk_prm jwk false (Some (sa_vprm a0))) eqn:P; cbn [negb] in C; try discriminate);
      (destruct (sa_ver_ok a0 jwk); cbn [negb] in C; try discriminate);
      (destruct (prefix_bytes (JObj m)) as [pre0|] eqn:Pb; try discriminate);
      inversion C; subst; (split; [reflexivity|]); (split; [unfold find_sign in F; apply find_some in F; tauto|]);
      (split; [exact P|]); auto.
  Qed.

  Theorem ver_valid_keys jws sig keys jwk all pay :
    key_list jwk = Some keys -> ver_valid jws sig jwk all pay = true ->
    keys <> [] /\
    exists sl, sig_list sig keys = Some sl /\
      if all then forall sk, In sk (combine sl keys) -> one_valid jws (fst sk) (snd sk) pay = true
      else exists sk, In sk (combine sl keys) /\ one_valid jws (fst sk) (snd sk) pay = true.
  Proof.
    intros K H. unfold ver_valid in H. rewrite K in H. destruct (sig_list sig keys) as [sl|] eqn:S; [|discriminate].
    assert (Ne : combine sl keys <> [] -> keys <> []).
    { intros N E. subst keys. destruct sl; apply N; reflexivity. }
    destruct all.
    - apply andb_true_iff in H. destruct H as [H1 H2]. split.
      + apply Ne. destruct (combine sl keys); [discriminate|discriminate].
      + exists sl. split; [reflexivity|]. intros sk Hin. rewrite forallb_forall in H2. apply H2. exact Hin.
    - apply existsb_exists in H. destruct H as (sk & Hin & Hv). split.
      + apply Ne. destruct (combine sl keys); [destruct Hin|discriminate].
      + exists sl. split; [reflexivity|]. exists sk. auto.
  Qed.

  (* the vacuous cases *)
  Theorem ver_empty_keys jws sig jwk all pay : key_list jwk = Some [] -> ver_valid jws sig jwk all pay = false.
  Proof.
    intro K. unfold ver_valid. rewrite K. destruct (sig_list sig []) as [sl|]; [|reflexivity].
    destruct sl; destruct all; reflexivity.
  Qed.

  Theorem ver_empty_signatures jws jwk pay : lookup s_signatures jws = Some (JArr []) -> nosig_valid jws jwk pay = false.
  Proof. intro H. unfold nosig_valid. rewrite H. reflexivity. Qed.

  Theorem ver_absent_signature sig jwk pay : lookup s_signature sig = None -> single_valid sig jwk pay = false.
  Proof.
    intro H. unfold single_valid. destruct (single_choice sig jwk) as [[a pre]|]; [|reflexivity].
    unfold leaf_valid. rewrite H. reflexivity.
  Qed.

  Theorem ver_unknown_alg sig jwk pay name hdr :
    jws_hdr sig = Some hdr -> get_opt_str s_alg hdr = OStr name -> find_sign algs name = None ->
    single_valid sig jwk pay = false.
  Proof.
    intros H Hh F. unfold single_valid, single_choice. destruct sig; try reflexivity. rewrite H, Hh.
    destruct (get_opt_str s_alg jwk); try reflexivity; try (destruct (bytes_eqb name s)); rewrite ?F; reflexivity.
  Qed.

  (* lawfulness: the verifier chains satisfy the premises of the chunking theorem *)
  Lemma plex_of_lawful all cs : Forall lawful cs -> lawful (plex_of all cs).
  Proof.
    intro H. unfold plex_of. apply lawful_plex. induction H as [|c cs Hc _ IH]; cbn [map]; constructor; [exact Hc|exact IH].
  Qed.

  Lemma somes_forall {A} (P : A -> Prop) (os : list (option A)) :
    (forall x, In (Some x) os -> P x) -> Forall P (somes os).
  Proof.
    intro H. apply Forall_forall. intros x Hx. apply H. apply somes_filter_in. exact Hx.
  Qed.

  Lemma ver_single_lawful sig jwk c : ver_single algs sig jwk = Some c -> lawful c.
  Proof.
    rewrite ver_single_choice. destruct (single_choice sig jwk) as [[a pre]|]; [|discriminate].
    intro H. inversion H. apply leaf_lawful.
  Qed.

  Lemma ver_one_lawful jws sig jwk c : ver_one algs jws sig jwk = Some c -> lawful c.
  Proof.
    unfold ver_one. destruct sig as [s|]; [apply ver_single_lawful|].
    unfold ver_nosig. destruct (lookup s_signatures jws) as [v|]; [|apply ver_single_lawful].
    destruct v; try apply ver_single_lawful.
    intro H. inversion H. apply plex_of_lawful. apply somes_forall. intros x Hx.
    apply in_map_iff in Hx. destruct Hx as (s & E & _). eapply ver_single_lawful. exact E.
  Qed.

  Theorem ver_io_lawful jws sig jwk all c : ver_io algs jws sig jwk all = Some c -> lawful c.
  Proof.
    unfold ver_io. destruct (key_list jwk) as [keys|]; [|apply ver_one_lawful].
    match goal with |- match ?s with Some _ => _ | None => None end = _ -> _ => destruct s as [sl|]; [|discriminate] end.
    destruct (all && _); [discriminate|]. intro H. inversion H. apply plex_of_lawful. apply somes_forall.
    intros x Hx. apply in_map_iff in Hx. destruct Hx as (sk & E & _). eapply ver_one_lawful. exact E.
  Qed.
End Sound.
