(* Signature algorithms backed by the public-key reference arithmetic over Bignums.BigZ
   (evaluated with vm_compute inside coqc; not extracted). *)
From JoseV Require Export Jose.SigAlgs.
From JoseV Require Import Jose.Stubs Gen.Tables Crypto.BigNum Crypto.Rsa Crypto.Ec Crypto.Mgf.
Local Open Scope N_scope.

Definition BT : Type := Bignums.BigZ.BigZ.BigZ.t_.
Definition B : intops BT := bigzops.

Definition b64m (name : bytes) (jwk : json) : option bytes :=
  match lookup name jwk with Some (JStr s) => dec s | _ => None end.

Definition opt_member_ok (name : bytes) (jwk : json) : bool :=
  match lookup name jwk with
  | None => true
  | Some (JStr s) => match dec s with Some _ => true | None => false end
  | Some _ => false
  end.

Definition s_e : bytes := [101]. Definition s_x : bytes := [120]. Definition s_y : bytes := [121]. Definition s_d : bytes := [100].
Definition s_p : bytes := [112]. Definition s_q : bytes := [113]. Definition s_dp : bytes := [100; 112].
Definition s_dq : bytes := [100; 113]. Definition s_qi : bytes := [113; 105].

(* jose_openssl_jwk_to_RSA succeeds and RSA_size >= 256 *)
Definition rsa_pub (jwk : json) : option (bytes * bytes) :=
  match get_opt_str Jwe.s_kty jwk with
  | OStr t =>
      if bytes_eqb t t_RSA then
        match b64m s_n jwk, b64m s_e jwk with
        | Some n, Some e =>
            if forallb (fun m => opt_member_ok m jwk) [s_d; s_p; s_q; s_dp; s_dq; s_qi]
            then Some (n, e) else None
        | _, _ => None
        end
      else None
  | _ => None
  end.

Definition rsa_sig_key_ok (jwk : json) : bool :=
  match rsa_pub jwk with
  | Some (n, _) => Nat.leb 256 (octet_len B (of_bytes B n))
  | None => false
  end.

Definition rs_hash (name : bytes) : hname :=
  if bytes_eqb name n_RS256 || bytes_eqb name n_PS256 then SHA256
  else if bytes_eqb name n_RS384 || bytes_eqb name n_PS384 then SHA384 else SHA512.

Definition di_of (h : hname) : bytes :=
  match h with SHA1 => di_sha1 | SHA224 => di_sha224 | SHA256 => di_sha256 | SHA384 => di_sha384 | SHA512 => di_sha512 end.

Definition is_pss (name : bytes) : bool := mem name [n_PS256; n_PS384; n_PS512].

Definition rs_verify (name : bytes) (jwk : json) (m sg : bytes) : bool :=
  match rsa_pub jwk with
  | Some (n, e) =>
      let h := rs_hash name in
      if is_pss name then rsassa_pss_verify B (hash h) (hash_len h) (mgf1 h) (hash_len h) n e m sg
      else rsassa_pkcs1_v15_verify B (di_of h) (hash h) n e m sg
  | None => false
  end.

Definition curve_by_name (crv : bytes) : option (curve Z) :=
  if bytes_eqb crv c_P256 then Some p256 else if bytes_eqb crv c_P384 then Some p384
  else if bytes_eqb crv c_P521 then Some p521 else if bytes_eqb crv c_K256 then Some secp256k1 else None.

(* jose_openssl_jwk_to_EC_KEY succeeds: named curve, x and y decode, EC_KEY_check_key.
   EC_POINT_set_affine_coordinates reduces both coordinates modulo the field prime (BN_nnmod) before the
   curve equation is tested: the key that is used is the REDUCED point, returned here. *)
Definition ec_pub (jwk : json) : option (curve Z * BT * BT) :=
  match get_opt_str Jwe.s_kty jwk, get_opt_str s_crv jwk with
  | OStr t, OStr c =>
      if bytes_eqb t t_EC then
        match curve_by_name c, b64m s_x jwk, b64m s_y jwk with
        | Some cv, Some x, Some y =>
            let cb := curve_of B cv in
            let X := imod B (of_bytes B x) (c_p cb) in
            let Y := imod B (of_bytes B y) (c_p cb) in
            if valid_public B cb X Y then
              match lookup s_d jwk with
              | None => Some (cv, X, Y)
              | Some (JStr ds) =>
                  match dec ds with
                  | Some d => if valid_private B cb (of_bytes B d) X Y then Some (cv, X, Y) else None
                  | None => None
                  end
              | Some _ => None
              end
            else None
        | _, _, _ => None
        end
      else None
  | _, _ => None
  end.

Definition es_hash (name : bytes) : hname :=
  if bytes_eqb name n_ES384 then SHA384 else if bytes_eqb name n_ES512 then SHA512 else SHA256.

Definition es_verify (name : bytes) (jwk : json) (m sg : bytes) : bool :=
  match ec_pub jwk with
  | Some (cv, x, y) =>
      let l := bytes_len cv in
      if Nat.eqb (length sg) (2 * l) then
        ecdsa_verify B (curve_of B cv) x y (hash (es_hash name) m)
                     (of_bytes B (take l sg)) (of_bytes B (drop l sg))
      else false
  | None => false
  end.

Definition pk_sign_algs : list sign_alg :=
  map (fun e =>
         let nm := a_name e in
         if mem nm hs_names then hs_alg nm (oget (a_prm1 e)) (oget (a_prm2 e))
         else if mem nm rs_names then
           {| sa_name := nm; sa_sprm := oget (a_prm1 e); sa_vprm := oget (a_prm2 e); sa_sug := rsa_sug;
              sa_sig_ok := rsa_sig_key_ok; sa_ver_ok := rsa_sig_key_ok;
              sa_sign := fun _ _ _ => None; sa_verify := rs_verify nm |}
         else
           {| sa_name := nm; sa_sprm := oget (a_prm1 e); sa_vprm := oget (a_prm2 e); sa_sug := ecdsa_sug;
              sa_sig_ok := fun jwk => match ec_pub jwk with Some _ => true | None => false end;
              sa_ver_ok := fun jwk => match ec_pub jwk with Some _ => true | None => false end;
              sa_sign := fun _ _ _ => None; sa_verify := es_verify nm |})
      (filter (is_kind KSign) alg_registry).

(* entry point for the case files: parse, verify, print *)
Definition pk_ver (jws_text sig_text jwk_text : bytes) (all : bool) : option bool :=
  match parse_proto jws_text, parse_proto jwk_text with
  | Some jws, Some jwk =>
      let sg := match sig_text with [] => Some None | t => match parse_proto t with Some s => Some (Some s) | None => None end end in
      match sg with
      | Some s => Some (jws_ver pk_sign_algs jws s jwk all)
      | None => None
      end
  | _, _ => None
  end.

(* ---- the independent producer (for "tokens produced by the independent implementation verify in jose") ---- *)

(* EMSA-PKCS1-v1_5 encoded message for RSnnn over a k-octet modulus; the private-key step is done
   outside (untrusted witness) and checked by rs_verify *)
Definition pk_rs_em (name : bytes) (k : nat) (m : bytes) : option bytes :=
  emsa_pkcs1_v15_encode (di_of (rs_hash name)) (hash (rs_hash name) m) k.

(* ECDSA with a supplied nonce: r || s at the curve's fixed width *)
Definition pk_es_sign (name crv d k m : bytes) : option bytes :=
  match curve_by_name crv with
  | None => None
  | Some cv =>
      match ecdsa_sign B (curve_of B cv) (of_bytes B d) (of_bytes B k) (hash (es_hash name) m) with
      | Some (r, s) =>
          match to_bytes B r (bytes_len cv), to_bytes B s (bytes_len cv) with
          | Some rb, Some sb => Some (rb ++ sb)
          | _, _ => None
          end
      | None => None
      end
  end.
