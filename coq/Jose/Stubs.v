(* Ideal primitives: algorithm records built from the generated registry whose key checks
   and verifications always succeed.  Used to run the DECISION logic of the models (which
   algorithm, refused or not) on the whole name grid without evaluating any cryptography. *)
From JoseV Require Import Jose.Jws Jose.Jwe Jwk.Exc Gen.Tables.
Local Open Scope N_scope.

Definition is_kind (k : alg_kind) (e : alg_entry) : bool :=
  match k, a_kind e with
  | KHash, KHash | KSign, KSign | KWrap, KWrap | KEncr, KEncr | KComp, KComp | KExch, KExch => true
  | _, _ => false
  end.

Definition oget (o : option bytes) : bytes := match o with Some x => x | None => [] end.

Definition stub_sign : list sign_alg :=
  map (fun e => {| sa_name := a_name e; sa_sprm := oget (a_prm1 e); sa_vprm := oget (a_prm2 e);
                   sa_sug := fun _ => None; sa_sig_ok := fun _ => true; sa_ver_ok := fun _ => true;
                   sa_sign := fun _ _ _ => Some []; sa_verify := fun _ _ _ => true |})
      (filter (is_kind KSign) alg_registry).

Definition stub_wrap : list wrap_alg :=
  map (fun e => {| wa_name := a_name e; wa_eprm := oget (a_prm1 e); wa_dprm := oget (a_prm2 e);
                   wa_alg := fun _ => None; wa_enc := fun _ => None;
                   wa_wrp := fun jwe _ _ cek _ => Some (jwe, cek);
                   wa_unw := fun _ _ _ cek => Some cek |})
      (filter (is_kind KWrap) alg_registry).

Definition stub_encr : list encr_alg :=
  map (fun e => {| ea_name := a_name e; ea_eprm := oget (a_prm1 e); ea_dprm := oget (a_prm2 e);
                   ea_sug := fun _ => None;
                   ea_enc := fun jwe _ _ pt => Some (jwe, pt);
                   ea_dec := fun _ _ ct => Some ct |})
      (filter (is_kind KEncr) alg_registry).

Definition stub_exch : list exch_alg :=
  map (fun e => {| xa_name := a_name e; xa_prm := oget (a_prm1 e);
                   xa_sug := fun _ _ => None; xa_exc := fun _ _ => Some (JObj []) |})
      (filter (is_kind KExch) alg_registry).

Definition decide_ver (sig jwk : json) : bool :=
  match ver_single stub_sign sig jwk with Some _ => true | None => false end.
Definition decide_sig (sig jwk : json) : bool :=
  match sig_find_alg stub_sign sig jwk with Some _ => true | None => false end.
Definition decide_decjwk (jwe jwk : json) : bool :=
  match dec_jwk stub_wrap jwe None jwk with Some _ => true | None => false end.
Definition decide_deccek (jwe cek : json) : bool :=
  match dec_cek_octets stub_encr (fun x => Some x) jwe cek [] with Some _ => true | None => false end.
Definition decide_enccek (jwe cek : json) : bool :=
  match enc_cek_prepare stub_encr jwe cek with Some _ => true | None => false end.
Definition decide_exc (prv pub : json) : bool :=
  match jwk_exc stub_exch prv pub with Some _ => true | None => false end.
Definition registered (k : alg_kind) (name : bytes) : bool :=
  existsb (fun e => is_kind k e && bytes_eqb (a_name e) name) alg_registry.
