(* The algorithm-suggestion hooks of lib/openssl/*.c (sign.sug, wrap.alg, wrap.enc,
   encr.sug, exch.sug): which algorithm a key implies when the caller names none. *)
From JoseV Require Export Jose.Jws Jose.Jwe Jwk.Exc.
From JoseV Require Import Gen.Tables Jose.Stubs.
Local Open Scope N_scope.

Definition S (l : list N) : bytes := l.
(* names *)
Definition n_HS256 := S [72;83;50;53;54]. Definition n_HS384 := S [72;83;51;56;52]. Definition n_HS512 := S [72;83;53;49;50].
Definition n_RS256 := S [82;83;50;53;54]. Definition n_RS384 := S [82;83;51;56;52]. Definition n_RS512 := S [82;83;53;49;50].
Definition n_PS256 := S [80;83;50;53;54]. Definition n_PS384 := S [80;83;51;56;52]. Definition n_PS512 := S [80;83;53;49;50].
Definition n_ES256 := S [69;83;50;53;54]. Definition n_ES384 := S [69;83;51;56;52]. Definition n_ES512 := S [69;83;53;49;50].
Definition n_ES256K := S [69;83;50;53;54;75].
Definition n_A128KW := S [65;49;50;56;75;87]. Definition n_A192KW := S [65;49;57;50;75;87]. Definition n_A256KW := S [65;50;53;54;75;87].
Definition n_A128GCMKW := S [65;49;50;56;71;67;77;75;87]. Definition n_A192GCMKW := S [65;49;57;50;71;67;77;75;87].
Definition n_A256GCMKW := S [65;50;53;54;71;67;77;75;87].
Definition n_A128GCM := S [65;49;50;56;71;67;77]. Definition n_A192GCM := S [65;49;57;50;71;67;77]. Definition n_A256GCM := S [65;50;53;54;71;67;77].
Definition n_A128CBC := S [65;49;50;56;67;66;67;45;72;83;50;53;54].
Definition n_A192CBC := S [65;49;57;50;67;66;67;45;72;83;51;56;52].
Definition n_A256CBC := S [65;50;53;54;67;66;67;45;72;83;53;49;50].
Definition n_ECDHES := S [69;67;68;72;45;69;83].
Definition n_ECDHES128 := n_ECDHES ++ S [43] ++ n_A128KW.
Definition n_ECDHES192 := n_ECDHES ++ S [43] ++ n_A192KW.
Definition n_ECDHES256 := n_ECDHES ++ S [43] ++ n_A256KW.
Definition n_RSA1_5 := S [82;83;65;49;95;53].
Definition n_RSAOAEP := S [82;83;65;45;79;65;69;80].
Definition n_RSAOAEP224 := n_RSAOAEP ++ S [45;50;50;52]. Definition n_RSAOAEP256 := n_RSAOAEP ++ S [45;50;53;54].
Definition n_RSAOAEP384 := n_RSAOAEP ++ S [45;51;56;52]. Definition n_RSAOAEP512 := n_RSAOAEP ++ S [45;53;49;50].
Definition n_PBES2_256 := S [80;66;69;83;50;45;72;83;50;53;54;43] ++ n_A128KW.
Definition n_PBES2_384 := S [80;66;69;83;50;45;72;83;51;56;52;43] ++ n_A192KW.
Definition n_PBES2_512 := S [80;66;69;83;50;45;72;83;53;49;50;43] ++ n_A256KW.
Definition n_dir := S [100;105;114].
Definition n_ECDH := S [69;67;68;72].
Definition n_ECMR := S [69;67;77;82].
Definition t_oct := S [111;99;116]. Definition t_RSA := S [82;83;65]. Definition t_EC := S [69;67].
Definition c_P256 := S [80;45;50;53;54]. Definition c_P384 := S [80;45;51;56;52]. Definition c_P521 := S [80;45;53;50;49].
Definition c_K256 := S [115;101;99;112;50;53;54;107;49].
Definition s_crv := S [99;114;118]. Definition s_k := S [107]. Definition s_n := S [110].

Definition mem (x : bytes) (l : list bytes) : bool := existsb (bytes_eqb x) l.

(* jose_b64_dec(json_object_get(jwk, name), NULL, 0): None = SIZE_MAX *)
Definition member_dlen (name : bytes) (jwk : json) : option N :=
  match lookup name jwk with
  | Some (JStr s) => b64_dlen (blen s)
  | _ => None
  end.

(* json_unpack "{s?s,s?s}" alg kty [crv]: None = error *)
Definition unpack3 (jwk : json) : option (opt_str * opt_str * opt_str) :=
  match get_opt_str s_alg jwk, get_opt_str Jwe.s_kty jwk, get_opt_str s_crv jwk with
  | OBad, _, _ | _, OBad, _ => None
  | a, t, c => Some (a, t, c)
  end.

(* the common prologue: a declared alg decides; otherwise the key type must match *)
Definition by_key (names : list bytes) (kty : bytes) (need_crv : bool) (jwk : json)
           (rule : option bytes (*crv*) -> option bytes) : option bytes :=
  match unpack3 jwk with
  | None => None
  | Some (a, t, c) =>
      match (if need_crv then c else OAbsent) with
      | OBad => None
      | cv =>
          match a with
          | OStr name => if mem name names then Some name else None
          | _ =>
              match t with
              | OStr ty => if bytes_eqb ty kty then rule (match cv with OStr x => Some x | _ => None end) else None
              | _ => None
              end
          end
      end
  end.

Definition hs_names := [n_HS256; n_HS384; n_HS512].
Definition rs_names := [n_RS256; n_RS384; n_RS512; n_PS256; n_PS384; n_PS512].
Definition es_names := [n_ES256; n_ES384; n_ES512; n_ES256K].

Definition hmac_sug (jwk : json) : option bytes :=
  by_key hs_names t_oct false jwk (fun _ =>
    match member_dlen s_k jwk with
    | None => None
    | Some len => if 64 <=? len then Some n_HS512 else if 48 <=? len then Some n_HS384
                  else if 32 <=? len then Some n_HS256 else None
    end).

(* len = dlen(n) * 8 (wrapping for SIZE_MAX); (min(len, 4096)) & (4096|3072|2048) *)
Definition rsa_sug (jwk : json) : option bytes :=
  by_key rs_names t_RSA false jwk (fun _ =>
    let len := match member_dlen s_n jwk with Some l => l * 8 | None => 18446744073709551608 end in
    let v := N.land (if len <? 4096 then len else 4096) 7168 in
    if v =? 4096 then Some n_RS512 else if v =? 3072 then Some n_RS384 else if v =? 2048 then Some n_RS256 else None).

Definition ecdsa_sug (jwk : json) : option bytes :=
  by_key es_names t_EC true jwk (fun crv =>
    match crv with
    | Some c => if bytes_eqb c c_P256 then Some n_ES256 else if bytes_eqb c c_P384 then Some n_ES384
                else if bytes_eqb c c_P521 then Some n_ES512 else if bytes_eqb c c_K256 then Some n_ES256K else None
    | None => None
    end).

Definition sign_sug_of (name : bytes) : json -> option bytes :=
  if mem name hs_names then hmac_sug else if mem name rs_names then rsa_sug
  else if mem name es_names then ecdsa_sug else fun _ => None.

(* ---- key management ----------------------------------------------------------------- *)

Definition kw_names := [n_A128KW; n_A192KW; n_A256KW].
Definition gcmkw_names := [n_A128GCMKW; n_A192GCMKW; n_A256GCMKW].
Definition ecdhes_names := [n_ECDHES; n_ECDHES128; n_ECDHES192; n_ECDHES256].
Definition rsaes_names := [n_RSA1_5; n_RSAOAEP; n_RSAOAEP224; n_RSAOAEP256; n_RSAOAEP384; n_RSAOAEP512].
Definition pbes2_names := [n_PBES2_256; n_PBES2_384; n_PBES2_512].
Definition encr_names := [n_A128GCM; n_A192GCM; n_A256GCM; n_A128CBC; n_A192CBC; n_A256CBC].

Definition by_klen (a b c : bytes) (jwk : json) : option bytes :=
  match member_dlen s_k jwk with
  | Some 16 => Some a | Some 24 => Some b | Some 32 => Some c | _ => None
  end.

Definition aeskw_alg (jwk : json) := by_key kw_names t_oct false jwk (fun _ => by_klen n_A128KW n_A192KW n_A256KW jwk).
Definition aesgcmkw_alg (jwk : json) := by_key gcmkw_names t_oct false jwk (fun _ => by_klen n_A128GCMKW n_A192GCMKW n_A256GCMKW jwk).
Definition ecdhes_alg (jwk : json) :=
  by_key ecdhes_names t_EC true jwk (fun crv =>
    match crv with
    | Some c => if bytes_eqb c c_P256 then Some n_ECDHES128 else if bytes_eqb c c_P384 then Some n_ECDHES192
                else if bytes_eqb c c_P521 then Some n_ECDHES256 else None
    | None => None
    end).
Definition rsaes_alg (jwk : json) := by_key rsaes_names t_RSA false jwk (fun _ => Some n_RSAOAEP).

(* dir: the key's alg names a registered content encryption algorithm *)
Definition dir_alg (jwk : json) : option bytes :=
  match jwk with
  | JObj m => match alookup s_alg m with
              | Some (JStr e) => if registered KEncr (cstr e) then Some n_dir else None
              | _ => None
              end
  | _ => None
  end.

(* PBES2: for an object key it only ever defers; a JSON string is a password, sized by length *)
Definition pbes2_alg (jwk : json) : option bytes :=
  match jwk with
  | JObj _ =>
      match unpack3 jwk with
      | Some (OStr name, _, _) => if mem name pbes2_names then Some name else None
      | _ => None
      end
  | JStr s => let len := blen s in
              if 36 <? len then Some n_PBES2_512 else if 27 <? len then Some n_PBES2_384 else Some n_PBES2_256
  | _ => None
  end.

Definition wrap_alg_of (name : bytes) : json -> option bytes :=
  if mem name kw_names then aeskw_alg else if mem name gcmkw_names then aesgcmkw_alg
  else if mem name ecdhes_names then ecdhes_alg else if mem name rsaes_names then rsaes_alg
  else if mem name pbes2_names then pbes2_alg else if bytes_eqb name n_dir then dir_alg else fun _ => None.

Definition kwlike_enc (name : bytes) : option bytes :=
  if bytes_eqb name n_A128KW || bytes_eqb name n_PBES2_256 then Some n_A128CBC
  else if bytes_eqb name n_A192KW || bytes_eqb name n_PBES2_384 then Some n_A192CBC
  else if bytes_eqb name n_A256KW || bytes_eqb name n_PBES2_512 then Some n_A256CBC
  else if bytes_eqb name n_A128GCMKW then Some n_A128GCM
  else if bytes_eqb name n_A192GCMKW then Some n_A192GCM
  else if bytes_eqb name n_A256GCMKW then Some n_A256GCM
  else None.

Definition wrap_enc_of (name : bytes) (jwk : json) : option bytes :=
  if mem name ecdhes_names then
    match get_opt_str s_crv jwk with
    | OStr c => if bytes_eqb c c_P256 then Some n_A128CBC else if bytes_eqb c c_P384 then Some n_A192CBC
                else if bytes_eqb c c_P521 then Some n_A256CBC else None
    | _ => None
    end
  else if mem name rsaes_names then
    let len := match member_dlen s_n jwk with Some l => l * 8 | None => 18446744073709551608 end in
    if 15360 <=? len then Some n_A256CBC else if 7680 <=? len then Some n_A192CBC else Some n_A128CBC
  else if bytes_eqb name n_dir then
    match jwk with
    | JObj m => match alookup s_alg m with
                | Some (JStr e) => if registered KEncr (cstr e) then Some (cstr e) else None
                | _ => None
                end
    | _ => None
    end
  else kwlike_enc name.

Definition gcm_names := [n_A128GCM; n_A192GCM; n_A256GCM].
Definition cbc_names := [n_A128CBC; n_A192CBC; n_A256CBC].
Definition aesgcm_sug (cek : json) := by_key gcm_names t_oct false cek (fun _ => by_klen n_A128GCM n_A192GCM n_A256GCM cek).
Definition aescbch_sug (cek : json) :=
  by_key cbc_names t_oct false cek (fun _ =>
    (* SIZE_MAX (no/odd k) compares >= 64 *)
    match member_dlen s_k cek with
    | None => Some n_A256CBC
    | Some len => if 64 <=? len then Some n_A256CBC else if 48 <=? len then Some n_A192CBC
                  else if 32 <=? len then Some n_A128CBC else None
    end).
Definition encr_sug_of (name : bytes) : json -> option bytes :=
  if mem name gcm_names then aesgcm_sug else if mem name cbc_names then aescbch_sug else fun _ => None.

(* ---- the registry with the real suggestion hooks (primitives ideal) ----------------------- *)

Definition sug_sign : list sign_alg :=
  map (fun a => {| sa_name := sa_name a; sa_sprm := sa_sprm a; sa_vprm := sa_vprm a; sa_sug := sign_sug_of (sa_name a);
                   sa_sig_ok := sa_sig_ok a; sa_ver_ok := sa_ver_ok a; sa_sign := sa_sign a; sa_verify := sa_verify a |}) stub_sign.

(* find_alg's loops: ask every algorithm of the kind in registry order, the first answer wins *)
Fixpoint first_answer {A} (fs : list (A -> option bytes)) (x : A) : option bytes :=
  match fs with
  | [] => None
  | f :: r => match f x with Some n => Some n | None => first_answer r x end
  end.

Definition names_of (k : alg_kind) : list bytes := map a_name (filter (is_kind k) alg_registry).

Definition suggest_sign (jwk : json) : option bytes := first_answer (map sign_sug_of (names_of KSign)) jwk.
Definition suggest_wrap (jwk : json) : option bytes := first_answer (map wrap_alg_of (names_of KWrap)) jwk.
Definition suggest_encr (cek : json) : option bytes := first_answer (map encr_sug_of (names_of KEncr)) cek.

(* ensure_enc: the content encryption recorded in the CEK when the first recipient is wrapped *)
Definition ensure_enc (walg : bytes) (hdr jwk cek : json) : option bytes :=
  match lookup s_alg cek with
  | Some (JStr e) => Some (cstr e)
  | _ =>
      match get_opt_str Jwe.s_enc hdr with
      | OBad => None
      | OStr e => Some e
      | OAbsent =>
          match suggest_encr cek with
          | Some e => Some e
          | None =>
              match wrap_enc_of walg jwk with
              | Some e => Some e
              | None => match names_of KEncr with e :: _ => Some e | [] => None end
              end
          end
      end
  end.

(* ECDH exchange suggestion *)
Definition ecdh_sug (prv pub : json) : option bytes :=
  match get_opt_str Jwe.s_kty prv, get_opt_str s_crv prv, get_opt_str Jwe.s_kty pub, get_opt_str s_crv pub with
  | OStr ta, OStr ca, OStr tb, OStr cb =>
      if bytes_eqb ta t_EC && bytes_eqb tb t_EC && bytes_eqb ca cb && mem ca [c_P256; c_P384; c_P521]
      then Some n_ECDH else None
  | _, _, _, _ => None
  end.

(* jose_jwe_enc_jwk up to the call of wrap.wrp, for one key: the key-management algorithm
   (from the merged header, else by suggestion, then recorded in the recipient's header),
   and the content encryption algorithm recorded in the CEK *)
Definition wrap_choose (jwe rcp jwk cek : json) : option (bytes * bytes * json (*rcp'*)) :=
  match rcp with
  | JObj rm =>
      match jwe_hdr jwe (Some rcp) with
      | None => None
      | Some hdr =>
          let pick :=
            match get_opt_str s_alg hdr with
            | OStr h => if registered KWrap h then Some (h, rcp) else None
            | _ =>
                match suggest_wrap jwk with
                | None => None
                | Some n =>
                    if registered KWrap n then
                      let h := match alookup s_header rm with Some h => h | None => JObj [] end in
                      match jset s_alg (JStr n) h with
                      | Some h' => Some (n, JObj (aset s_header h' rm))
                      | None => None
                      end
                    else None
                end
            end in
          match pick with
          | None => None
          | Some (n, rcp') =>
              match ensure_enc n hdr jwk cek with
              | None => None
              | Some e =>
                  let prm := match find (fun x => is_kind KWrap x && bytes_eqb (a_name x) n) alg_registry with
                             | Some x => oget (a_prm1 x) | None => [] end in
                  if jwk_prm jwk false (Some prm) then Some (n, e, rcp') else None
              end
          end
      end
  | _ => None
  end.

Definition real_sug_encr : list encr_alg :=
  map (fun a => {| ea_name := ea_name a; ea_eprm := ea_eprm a; ea_dprm := ea_dprm a; ea_sug := encr_sug_of (ea_name a);
                   ea_enc := ea_enc a; ea_dec := ea_dec a |}) stub_encr.

(* structural usability of a key for a signature algorithm (what the constructors check before any
   cryptography): HMAC: k decodes, digest size <= |k| <= KEYMAX; RSA: kty RSA and |n| >= 256 octets;
   ECDSA: kty EC.  The validity of the RSA/EC numbers themselves is C10's subject and assumed here. *)
Definition hs_size (name : bytes) : N :=
  if bytes_eqb name n_HS256 then 32 else if bytes_eqb name n_HS384 then 48 else 64.

Definition sig_key_ok (name : bytes) (jwk : json) : bool :=
  if mem name hs_names then
    match lookup s_k jwk with
    | Some (JStr s) => match dec s with
                       | Some k => (hs_size name <=? blen k) && (blen k <=? Gen.Consts.keymax)
                       | None => false
                       end
    | _ => false
    end
  else if mem name rs_names then
    match get_opt_str Jwe.s_kty jwk with
    | OStr t => bytes_eqb t t_RSA && match member_dlen s_n jwk with Some l => 256 <=? l | None => false end
    | _ => false
    end
  else if mem name es_names then
    match get_opt_str Jwe.s_kty jwk with OStr t => bytes_eqb t t_EC | _ => false end
  else false.

(* the content-encryption constructors accept a CEK whose k decodes to exactly the key length of the algorithm *)
Definition enc_key_len (name : bytes) : option N :=
  if bytes_eqb name n_A128GCM then Some 16 else if bytes_eqb name n_A192GCM then Some 24
  else if bytes_eqb name n_A256GCM then Some 32 else if bytes_eqb name n_A128CBC then Some 32
  else if bytes_eqb name n_A192CBC then Some 48 else if bytes_eqb name n_A256CBC then Some 64 else None.

Definition enc_key_ok (name : bytes) (cek : json) : bool :=
  match enc_key_len name, lookup s_k cek with
  | Some n, Some (JStr s) => match dec s with Some k => blen k =? n | None => false end
  | _, _ => false
  end.
