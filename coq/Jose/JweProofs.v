(* C02: what a successful decryption means. *)
From JoseV Require Import Jose.Jwe Jose.EncAlgs Codec.B64Spec.
Local Open Scope N_scope.

(* decryption succeeded: a CEK was unwrapped from (some) recipient with (some) key, the ciphertext text
   decoded, and content decryption under that CEK succeeded *)
Theorem jwe_dec_sound walgs jwe rcp jwk pt :
  jwe_dec_with walgs jwe rcp jwk = Some pt ->
  exists cek ct cto,
    dec_jwk walgs jwe rcp jwk = Some cek /\
    lookup s_ciphertext jwe = Some (JStr ct) /\ dec ct = Some cto /\
    dec_cek_octets real_encr_algs inflate jwe cek cto = Some pt.
Proof.
  unfold jwe_dec_with. destruct (dec_jwk walgs jwe rcp jwk) as [cek|]; [|discriminate].
  destruct (lookup s_ciphertext jwe) as [c|]; [|discriminate]. destruct c; try discriminate.
  match goal with |- (if ?b then None else _) = _ -> _ => destruct b; [discriminate|] end.
  destruct (dec s) as [cto|] eqn:D; [|discriminate]. intro H. exists cek, s, cto. auto.
Qed.

(* the CEK comes from a key of the set (or the key) and a recipient object of the JWE (or the given one /
   the JWE itself when flattened), through the algorithm's unwrap function *)
Lemma first_some_in {A B} (f : A -> option B) l y : first_some f l = Some y -> exists x, In x l /\ f x = Some y.
Proof.
  induction l as [|x l IH]; cbn [first_some]; [discriminate|].
  destruct (f x) as [y'|] eqn:E.
  - intro H. inversion H; subst. exists x. split; [left; reflexivity|exact E].
  - intro H. destruct (IH H) as (x' & Hin & Hx). exists x'. split; [right; exact Hin|exact Hx].
Qed.

Theorem dec_jwk_sound walgs jwe rcp jwk cek :
  dec_jwk walgs jwe rcp jwk = Some cek ->
  exists k r, (key_list jwk = None /\ k = jwk \/ exists keys, key_list jwk = Some keys /\ In k keys) /\
              dec_jwk_single walgs jwe r k = Some cek /\
              (rcp = Some r \/
               rcp = None /\ (lookup s_recipients jwe = None /\ r = jwe \/
                              exists l, lookup s_recipients jwe = Some (JArr l) /\ In r l)).
Proof.
  unfold dec_jwk.
  assert (K : forall k, dec_jwk_key walgs jwe rcp k = Some cek ->
            exists r, dec_jwk_single walgs jwe r k = Some cek /\
              (rcp = Some r \/ rcp = None /\ (lookup s_recipients jwe = None /\ r = jwe \/
                                              exists l, lookup s_recipients jwe = Some (JArr l) /\ In r l))).
  { intros k H. unfold dec_jwk_key in H. destruct rcp as [r|].
    - exists r. auto.
    - destruct (lookup s_recipients jwe) as [v|] eqn:L.
      + destruct v; try discriminate. apply first_some_in in H. destruct H as (r & Hin & Hr).
        exists r. split; [exact Hr|]. right. split; [reflexivity|]. right. eauto.
      + exists jwe. split; [exact H|]. right. auto. }
  destruct (key_list jwk) as [keys|] eqn:KL.
  - intro H. apply first_some_in in H. destruct H as (k & Hin & Hk). destruct (K k Hk) as (r & Hr & Hw).
    exists k, r. split; [right; eauto|]. auto.
  - intro H. destruct (K jwk H) as (r & Hr & Hw). exists jwk, r. split; [left; auto|]. auto.
Qed.

(* a single (recipient, key) pair: the algorithm is the merged header's (or the key's), the key may unwrap,
   and the CEK is what the algorithm's unwrap returns on the skeleton carrying the header's enc *)
Theorem dec_jwk_single_sound walgs jwe rcp jwk cek :
  dec_jwk_single walgs jwe rcp jwk = Some cek ->
  exists hdr a encv,
    jwe_hdr jwe (Some rcp) = Some hdr /\ In a walgs /\
    jwk_prm jwk false (Some (wa_dprm a)) = true /\ lookup Jwe.s_enc hdr = Some encv /\
    wa_unw a jwe rcp jwk (JObj [(Jwe.s_kty, JStr s_oct); (s_use, JStr Jwe.s_enc); (Jwe.s_enc, encv);
                                (s_key_ops, JArr [JStr s_encrypt; JStr s_decrypt])]) = Some cek.
Proof.
  unfold dec_jwk_single. destruct (jwe_hdr jwe (Some rcp)) as [hdr|]; [|discriminate].
  assert (G : forall (chosen : option bytes),
            match chosen with
            | None => None
            | Some name =>
                match find_wrap walgs name with
                | None => None
                | Some a =>
                    if negb (jwk_prm jwk false (Some (wa_dprm a))) then None
                    else match lookup Jwe.s_enc hdr with
                         | None => None
                         | Some encv =>
                             wa_unw a jwe rcp jwk (JObj [(Jwe.s_kty, JStr s_oct); (s_use, JStr Jwe.s_enc); (Jwe.s_enc, encv);
                                                         (s_key_ops, JArr [JStr s_encrypt; JStr s_decrypt])])
                         end
                end
            end = Some cek ->
            exists hdr0 a encv,
              Some hdr = Some hdr0 /\ In a walgs /\
              jwk_prm jwk false (Some (wa_dprm a)) = true /\ lookup Jwe.s_enc hdr0 = Some encv /\
              wa_unw a jwe rcp jwk (JObj [(Jwe.s_kty, JStr s_oct); (s_use, JStr Jwe.s_enc); (Jwe.s_enc, encv);
                                          (s_key_ops, JArr [JStr s_encrypt; JStr s_decrypt])]) = Some cek).
  { intros [name|]; [|discriminate]. destruct (find_wrap walgs name) as [a|] eqn:F; [|discriminate].
    destruct (jwk_prm jwk false (Some (wa_dprm a))) eqn:P; cbn [negb]; [|discriminate].
    destruct (lookup Jwe.s_enc hdr) as [encv|] eqn:L; [|discriminate]. intro H.
    exists hdr, a, encv. split; [reflexivity|]. split; [unfold find_wrap in F; apply find_some in F; tauto|].
    split; [exact P|]. split; [exact L|exact H]. }
  destruct (get_opt_str s_alg hdr); destruct (get_opt_str Jwe.s_enc hdr); try discriminate; cbv zeta; apply G.
Qed.

(* content decryption: the algorithm is the merged header's enc (equal to the CEK's alg when both are
   given), the CEK may decrypt, and the output is inflate(open(ct)) exactly when zip=DEF sits in the
   encoded protected header, open(ct) otherwise *)
Theorem dec_cek_sound ealgs infl jwe cek ct pt :
  dec_cek_octets ealgs infl jwe cek ct = Some pt ->
  exists a, In a ealgs /\ jwk_prm cek false (Some (ea_dprm a)) = true /\
    match protected_zip jwe with
    | Some z => z = s_DEF /\ exists body, ea_dec a jwe cek ct = Some body /\ infl body = Some pt
    | None => ea_dec a jwe cek ct = Some pt
    end.
Proof.
  unfold dec_cek_octets. destruct (jwe_hdr jwe None) as [hdr|]; [|discriminate].
  assert (G : forall (chosen : option bytes),
            match chosen with
            | None => None
            | Some name =>
                match find_encr ealgs name with
                | None => None
                | Some a =>
                    if negb (jwk_prm cek false (Some (ea_dprm a))) then None
                    else match protected_zip jwe with
                         | Some z => if negb (bytes_eqb z s_DEF) then None
                                     else match ea_dec a jwe cek ct with Some pt0 => infl pt0 | None => None end
                         | None => ea_dec a jwe cek ct
                         end
                end
            end = Some pt ->
            exists a, In a ealgs /\ jwk_prm cek false (Some (ea_dprm a)) = true /\
              match protected_zip jwe with
              | Some z => z = s_DEF /\ exists body, ea_dec a jwe cek ct = Some body /\ infl body = Some pt
              | None => ea_dec a jwe cek ct = Some pt
              end).
  { intros [name|]; [|discriminate]. destruct (find_encr ealgs name) as [a|] eqn:F; [|discriminate].
    destruct (jwk_prm cek false (Some (ea_dprm a))) eqn:P; cbn [negb]; [|discriminate].
    intro H. exists a. split; [unfold find_encr in F; apply find_some in F; tauto|]. split; [exact P|].
    destruct (protected_zip jwe) as [z|]; [|exact H].
    destruct (bytes_eqb z s_DEF) eqn:Z; cbn [negb] in H; [|discriminate]. apply bytes_eqb_eq in Z. split; [exact Z|].
    destruct (ea_dec a jwe cek ct) as [body|]; [|discriminate]. eauto. }
  destruct (get_opt_str Jwe.s_enc hdr); destruct (get_opt_str s_alg cek); try discriminate; cbv zeta;
    first [ match goal with |- context [find_encr ealgs ?n] => exact (G (Some n)) end
          | match goal with |- match ?c with Some _ => _ | None => None end = _ -> _ => exact (G c) end ].
Qed.

(* AES-GCM: the tag is checked over protected || '.' || aad IN FULL, the 96-bit iv, the ciphertext *)
Theorem gcm_dec_is_open name eprm dprm jwe cek ct pt :
  ea_dec (gcm_alg name eprm dprm) jwe cek ct = Some pt ->
  exists aad key iv tag,
    gcm_aad_input jwe = Some aad /\
    key_exact cek (match enc_key_len name with Some n => n | None => 0 end) = Some key /\
    member_bytes s_iv jwe = Some iv /\ member_bytes s_tag jwe = Some tag /\
    blen iv = 12 /\ blen tag = 16 /\ gcm_decrypt key iv aad ct tag = Some pt.
Proof.
  cbn [ea_dec gcm_alg]. destruct (gcm_aad_input jwe) as [aad|]; [|discriminate].
  destruct (key_exact cek _) as [key|]; [|discriminate].
  destruct (member_bytes s_iv jwe) as [iv|]; [|discriminate].
  destruct (member_bytes s_tag jwe) as [tag|]; [|discriminate].
  destruct (blen iv =? 12) eqn:I; [|discriminate]. destruct (blen tag =? 16) eqn:T; [|discriminate]. cbn [andb].
  intro H. exists aad, key, iv, tag. apply N.eqb_eq in I, T. repeat split; auto.
Qed.

(* the AAD input holds every byte of both members *)
Theorem gcm_aad_full m p a :
  alookup s_protected m = Some (JStr p) -> alookup s_aad m = Some (JStr a) ->
  gcm_aad_input (JObj m) = Some (p ++ 46 :: a).
Proof. intros P A. unfold gcm_aad_input. rewrite A, P. reflexivity. Qed.

Theorem cbchs_dec_is_open name eprm dprm jwe cek ct pt :
  ea_dec (cbchs_alg name eprm dprm) jwe cek ct = Some pt ->
  exists aad key iv tag,
    cbc_aad_input jwe = Some aad /\
    key_exact cek (match enc_key_len name with Some n => n | None => 0 end) = Some key /\
    member_bytes s_iv jwe = Some iv /\ member_bytes s_tag jwe = Some tag /\ blen iv = 16 /\
    cbchs_decrypt (hmac (cbc_hash name)) (hash_len (cbc_hash name) / 2) key iv aad ct tag = Some pt.
Proof.
  cbn [ea_dec cbchs_alg]. destruct (cbc_aad_input jwe) as [aad|]; [|discriminate].
  destruct (key_exact cek _) as [key|]; [|discriminate].
  destruct (member_bytes s_iv jwe) as [iv|]; [|discriminate].
  destruct (member_bytes s_tag jwe) as [tag|]; [|discriminate].
  destruct (blen iv =? 16) eqn:I; [|discriminate].
  intro H. exists aad, key, iv, tag. apply N.eqb_eq in I. repeat split; auto.
Qed.

(* vacuous cases *)
Theorem dec_no_keys walgs jwe rcp jwk : key_list jwk = Some [] -> dec_jwk walgs jwe rcp jwk = None.
Proof. intro K. unfold dec_jwk. rewrite K. reflexivity. Qed.

Theorem dec_no_recipients walgs jwe jwk :
  key_list jwk = None -> lookup s_recipients jwe = Some (JArr []) -> dec_jwk walgs jwe None jwk = None.
Proof. intros K R. unfold dec_jwk, dec_jwk_key. rewrite K, R. reflexivity. Qed.
