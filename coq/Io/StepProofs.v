(* What a multiplexer does call by call (Io/Step.v): a failure is for ever, a
   released branch receives nothing further, and up to the first refusal the
   per-call semantics is the whole-run semantics of Io/Chain.v. *)
From JoseV Require Import Io.Chain Io.Step Io.ChainProofs.
From Coq Require Import Lia.

(* ---- induction principle reaching into multiplexer branches -------------------- *)

Section PChainInd.
  Variable P : pchain -> Prop.
  Hypothesis Hsink : forall s, P (PSink s).
  Hypothesis Hplex : forall all failed bs, Forall (fun fb => P (snd fb)) bs -> P (PPlex all failed bs).

  Fixpoint pchain_ind' (c : pchain) : P c :=
    match c with
    | PSink s => Hsink s
    | PPlex all failed bs =>
        Hplex all failed bs
          ((fix go (bs : list (bool * pchain)) : Forall (fun fb => P (snd fb)) bs :=
              match bs with
              | [] => Forall_nil _
              | fb :: r => Forall_cons _ (pchain_ind' (snd fb)) (go r)
              end) bs)
    end.
End PChainInd.

(* ---- the branch loop ------------------------------------------------------------- *)

(* a branch after a call in which it was visited: live iff it accepted *)
Definition step (f : pchain -> pchain * bool) (fb : bool * pchain) : bool * pchain :=
  if fst fb then (snd (f (snd fb)), fst (f (snd fb))) else fb.

Definition accepts (f : pchain -> pchain * bool) (fb : bool * pchain) : bool :=
  fst fb && snd (f (snd fb)).

Definition refuses (f : pchain -> pchain * bool) (fb : bool * pchain) : bool :=
  fst fb && negb (snd (f (snd fb))).

Definition live (bs : list (bool * pchain)) : bool := existsb (fun fb : bool * pchain => fst fb) bs.

Lemma step_dead f b : step f (false, b) = (false, b).
Proof. reflexivity. Qed.

(* any: every live branch is called; the answer is "some branch accepted" *)
Lemma loop_any f bs : forall st,
  plex_loop f false bs st = (map (step f) bs, st || existsb (accepts f) bs, false).
Proof.
  induction bs as [|[fl b] r IH]; intro st; cbn [plex_loop map existsb].
  - rewrite Bool.orb_false_r. reflexivity.
  - destruct fl.
    + unfold step at 1, accepts at 1. cbn [fst snd]. destruct (f b) as [b' s] eqn:E. cbn [fst snd].
      destruct s; rewrite IH; cbn [andb orb].
      * rewrite Bool.orb_true_r. reflexivity.
      * reflexivity.
    + rewrite IH. reflexivity.
Qed.

(* all, nobody refuses: every live branch is called; the answer is "there was a live branch" *)
Lemma loop_all_ok f bs : forall st,
  existsb (refuses f) bs = false ->
  plex_loop f true bs st = (map (step f) bs, st || live bs, false).
Proof.
  unfold live.
  induction bs as [|[fl b] r IH]; intros st H; cbn [plex_loop map existsb] in *.
  - rewrite Bool.orb_false_r. reflexivity.
  - apply Bool.orb_false_elim in H. destruct H as [H1 H2]. destruct fl.
    + unfold refuses in H1. unfold step at 1. cbn [fst snd] in *.
      destruct (f b) as [b' s] eqn:E. cbn [fst snd] in *. destruct s; [|discriminate H1].
      rewrite (IH true H2). cbn [orb]. rewrite Bool.orb_true_r. reflexivity.
    + rewrite (IH st H2). reflexivity.
Qed.

(* all, somebody refuses: the branches before the first refusing one are called, it
   is released, the loop is left: the later branches are not called *)
Lemma loop_all_refused f pre b post : forall st,
  existsb (refuses f) pre = false -> snd (f b) = false ->
  plex_loop f true (pre ++ (true, b) :: post) st
  = (map (step f) pre ++ (false, fst (f b)) :: post, false, true).
Proof.
  induction pre as [|[fl a] r IH]; intros st H Hb; cbn [plex_loop map existsb app] in *.
  - destruct (f b) as [b' s]. cbn [fst snd] in *. subst s. reflexivity.
  - apply Bool.orb_false_elim in H. destruct H as [H1 H2]. destruct fl.
    + unfold refuses in H1. unfold step at 1. cbn [fst snd] in *.
      destruct (f a) as [a' s] eqn:E. cbn [fst snd] in *. destruct s; [|discriminate H1].
      rewrite (IH true H2 Hb). reflexivity.
    + rewrite (IH st H2 Hb). reflexivity.
Qed.

Lemma first_refusing f bs : existsb (refuses f) bs = true ->
  exists pre b post, bs = pre ++ (true, b) :: post /\ existsb (refuses f) pre = false /\ snd (f b) = false.
Proof.
  induction bs as [|[fl a] r IH]; cbn [existsb]; intro H.
  - discriminate H.
  - destruct (refuses f (fl, a)) eqn:E.
    + unfold refuses in E. cbn [fst snd] in E. apply Bool.andb_true_iff in E. destruct E as [E1 E2].
      subst fl. exists [], a, r. repeat split. apply Bool.negb_true_iff in E2. exact E2.
    + cbn [orb] in H. destruct (IH H) as (pre & b & post & -> & Hp & Hb).
      exists ((fl, a) :: pre), b, post. repeat split; [|exact Hb]. cbn [existsb]. rewrite E, Hp. reflexivity.
Qed.

(* ---- unfolding ---------------------------------------------------------------------- *)

Lemma feed1_sink s x : feed1 (PSink s) x = (PSink (fst (sink_feed s x)), snd (sink_feed s x)).
Proof. cbn [feed1]. destruct (sink_feed s x). reflexivity. Qed.

Lemma done1_sink s : done1 (PSink s) = (PSink (fst (sink_done s)), snd (sink_done s)).
Proof. cbn [done1]. destruct (sink_done s). reflexivity. Qed.

Lemma feed1_failed all bs x : feed1 (PPlex all true bs) x = (PPlex all true bs, false).
Proof. reflexivity. Qed.

Lemma done1_failed all bs : done1 (PPlex all true bs) = (PPlex all true bs, false).
Proof. reflexivity. Qed.

Lemma feed1_plex all bs x :
  feed1 (PPlex all false bs) x =
  let '(bs', st, fl) := plex_loop (fun b => feed1 b x) all bs false in (PPlex all fl bs', st).
Proof. reflexivity. Qed.

Lemma done1_plex all bs :
  done1 (PPlex all false bs) =
  let '(bs', st, fl) := plex_loop done1 all bs false in (PPlex all fl bs', st).
Proof. reflexivity. Qed.

(* one call on a multiplexer that has not failed, [f] being the call passed on to the branches *)
Definition call1 (f : pchain -> pchain * bool) (all : bool) (bs : list (bool * pchain)) : pchain * bool :=
  let '(bs', st, fl) := plex_loop f all bs false in (PPlex all fl bs', st).

Lemma feed1_call all bs x : feed1 (PPlex all false bs) x = call1 (fun b => feed1 b x) all bs.
Proof. reflexivity. Qed.

Lemma done1_call all bs : done1 (PPlex all false bs) = call1 done1 all bs.
Proof. reflexivity. Qed.

Lemma call1_any f bs : call1 f false bs = (PPlex false false (map (step f) bs), existsb (accepts f) bs).
Proof. unfold call1. rewrite loop_any. reflexivity. Qed.

Lemma call1_all_ok f bs : existsb (refuses f) bs = false ->
  call1 f true bs = (PPlex true false (map (step f) bs), live bs).
Proof. intro H. unfold call1. rewrite (loop_all_ok _ _ _ H). reflexivity. Qed.

Lemma call1_all_refused f pre b post :
  existsb (refuses f) pre = false -> snd (f b) = false ->
  call1 f true (pre ++ (true, b) :: post) = (PPlex true true (map (step f) pre ++ (false, fst (f b)) :: post), false).
Proof. intros H Hb. unfold call1. rewrite (loop_all_refused _ _ _ _ _ H Hb). reflexivity. Qed.

Lemma feeds1_nil c : feeds1 c [] = (c, []).
Proof. reflexivity. Qed.

Lemma feeds1_cons c x xs :
  feeds1 c (x :: xs) = (fst (feeds1 (fst (feed1 c x)) xs), snd (feed1 c x) :: snd (feeds1 (fst (feed1 c x)) xs)).
Proof. cbn [feeds1]. destruct (feed1 c x) as [c1 v]. cbn [fst snd]. destruct (feeds1 c1 xs). reflexivity. Qed.

Lemma feeds1_app c xs ys :
  feeds1 c (xs ++ ys) =
  (fst (feeds1 (fst (feeds1 c xs)) ys), snd (feeds1 c xs) ++ snd (feeds1 (fst (feeds1 c xs)) ys)).
Proof.
  revert c. induction xs as [|x xs IH]; intro c.
  - cbn [app feeds1 fst snd]. destruct (feeds1 c ys). reflexivity.
  - cbn [app]. rewrite !feeds1_cons. cbn [fst snd]. rewrite IH. reflexivity.
Qed.

Lemma feeds1_length c xs : length (snd (feeds1 c xs)) = length xs.
Proof.
  revert c. induction xs as [|x xs IH]; intro c.
  - reflexivity.
  - rewrite feeds1_cons. cbn [snd length]. rewrite IH. reflexivity.
Qed.

Lemma session_eq c xs :
  session c xs = (fst (done1 (fst (feeds1 c xs))), snd (feeds1 c xs), snd (done1 (fst (feeds1 c xs)))).
Proof. unfold session. destruct (feeds1 c xs) as [c' vs]. cbn [fst snd]. destruct (done1 c'). reflexivity. Qed.

(* ---- (a) a failure is for ever ------------------------------------------------------- *)

(* a multiplexer that has failed (all) or has no branch left: nothing can succeed any more *)
Definition dead (c : pchain) : Prop :=
  match c with
  | PSink _ => False
  | PPlex _ failed bs => failed = true \/ live bs = false
  end.

Definition is_plex (c : pchain) : Prop :=
  match c with PSink _ => False | PPlex _ _ _ => True end.

Lemma loop_no_live f all bs : forall st, live bs = false -> plex_loop f all bs st = (bs, st, false).
Proof.
  unfold live. induction bs as [|[fl b] r IH]; intros st H; cbn [plex_loop existsb fst] in *.
  - reflexivity.
  - apply Bool.orb_false_elim in H. destruct H as [H1 H2]. subst fl. rewrite (IH st H2). reflexivity.
Qed.

Lemma dead_feed1 c x : dead c -> feed1 c x = (c, false).
Proof.
  destruct c as [s|all failed bs]; cbn [dead]; intro H.
  - destruct H.
  - destruct failed.
    + reflexivity.
    + destruct H as [H|H]; [discriminate H|]. rewrite feed1_plex, (loop_no_live _ _ _ _ H). reflexivity.
Qed.

Lemma dead_done1 c : dead c -> done1 c = (c, false).
Proof.
  destruct c as [s|all failed bs]; cbn [dead]; intro H.
  - destruct H.
  - destruct failed.
    + reflexivity.
    + destruct H as [H|H]; [discriminate H|]. rewrite done1_plex, (loop_no_live _ _ _ _ H). reflexivity.
Qed.

Lemma live_step f bs : live (map (step f) bs) = existsb (accepts f) bs.
Proof.
  unfold live. induction bs as [|[fl b] r IH]; cbn [map existsb].
  - reflexivity.
  - rewrite IH. unfold step, accepts. cbn [fst snd]. destruct fl; reflexivity.
Qed.

Lemma accepts_live f bs : live bs = false -> existsb (accepts f) bs = false.
Proof.
  unfold live. induction bs as [|[fl b] r IH]; cbn [existsb fst]; intro H.
  - reflexivity.
  - apply Bool.orb_false_elim in H. destruct H as [H1 H2]. subst fl. rewrite (IH H2). reflexivity.
Qed.

(* a call that answers false leaves the multiplexer dead *)
Lemma call1_false_dead f all bs : snd (call1 f all bs) = false -> dead (fst (call1 f all bs)).
Proof.
  destruct all.
  - destruct (existsb (refuses f) bs) eqn:E.
    + destruct (first_refusing _ _ E) as (pre & b & post & -> & Hp & Hb).
      rewrite (call1_all_refused _ _ _ _ Hp Hb). cbn [fst snd dead]. intros _. left. reflexivity.
    + rewrite (call1_all_ok _ _ E). cbn [fst snd dead]. intro H. right.
      rewrite live_step. apply accepts_live. exact H.
  - rewrite call1_any. cbn [fst snd dead]. intro H. right. rewrite live_step. exact H.
Qed.

Lemma call1_is_plex f all bs : is_plex (fst (call1 f all bs)).
Proof. unfold call1. destruct (plex_loop f all bs false) as [[bs' st] fl]. exact I. Qed.

Lemma feed1_is_plex c x : is_plex c -> is_plex (fst (feed1 c x)).
Proof.
  destruct c as [s|all failed bs]; intro H; [destruct H|]. destruct failed.
  - exact I.
  - rewrite feed1_call. apply call1_is_plex.
Qed.

Lemma feed1_false_dead c x : is_plex c -> snd (feed1 c x) = false -> dead (fst (feed1 c x)).
Proof.
  destruct c as [s|all failed bs]; intro H; [destruct H|]. destruct failed.
  - intros _. left. reflexivity.
  - rewrite feed1_call. apply call1_false_dead.
Qed.

Lemma done1_false_dead c : is_plex c -> snd (done1 c) = false -> dead (fst (done1 c)).
Proof.
  destruct c as [s|all failed bs]; intro H; [destruct H|]. destruct failed.
  - intros _. left. reflexivity.
  - rewrite done1_call. apply call1_false_dead.
Qed.

Lemma dead_feeds1 c xs : dead c -> feeds1 c xs = (c, repeat false (length xs)).
Proof.
  intro H. induction xs as [|x xs IH].
  - reflexivity.
  - rewrite feeds1_cons, (dead_feed1 _ x H). cbn [fst snd]. rewrite IH. reflexivity.
Qed.

Lemma dead_session c xs : dead c -> session c xs = (c, repeat false (length xs), false).
Proof. intro H. rewrite session_eq, (dead_feeds1 _ _ H). cbn [fst snd]. rewrite (dead_done1 _ H). reflexivity. Qed.

(* once a feed of a multiplexer (of either kind) has answered false, nothing changes any more
   and every further feed and done answers false *)
Theorem feed_false_forever all failed bs x :
  snd (feed1 (PPlex all failed bs) x) = false ->
  forall xs, session (fst (feed1 (PPlex all failed bs) x)) xs
             = (fst (feed1 (PPlex all failed bs) x), repeat false (length xs), false).
Proof. intros H xs. apply dead_session. apply feed1_false_dead; [exact I|exact H]. Qed.

Theorem done_false_forever all failed bs :
  snd (done1 (PPlex all failed bs)) = false ->
  forall xs, session (fst (done1 (PPlex all failed bs))) xs
             = (fst (done1 (PPlex all failed bs)), repeat false (length xs), false).
Proof. intros H xs. apply dead_session. apply done1_false_dead; [exact I|exact H]. Qed.

Lemma nth_error_repeat_false n j v : nth_error (repeat false n) j = Some v -> v = false.
Proof. intro H. apply nth_error_In in H. apply repeat_spec in H. exact H. Qed.

Lemma sticky_feeds c xs : is_plex c -> forall i, nth_error (snd (feeds1 c xs)) i = Some false ->
  (forall j v, (i <= j)%nat -> nth_error (snd (feeds1 c xs)) j = Some v -> v = false) /\
  snd (done1 (fst (feeds1 c xs))) = false.
Proof.
  revert c. induction xs as [|x xs IH]; intros c Hp i Hi.
  - destruct i; discriminate Hi.
  - rewrite feeds1_cons in *. cbn [fst snd] in *. destruct i as [|i]; cbn [nth_error] in Hi.
    + injection Hi as Hi. pose proof (feed1_false_dead _ _ Hp Hi) as Hd.
      rewrite (dead_feeds1 _ xs Hd). cbn [fst snd]. rewrite (dead_done1 _ Hd). split; [|reflexivity].
      intros j v _ Hj. destruct j as [|j]; cbn [nth_error] in Hj.
      * injection Hj as <-. exact Hi.
      * apply nth_error_repeat_false in Hj. exact Hj.
    + destruct (IH _ (feed1_is_plex _ x Hp) i Hi) as [H1 H2]. split; [|exact H2].
      intros j v Hle Hj. destruct j as [|j]; [lia|]. cbn [nth_error] in Hj.
      apply (H1 j v); [lia|exact Hj].
Qed.

(* STICKY: in a session on a multiplexer, after the first feed answered false every later
   feed answers false and so does done *)
Theorem plex_sticky all failed bs xs c' vs d :
  session (PPlex all failed bs) xs = (c', vs, d) ->
  forall i, nth_error vs i = Some false ->
    (forall j v, (i <= j)%nat -> nth_error vs j = Some v -> v = false) /\ d = false.
Proof.
  rewrite session_eq. intro E. injection E as _ <- <-. intros i Hi.
  exact (sticky_feeds (PPlex all failed bs) xs I i Hi).
Qed.

(* ---- (c), (d) one call ---------------------------------------------------------------- *)

Lemma existsb_accepts f bs :
  existsb (accepts f) bs = true <-> exists fb, In fb bs /\ fst fb = true /\ snd (f (snd fb)) = true.
Proof.
  rewrite existsb_exists. split; intros (fb & Hin & H); exists fb; (split; [exact Hin|]).
  - unfold accepts in H. apply Bool.andb_true_iff in H. exact H.
  - unfold accepts. apply Bool.andb_true_iff. exact H.
Qed.

Lemma existsb_refuses_false f bs :
  existsb (refuses f) bs = false <-> forall fb, In fb bs -> fst fb = true -> snd (f (snd fb)) = true.
Proof.
  split.
  - intros H fb Hin Hl. destruct (snd (f (snd fb))) eqn:E; [reflexivity|].
    assert (Ht : existsb (refuses f) bs = true).
    { apply existsb_exists. exists fb. split; [exact Hin|]. unfold refuses. rewrite Hl, E. reflexivity. }
    rewrite Ht in H. discriminate H.
  - intro H. destruct (existsb (refuses f) bs) eqn:E; [|reflexivity].
    apply existsb_exists in E. destruct E as (fb & Hin & Hr). unfold refuses in Hr.
    apply Bool.andb_true_iff in Hr. destruct Hr as [Hl Hr]. rewrite (H fb Hin Hl) in Hr. discriminate Hr.
Qed.

Lemma live_exists bs : live bs = true <-> exists fb, In fb bs /\ fst fb = true.
Proof. unfold live. apply existsb_exists. Qed.

(* any: true iff some branch that was live accepted *)
Lemma call1_any_verdict f bs :
  snd (call1 f false bs) = true <-> exists fb, In fb bs /\ fst fb = true /\ snd (f (snd fb)) = true.
Proof. rewrite call1_any. cbn [snd]. apply existsb_accepts. Qed.

(* all: true iff there was a live branch and every live branch accepted *)
Lemma call1_all_verdict f bs :
  snd (call1 f true bs) = true <->
  (exists fb, In fb bs /\ fst fb = true) /\
  (forall fb, In fb bs -> fst fb = true -> snd (f (snd fb)) = true).
Proof.
  destruct (existsb (refuses f) bs) eqn:E.
  - destruct (first_refusing _ _ E) as (pre & b & post & -> & Hp & Hb).
    rewrite (call1_all_refused _ _ _ _ Hp Hb). cbn [snd]. split; [discriminate|].
    intros [_ H]. rewrite <- Hb. apply (H (true, b)); [|reflexivity].
    apply in_or_app. right. left. reflexivity.
  - rewrite (call1_all_ok _ _ E). cbn [snd]. rewrite live_exists.
    pose proof (proj1 (existsb_refuses_false f bs) E) as E'. split.
    + intro H. split; [exact H|exact E'].
    + intros [H _]. exact H.
Qed.

Theorem any_feed_verdict bs x :
  snd (feed1 (PPlex false false bs) x) = true <->
  exists fb, In fb bs /\ fst fb = true /\ snd (feed1 (snd fb) x) = true.
Proof. rewrite feed1_call. apply (call1_any_verdict (fun b => feed1 b x)). Qed.

Theorem any_done_verdict bs :
  snd (done1 (PPlex false false bs)) = true <->
  exists fb, In fb bs /\ fst fb = true /\ snd (done1 (snd fb)) = true.
Proof. rewrite done1_call. apply call1_any_verdict. Qed.

(* any: every live branch is called; exactly those that refuse are released; the flag stays clear *)
Theorem any_feed_state bs x :
  fst (feed1 (PPlex false false bs) x) = PPlex false false (map (step (fun b => feed1 b x)) bs).
Proof. rewrite feed1_call, call1_any. reflexivity. Qed.

Theorem any_done_state bs :
  fst (done1 (PPlex false false bs)) = PPlex false false (map (step done1) bs).
Proof. rewrite done1_call, call1_any. reflexivity. Qed.

(* any: no live branch (they have all failed) -- false for ever *)
Theorem any_no_live_forever failed bs xs :
  live bs = false ->
  session (PPlex false failed bs) xs = (PPlex false failed bs, repeat false (length xs), false).
Proof. intro H. apply dead_session. right. exact H. Qed.

(* ... which is where a feed answering false leaves it *)
Theorem any_false_no_live bs x :
  snd (feed1 (PPlex false false bs) x) = false ->
  exists bs', fst (feed1 (PPlex false false bs) x) = PPlex false false bs' /\ live bs' = false.
Proof.
  rewrite feed1_call, call1_any. cbn [fst snd]. intro H. eexists. split; [reflexivity|].
  rewrite live_step. exact H.
Qed.

Theorem all_feed_verdict failed bs x :
  snd (feed1 (PPlex true failed bs) x) = true <->
  failed = false /\
  (exists fb, In fb bs /\ fst fb = true) /\
  (forall fb, In fb bs -> fst fb = true -> snd (feed1 (snd fb) x) = true).
Proof.
  destruct failed.
  - rewrite feed1_failed. cbn [snd]. split; [discriminate|]. intros [H _]. discriminate H.
  - rewrite feed1_call, (call1_all_verdict (fun b => feed1 b x)). split.
    + intro H. split; [reflexivity|exact H].
    + intros [_ H]. exact H.
Qed.

Theorem all_done_verdict failed bs :
  snd (done1 (PPlex true failed bs)) = true <->
  failed = false /\
  (exists fb, In fb bs /\ fst fb = true) /\
  (forall fb, In fb bs -> fst fb = true -> snd (done1 (snd fb)) = true).
Proof.
  destruct failed.
  - rewrite done1_failed. cbn [snd]. split; [discriminate|]. intros [H _]. discriminate H.
  - rewrite done1_call, call1_all_verdict. split.
    + intro H. split; [reflexivity|exact H].
    + intros [_ H]. exact H.
Qed.

(* all, first refusing branch: the live branches before it received the buffer, it is
   released in the state the refused call left it in, the later branches are untouched
   (they did not see the buffer), the multiplexer is marked failed *)
Theorem all_feed_refused pre b post x :
  (forall fb, In fb pre -> fst fb = true -> snd (feed1 (snd fb) x) = true) ->
  snd (feed1 b x) = false ->
  feed1 (PPlex true false (pre ++ (true, b) :: post)) x
  = (PPlex true true (map (step (fun b => feed1 b x)) pre ++ (false, fst (feed1 b x)) :: post), false).
Proof.
  intros Hp Hb. rewrite feed1_call.
  apply (call1_all_refused (fun b => feed1 b x)); [|exact Hb].
  apply existsb_refuses_false. exact Hp.
Qed.

Theorem all_done_refused pre b post :
  (forall fb, In fb pre -> fst fb = true -> snd (done1 (snd fb)) = true) ->
  snd (done1 b) = false ->
  done1 (PPlex true false (pre ++ (true, b) :: post))
  = (PPlex true true (map (step done1) pre ++ (false, fst (done1 b)) :: post), false).
Proof.
  intros Hp Hb. rewrite done1_call. apply call1_all_refused; [|exact Hb].
  apply existsb_refuses_false. exact Hp.
Qed.

(* all, every live branch accepts: all of them received the buffer, nothing is released *)
Theorem all_feed_accepted bs x :
  (forall fb, In fb bs -> fst fb = true -> snd (feed1 (snd fb) x) = true) ->
  feed1 (PPlex true false bs) x = (PPlex true false (map (step (fun b => feed1 b x)) bs), live bs).
Proof.
  intro H. rewrite feed1_call. apply (call1_all_ok (fun b => feed1 b x)).
  apply existsb_refuses_false. exact H.
Qed.

(* a refusal in an all-multiplexer is one of these two: it had failed / had no live branch, or
   a first refusing branch exists *)
Theorem all_feed_false_why bs x :
  snd (feed1 (PPlex true false bs) x) = false ->
  live bs = false \/
  exists pre b post, bs = pre ++ (true, b) :: post /\
    (forall fb, In fb pre -> fst fb = true -> snd (feed1 (snd fb) x) = true) /\
    snd (feed1 b x) = false.
Proof.
  intro H. destruct (existsb (refuses (fun b => feed1 b x)) bs) eqn:E.
  - right. destruct (first_refusing _ _ E) as (pre & b & post & Hbs & Hp & Hb).
    exists pre, b, post. split; [exact Hbs|]. split; [|exact Hb].
    apply (existsb_refuses_false (fun b => feed1 b x)). exact Hp.
  - left. rewrite feed1_call, (call1_all_ok _ _ E) in H. exact H.
Qed.

(* ---- (b) a released branch receives nothing further ----------------------------------- *)

Definition branches (c : pchain) : list (bool * pchain) :=
  match c with PSink _ => [] | PPlex _ _ bs => bs end.

(* position by position: a branch is left alone or called *)
Lemma loop_pointwise f all bs : forall st,
  Forall2 (fun fb fb' => fb' = fb \/ (fst fb = true /\ fb' = step f fb)) bs (fst (fst (plex_loop f all bs st))).
Proof.
  induction bs as [|[fl b] r IH]; intro st; cbn [plex_loop].
  - constructor.
  - destruct fl.
    + destruct (f b) as [b' s] eqn:E. destruct s.
      * specialize (IH true). destruct (plex_loop f all r true) as [[r' st'] fl']. cbn [fst snd] in *.
        constructor; [|exact IH]. right. unfold step. cbn [fst snd]. rewrite E. split; reflexivity.
      * destruct all.
        -- cbn [fst snd]. constructor.
           ++ right. unfold step. cbn [fst snd]. rewrite E. split; reflexivity.
           ++ clear. induction r as [|a r IHr]; constructor; [left; reflexivity|exact IHr].
        -- specialize (IH st). destruct (plex_loop f false r st) as [[r' st'] fl']. cbn [fst snd] in *.
           constructor; [|exact IH]. right. unfold step. cbn [fst snd]. rewrite E. split; reflexivity.
    + specialize (IH st). destruct (plex_loop f all r st) as [[r' st'] fl']. cbn [fst snd] in *.
      constructor; [|exact IH]. left. reflexivity.
Qed.

Lemma call1_pointwise f all bs :
  exists fl bs', fst (call1 f all bs) = PPlex all fl bs' /\
    Forall2 (fun fb fb' => fb' = fb \/ (fst fb = true /\ fb' = step f fb)) bs bs'.
Proof.
  unfold call1. pose proof (loop_pointwise f all bs false) as H.
  destruct (plex_loop f all bs false) as [[bs' st] fl]. exists fl, bs'. split; [reflexivity|exact H].
Qed.

Lemma Forall2_refl_or {A} (R : A -> A -> Prop) l : (forall a, R a a) -> Forall2 R l l.
Proof. intro H. induction l; constructor; auto. Qed.

Lemma feed1_pointwise all failed bs x :
  exists fl bs', fst (feed1 (PPlex all failed bs) x) = PPlex all fl bs' /\
    Forall2 (fun fb fb' => fb' = fb \/ (fst fb = true /\ fb' = step (fun b => feed1 b x) fb)) bs bs'.
Proof.
  destruct failed.
  - exists true, bs. split; [reflexivity|]. apply Forall2_refl_or. intro a. left. reflexivity.
  - rewrite feed1_call. apply call1_pointwise.
Qed.

Lemma done1_pointwise all failed bs :
  exists fl bs', fst (done1 (PPlex all failed bs)) = PPlex all fl bs' /\
    Forall2 (fun fb fb' => fb' = fb \/ (fst fb = true /\ fb' = step done1 fb)) bs bs'.
Proof.
  destruct failed.
  - exists true, bs. split; [reflexivity|]. apply Forall2_refl_or. intro a. left. reflexivity.
  - rewrite done1_call. apply call1_pointwise.
Qed.

(* released branches are exactly as they were *)
Definition released_kept (bs bs' : list (bool * pchain)) : Prop :=
  Forall2 (fun fb fb' => fst fb = false -> fb' = fb) bs bs'.

Lemma released_kept_refl bs : released_kept bs bs.
Proof. apply Forall2_refl_or. intros a _. reflexivity. Qed.

Lemma released_kept_trans bs1 bs2 bs3 : released_kept bs1 bs2 -> released_kept bs2 bs3 -> released_kept bs1 bs3.
Proof.
  intro H. revert bs3. induction H as [|a b l l' Hab H IH]; intros bs3 H3; inversion H3; subst.
  - constructor.
  - constructor; [|apply IH; assumption]. intro Ha. specialize (Hab Ha). subst b. auto.
Qed.

Lemma pointwise_released f bs bs' :
  Forall2 (fun fb fb' => fb' = fb \/ (fst fb = true /\ fb' = step f fb)) bs bs' -> released_kept bs bs'.
Proof.
  intro H. induction H as [|a b l l' Hab H IH]; constructor; [|exact IH].
  intro Ha. destruct Hab as [Hab|[Hl _]]; [exact Hab|]. rewrite Hl in Ha. discriminate Ha.
Qed.

Lemma feed1_released all failed bs x :
  exists fl bs', fst (feed1 (PPlex all failed bs) x) = PPlex all fl bs' /\ released_kept bs bs'.
Proof.
  destruct (feed1_pointwise all failed bs x) as (fl & bs' & E & H). exists fl, bs'.
  split; [exact E|]. apply (pointwise_released _ _ _ H).
Qed.

Lemma done1_released all failed bs :
  exists fl bs', fst (done1 (PPlex all failed bs)) = PPlex all fl bs' /\ released_kept bs bs'.
Proof.
  destruct (done1_pointwise all failed bs) as (fl & bs' & E & H). exists fl, bs'.
  split; [exact E|]. apply (pointwise_released _ _ _ H).
Qed.

Lemma feeds1_released xs : forall all failed bs,
  exists fl bs', fst (feeds1 (PPlex all failed bs) xs) = PPlex all fl bs' /\ released_kept bs bs'.
Proof.
  induction xs as [|x xs IH]; intros all failed bs.
  - exists failed, bs. split; [reflexivity|apply released_kept_refl].
  - rewrite feeds1_cons. cbn [fst]. destruct (feed1_released all failed bs x) as (fl1 & bs1 & E1 & H1).
    rewrite E1. destruct (IH all fl1 bs1) as (fl2 & bs2 & E2 & H2). exists fl2, bs2.
    split; [exact E2|]. apply (released_kept_trans _ _ _ H1 H2).
Qed.

Lemma session_released all failed bs xs :
  exists fl bs', fst (fst (session (PPlex all failed bs) xs)) = PPlex all fl bs' /\ released_kept bs bs'.
Proof.
  rewrite session_eq. cbn [fst]. destruct (feeds1_released xs all failed bs) as (fl1 & bs1 & E1 & H1).
  rewrite E1. destruct (done1_released all fl1 bs1) as (fl2 & bs2 & E2 & H2). exists fl2, bs2.
  split; [exact E2|]. apply (released_kept_trans _ _ _ H1 H2).
Qed.

Lemma Forall2_nth_error {A B} (R : A -> B -> Prop) l l' :
  Forall2 R l l' -> forall i a, nth_error l i = Some a -> exists b, nth_error l' i = Some b /\ R a b.
Proof.
  intro H. induction H as [|a b l l' Hab H IH]; intros i x Hi.
  - destruct i; discriminate Hi.
  - destruct i as [|i]; cbn [nth_error] in *.
    + injection Hi as <-. exists b. split; [reflexivity|exact Hab].
    + apply IH. exact Hi.
Qed.

(* a released branch stays released, in the very state in which it was released, whatever
   is fed afterwards and through done *)
Theorem released_stays all failed bs xs i b :
  nth_error bs i = Some (false, b) ->
  nth_error (branches (fst (fst (session (PPlex all failed bs) xs)))) i = Some (false, b).
Proof.
  intro Hi. destruct (session_released all failed bs xs) as (fl & bs' & E & H). rewrite E. cbn [branches].
  destruct (Forall2_nth_error _ _ _ H _ _ Hi) as (fb' & Hn & Hr). rewrite Hn, (Hr eq_refl). reflexivity.
Qed.

(* the call in which a sink branch is released has not changed what the sink holds *)
Lemma sink_refused_unchanged s x : snd (sink_feed s x) = false -> sink_data (fst (sink_feed s x)) = sink_data s.
Proof.
  destruct s as [d|cap d|d|ff fd calls d]; cbn [sink_feed].
  - discriminate.
  - destruct (N.ltb (N.sub cap (blen d)) (blen x)); [reflexivity|discriminate].
  - discriminate.
  - destruct ff as [n|]; [|discriminate]. destruct (Nat.eqb n calls); [reflexivity|discriminate].
Qed.

Theorem released_sink_holds all failed bs x i s b' :
  nth_error bs i = Some (true, PSink s) ->
  nth_error (branches (fst (feed1 (PPlex all failed bs) x))) i = Some (false, b') ->
  exists s', b' = PSink s' /\ sink_data s' = sink_data s.
Proof.
  intros Hi Hi'. destruct (feed1_pointwise all failed bs x) as (fl & bs' & E & H).
  rewrite E in Hi'. cbn [branches] in Hi'.
  destruct (Forall2_nth_error _ _ _ H _ _ Hi) as (fb' & Hn & Hr). rewrite Hn in Hi'. injection Hi' as ->.
  destruct Hr as [Hr|[_ Hr]]; [discriminate Hr|].
  unfold step in Hr. cbn [fst snd] in Hr. rewrite feed1_sink in Hr. cbn [fst snd] in Hr.
  injection Hr as Hv ->. exists (fst (sink_feed s x)). split; [reflexivity|].
  apply sink_refused_unchanged. symmetry. exact Hv.
Qed.

(* -- the sinks below released branches, at any depth -- *)

Definition fz (fb : bool * pchain) : list (option bytes) :=
  if fst fb then frozen (snd fb) else map Some (sinks_of (snd fb)).

Lemma sinks_of_plex all failed bs :
  sinks_of (PPlex all failed bs) = flat_map (fun fb : bool * pchain => sinks_of (snd fb)) bs.
Proof.
  cbn [sinks_of]. induction bs as [|[fl b] r IH]; cbn [flat_map snd].
  - reflexivity.
  - rewrite IH. reflexivity.
Qed.

Lemma frozen_plex all failed bs : frozen (PPlex all failed bs) = flat_map fz bs.
Proof.
  cbn [frozen]. induction bs as [|[fl b] r IH]; cbn [flat_map].
  - reflexivity.
  - rewrite IH. unfold fz at 2. cbn [fst snd]. destruct fl; reflexivity.
Qed.

(* what is frozen stays as it is *)
Definition keeps (l l' : list (option bytes)) : Prop :=
  Forall2 (fun a a' : option bytes => forall d, a = Some d -> a' = Some d) l l'.

(* a frozen entry is the content of the sink at that position *)
Definition agrees (l : list (option bytes)) (ds : list bytes) : Prop :=
  Forall2 (fun (o : option bytes) (d : bytes) => forall e, o = Some e -> e = d) l ds.

Lemma keeps_refl l : keeps l l.
Proof. apply Forall2_refl_or. intros a d H. exact H. Qed.

Lemma keeps_trans l1 l2 l3 : keeps l1 l2 -> keeps l2 l3 -> keeps l1 l3.
Proof.
  intro H. revert l3. induction H as [|a b l l' Hab H IH]; intros l3 H3; inversion H3; subst.
  - constructor.
  - constructor; [|apply IH; assumption]. intros d Hd. auto.
Qed.

Lemma keeps_app l1 l1' l2 l2' : keeps l1 l1' -> keeps l2 l2' -> keeps (l1 ++ l2) (l1' ++ l2').
Proof. apply Forall2_app. Qed.

Lemma agrees_app l1 d1 l2 d2 : agrees l1 d1 -> agrees l2 d2 -> agrees (l1 ++ l2) (d1 ++ d2).
Proof. apply Forall2_app. Qed.

Lemma agrees_some ds : agrees (map Some ds) ds.
Proof. induction ds as [|d r IH]; constructor; [|exact IH]. intros e H. injection H as ->. reflexivity. Qed.

Lemma keeps_agrees l l' ds : keeps l l' -> agrees l' ds -> keeps l (map Some ds).
Proof.
  intro H. revert ds. induction H as [|a b l l' Hab H IH]; intros ds Hd; inversion Hd; subst; cbn [map].
  - constructor.
  - constructor; [|apply IH; assumption]. intros d Ha. specialize (Hab d Ha). f_equal. symmetry. auto.
Qed.

Lemma frozen_agrees c : agrees (frozen c) (sinks_of c).
Proof.
  induction c as [s|all failed bs IH] using pchain_ind'.
  - constructor; [|constructor]. intros e H. discriminate H.
  - rewrite frozen_plex, sinks_of_plex. induction IH as [|[fl b] r Hb _ IHr]; cbn [flat_map].
    + constructor.
    + apply agrees_app; [|exact IHr]. unfold fz. cbn [fst snd] in *. destruct fl; [exact Hb|apply agrees_some].
Qed.

Lemma keeps_flat_map bs bs' :
  Forall2 (fun fb fb' => keeps (fz fb) (fz fb')) bs bs' -> keeps (flat_map fz bs) (flat_map fz bs').
Proof.
  intro H. induction H as [|a b l l' Hab H IH]; cbn [flat_map].
  - constructor.
  - apply keeps_app; assumption.
Qed.

(* a call on a multiplexer, given that the calls on the branches keep what is frozen below them *)
Lemma keeps_pointwise f bs bs' :
  Forall (fun fb : bool * pchain => keeps (frozen (snd fb)) (frozen (fst (f (snd fb))))) bs ->
  Forall2 (fun fb fb' => fb' = fb \/ (fst fb = true /\ fb' = step f fb)) bs bs' ->
  keeps (flat_map fz bs) (flat_map fz bs').
Proof.
  intros HF H. apply keeps_flat_map. revert HF. induction H as [|a b l l' Hab H IH]; intro HF.
  - constructor.
  - inversion HF as [|? ? Ha HF']; subst. constructor; [|apply IH; exact HF'].
    destruct Hab as [->|[Hl ->]]; [apply keeps_refl|].
    unfold step. rewrite Hl. unfold fz at 1. rewrite Hl. unfold fz. cbn [fst snd].
    destruct (snd (f (snd a))).
    + exact Ha.
    + apply (keeps_agrees _ _ _ Ha). apply frozen_agrees.
Qed.

Theorem frozen_feed1 c x : keeps (frozen c) (frozen (fst (feed1 c x))).
Proof.
  induction c as [s|all failed bs IH] using pchain_ind'.
  - rewrite feed1_sink. cbn [fst frozen]. apply keeps_refl.
  - destruct (feed1_pointwise all failed bs x) as (fl & bs' & E & H). rewrite E, !frozen_plex.
    apply (keeps_pointwise (fun b => feed1 b x)); [exact IH|exact H].
Qed.

Theorem frozen_done1 c : keeps (frozen c) (frozen (fst (done1 c))).
Proof.
  induction c as [s|all failed bs IH] using pchain_ind'.
  - rewrite done1_sink. cbn [fst frozen]. apply keeps_refl.
  - destruct (done1_pointwise all failed bs) as (fl & bs' & E & H). rewrite E, !frozen_plex.
    apply (keeps_pointwise done1); [exact IH|exact H].
Qed.

Theorem frozen_feeds1 xs : forall c, keeps (frozen c) (frozen (fst (feeds1 c xs))).
Proof.
  induction xs as [|x xs IH]; intro c.
  - apply keeps_refl.
  - rewrite feeds1_cons. cbn [fst]. apply (keeps_trans _ _ _ (frozen_feed1 c x)). apply IH.
Qed.

Theorem frozen_session c xs : keeps (frozen c) (frozen (fst (fst (session c xs)))).
Proof.
  rewrite session_eq. cbn [fst]. apply (keeps_trans _ _ _ (frozen_feeds1 xs c)). apply frozen_done1.
Qed.

(* NO FURTHER DATA: the sink at position i that lies below a released branch (of any
   multiplexer, at any depth) holds the same bytes after any further feeds and done *)
Theorem no_further_data c xs i d :
  nth_error (frozen c) i = Some (Some d) ->
  nth_error (sinks_of (fst (fst (session c xs)))) i = Some d.
Proof.
  intro Hi. pose proof (keeps_agrees _ _ _ (frozen_session c xs) (frozen_agrees _)) as H.
  destruct (Forall2_nth_error _ _ _ H _ _ Hi) as (o & Hn & Hr).
  specialize (Hr d eq_refl). subst o. rewrite nth_error_map in Hn.
  destruct (nth_error (sinks_of (fst (fst (session c xs)))) i) as [e|]; [|discriminate Hn].
  cbn [option_map] in Hn. injection Hn as ->. reflexivity.
Qed.

(* ... and what is frozen is what the sink held when its branch was released: [frozen]
   lists the contents of the released state *)
Theorem frozen_is_content c i d :
  nth_error (frozen c) i = Some (Some d) -> nth_error (sinks_of c) i = Some d.
Proof.
  intro Hi. destruct (Forall2_nth_error _ _ _ (frozen_agrees c) _ _ Hi) as (e & Hn & Hr).
  rewrite Hn, (Hr d eq_refl). reflexivity.
Qed.

(* the sinks of a released branch are all frozen *)
Theorem released_is_frozen all failed pre b post :
  frozen (PPlex all failed (pre ++ (false, b) :: post))
  = frozen (PPlex all failed pre) ++ map Some (sinks_of b) ++ frozen (PPlex all failed post).
Proof. rewrite !frozen_plex, flat_map_app. reflexivity. Qed.

(* ---- (e) up to the first refusal this is the whole-run semantics of Io/Chain.v -------- *)

(* number of leading acceptances *)
Fixpoint lead (vs : list bool) : nat :=
  match vs with true :: r => S (lead r) | _ => O end.

(* what a caller who stops at the first refusal sees: the number of buffers accepted, and
   the state after the last call it made (the refused one, or the last one) *)
Definition acc1 (c : pchain) (xs : list bytes) : nat := lead (snd (feeds1 c xs)).
Definition stop1 (c : pchain) (xs : list bytes) : pchain := fst (feeds1 c (take (S (acc1 c xs)) xs)).

Lemma acc1_nil c : acc1 c [] = O.
Proof. reflexivity. Qed.

Lemma stop1_nil c : stop1 c [] = c.
Proof. reflexivity. Qed.

Lemma acc1_cons c x xs :
  acc1 c (x :: xs) = if snd (feed1 c x) then S (acc1 (fst (feed1 c x)) xs) else O.
Proof. unfold acc1. rewrite feeds1_cons. cbn [snd lead]. destruct (snd (feed1 c x)); reflexivity. Qed.

Lemma stop1_cons c x xs :
  stop1 c (x :: xs) = if snd (feed1 c x) then stop1 (fst (feed1 c x)) xs else fst (feed1 c x).
Proof.
  unfold stop1. rewrite acc1_cons. destruct (snd (feed1 c x)).
  - cbn [take]. rewrite feeds1_cons. reflexivity.
  - cbn [take]. rewrite feeds1_cons. reflexivity.
Qed.

(* clean: no multiplexer that can still be reached is marked failed (what the constructors build) *)
Fixpoint clean (c : pchain) : Prop :=
  match c with
  | PSink _ => True
  | PPlex _ failed bs =>
      failed = false /\
      (fix go (bs : list (bool * pchain)) : Prop :=
         match bs with
         | [] => True
         | (true, b) :: r => clean b /\ go r
         | (false, _) :: r => go r
         end) bs
  end.

Lemma clean_plex all failed bs :
  clean (PPlex all failed bs) <-> failed = false /\ Forall (fun fb : bool * pchain => fst fb = true -> clean (snd fb)) bs.
Proof.
  cbn [clean]. apply and_iff_compat_l. induction bs as [|[fl b] r IH].
  - split; intro; [constructor|exact I].
  - destruct fl; split; intro H.
    + destruct H as [H1 H2]. constructor; [intros _; exact H1|apply IH; exact H2].
    + inversion H as [|? ? H1 H2]; subst. split; [apply H1; reflexivity|apply IH; exact H2].
    + constructor; [intro E; discriminate E|apply IH; exact H].
    + inversion H as [|? ? H1 H2]; subst. apply IH. exact H2.
Qed.

(* -- the whole-run formula of Io/Chain.v [feeds], written over pchain -- *)

Fixpoint wgo (k : nat) (xs : list bytes) (bs : list (bool * pchain)) (hit : bool) {struct bs} : list (bool * pchain) :=
  match bs with
  | [] => []
  | (false, b) :: r => (false, b) :: wgo k xs r hit
  | (true, b) :: r =>
      if hit then (true, stop1 b (take k xs)) :: wgo k xs r true
      else if Nat.eqb (acc1 b (take (S k) xs)) k then (false, stop1 b (take (S k) xs)) :: wgo k xs r true
           else (true, stop1 b (take (S k) xs)) :: wgo k xs r false
  end.

Definition waccs (xs : list bytes) (bs : list (bool * pchain)) : list nat :=
  map (fun fb : bool * pchain => acc1 (snd fb) xs) (filter (fun fb : bool * pchain => fst fb) bs).

Definition wany (xs : list bytes) (fb : bool * pchain) : bool * pchain :=
  if fst fb then (Nat.eqb (acc1 (snd fb) xs) (length xs), stop1 (snd fb) xs) else fb.

Definition wall (xs : list bytes) (fb : bool * pchain) : bool * pchain :=
  if fst fb then (true, stop1 (snd fb) xs) else fb.

Definition wplex (all : bool) (bs : list (bool * pchain)) (xs : list bytes) : list (bool * pchain) * nat :=
  let n := length xs in
  let accs := waccs xs bs in
  if all then
    let k := match accs with [] => O | _ => list_min n accs end in
    if Nat.eqb k n then (map (wall xs) bs, n) else (wgo k xs bs false, k)
  else (map (wany xs) bs, list_max accs).

Lemma list_min_0 l : list_min 0 l = O.
Proof. unfold list_min. induction l as [|a l IH]; cbn [fold_right]; [reflexivity|]. rewrite IH. apply Nat.min_0_r. Qed.

Lemma list_max_zeros l : (forall a, In a l -> a = O) -> list_max l = O.
Proof.
  unfold list_max. induction l as [|a l IH]; cbn [fold_right]; intro H; [reflexivity|].
  rewrite IH; [|intros b Hb; apply H; right; exact Hb]. rewrite (H a); [reflexivity|left; reflexivity].
Qed.

Lemma list_min_S n l : list_min (S n) (map S l) = S (list_min n l).
Proof. unfold list_min. induction l as [|a l IH]; cbn [map fold_right]; [reflexivity|]. rewrite IH. reflexivity. Qed.

Lemma list_min_in0 n l : In O l -> list_min n l = O.
Proof.
  unfold list_min. induction l as [|a l IH]; cbn [fold_right]; intro H; [destruct H|].
  destruct H as [->|H]; [reflexivity|]. rewrite (IH H). apply Nat.min_0_r.
Qed.

Lemma filter_no_live (bs : list (bool * pchain)) :
  live bs = false -> filter (fun fb : bool * pchain => fst fb) bs = [].
Proof.
  unfold live. induction bs as [|[fl b] r IH]; cbn [existsb filter fst]; intro H; [reflexivity|].
  apply Bool.orb_false_elim in H. destruct H as [-> H]. apply IH. exact H.
Qed.

Lemma map_no_live (g : bool * pchain -> bool * pchain) bs :
  (forall b, g (false, b) = (false, b)) -> live bs = false -> map g bs = bs.
Proof.
  intro Hg. unfold live. induction bs as [|[fl b] r IH]; cbn [existsb map fst]; intro H; [reflexivity|].
  apply Bool.orb_false_elim in H. destruct H as [-> H]. rewrite Hg, (IH H). reflexivity.
Qed.

Lemma wgo_no_live k xs bs hit : live bs = false -> wgo k xs bs hit = bs.
Proof.
  unfold live. induction bs as [|[fl b] r IH]; cbn [existsb wgo fst]; intro H; [reflexivity|].
  apply Bool.orb_false_elim in H. destruct H as [-> H]. rewrite (IH H). reflexivity.
Qed.

Lemma wgo_hit0 xs bs : wgo 0 xs bs true = bs.
Proof.
  induction bs as [|[fl b] r IH]; cbn [wgo]; [reflexivity|]. rewrite IH.
  destruct fl; [|reflexivity]. cbn [take]. rewrite stop1_nil. reflexivity.
Qed.

Lemma waccs_live ys b r : waccs ys ((true, b) :: r) = acc1 b ys :: waccs ys r.
Proof. reflexivity. Qed.

Lemma waccs_dead ys b r : waccs ys ((false, b) :: r) = waccs ys r.
Proof. reflexivity. Qed.

Lemma list_max_cons a l : list_max (a :: l) = Nat.max a (list_max l).
Proof. reflexivity. Qed.

Lemma step_live f b : step f (true, b) = (snd (f b), fst (f b)).
Proof. reflexivity. Qed.

Lemma accepts_live1 f b : accepts f (true, b) = snd (f b).
Proof. reflexivity. Qed.

Lemma accepts_dead f b : accepts f (false, b) = false.
Proof. reflexivity. Qed.

Lemma refuses_live1 f b : refuses f (true, b) = negb (snd (f b)).
Proof. reflexivity. Qed.

(* -- one more buffer in front -- *)

Section Cons.
  Variable x : bytes.
  Variable xs : list bytes.
  Let f : pchain -> pchain * bool := fun b => feed1 b x.

  Lemma wany_cons fb : wany (x :: xs) fb = wany xs (step f fb).
  Proof.
    unfold wany, step. destruct fb as [fl b]. cbn [fst snd]. destruct fl; [|reflexivity].
    rewrite acc1_cons, stop1_cons. unfold f. destruct (snd (feed1 b x)); cbn [fst snd length Nat.eqb]; reflexivity.
  Qed.

  Lemma waccs_any_cons bs :
    list_max (waccs (x :: xs) bs)
    = if existsb (accepts f) bs then S (list_max (waccs xs (map (step f) bs))) else O.
  Proof.
    induction bs as [|[fl b] r IH]; [reflexivity|]. destruct fl.
    - rewrite waccs_live, list_max_cons, IH, acc1_cons. cbn [existsb map]. rewrite accepts_live1, step_live.
      change (feed1 b x) with (f b). destruct (snd (f b)) eqn:E; cbn [orb].
      + rewrite waccs_live, list_max_cons. destruct (existsb (accepts f) r) eqn:Er.
        * reflexivity.
        * assert (Hl : live (map (step f) r) = false) by (rewrite live_step; exact Er).
          unfold waccs at 1. rewrite (filter_no_live _ Hl). cbn [map list_max fold_right].
          rewrite !Nat.max_0_r. reflexivity.
      + rewrite waccs_dead. reflexivity.
    - rewrite waccs_dead. cbn [existsb map]. rewrite step_dead, waccs_dead. exact IH.
  Qed.

  (* when no live branch refuses x *)
  Lemma waccs_all_cons bs : existsb (refuses f) bs = false ->
    waccs (x :: xs) bs = map S (waccs xs (map (step f) bs)).
  Proof.
    unfold waccs. induction bs as [|[fl b] r IH]; cbn [existsb map filter fst]; intro H; [reflexivity|].
    apply Bool.orb_false_elim in H. destruct H as [H1 H2].
    unfold step at 1. cbn [fst snd]. destruct fl; [|exact (IH H2)].
    unfold refuses in H1. cbn [fst snd andb] in H1. apply Bool.negb_false_iff in H1.
    rewrite H1. cbn [filter fst map snd]. rewrite (IH H2), acc1_cons. unfold f in H1. rewrite H1. reflexivity.
  Qed.

  Lemma wall_cons bs : existsb (refuses f) bs = false ->
    map (wall (x :: xs)) bs = map (wall xs) (map (step f) bs).
  Proof.
    induction bs as [|[fl b] r IH]; cbn [existsb map]; intro H; [reflexivity|].
    apply Bool.orb_false_elim in H. destruct H as [H1 H2]. rewrite (IH H2). f_equal.
    unfold wall, step. cbn [fst snd]. destruct fl; [|reflexivity].
    unfold refuses in H1. cbn [fst snd andb] in H1. apply Bool.negb_false_iff in H1.
    rewrite H1. cbn [fst snd]. rewrite stop1_cons. unfold f in H1. rewrite H1. reflexivity.
  Qed.

  Lemma wgo_cons k bs : existsb (refuses f) bs = false ->
    forall hit, wgo (S k) (x :: xs) bs hit = wgo k xs (map (step f) bs) hit.
  Proof.
    induction bs as [|[fl b] r IH]; cbn [existsb map]; intros H hit; [reflexivity|].
    apply Bool.orb_false_elim in H. destruct H as [H1 H2].
    unfold step at 1. cbn [fst snd]. destruct fl.
    - unfold refuses in H1. cbn [fst snd andb] in H1. apply Bool.negb_false_iff in H1.
      rewrite H1. cbn [wgo take]. rewrite !(IH H2). rewrite !stop1_cons, acc1_cons. unfold f in H1. rewrite H1.
      cbn [Nat.eqb]. reflexivity.
    - cbn [wgo]. rewrite (IH H2). reflexivity.
  Qed.

  (* the first live branch refusing x *)
  Lemma wgo_refused pre b post :
    existsb (refuses f) pre = false -> snd (f b) = false ->
    wgo 0 (x :: xs) (pre ++ (true, b) :: post) false = map (step f) pre ++ (false, fst (f b)) :: post.
  Proof.
    intros H Hb. induction pre as [|[fl a] r IH]; cbn [existsb map app] in *.
    - cbn [wgo take]. rewrite acc1_cons, stop1_cons. unfold f in Hb. rewrite Hb. cbn [Nat.eqb].
      rewrite wgo_hit0. reflexivity.
    - apply Bool.orb_false_elim in H. destruct H as [H1 H2].
      unfold step at 1. cbn [fst snd]. destruct fl.
      + unfold refuses in H1. cbn [fst snd andb] in H1. apply Bool.negb_false_iff in H1.
        rewrite H1. cbn [wgo take]. rewrite acc1_cons, stop1_cons. unfold f in H1. rewrite H1.
        rewrite acc1_nil, stop1_nil. cbn [Nat.eqb]. rewrite (IH H2). reflexivity.
      + cbn [wgo]. rewrite (IH H2). reflexivity.
  Qed.

  Lemma waccs_refused pre b post : snd (f b) = false -> In O (waccs (x :: xs) (pre ++ (true, b) :: post)).
  Proof.
    intro Hb. unfold waccs. rewrite filter_app, map_app. apply in_or_app. right.
    cbn [filter fst map snd]. left. rewrite acc1_cons. unfold f in Hb. rewrite Hb. reflexivity.
  Qed.
End Cons.

Lemma feeds1_plex_shape xs all failed bs :
  fst (feeds1 (PPlex all failed bs) xs) = PPlex all (match fst (feeds1 (PPlex all failed bs) xs) with PPlex _ fl _ => fl | _ => false end)
                                             (branches (fst (feeds1 (PPlex all failed bs) xs))).
Proof. destruct (feeds1_released xs all failed bs) as (fl & bs' & E & _). rewrite E. reflexivity. Qed.

(* the per-call semantics of a multiplexer, summed up over a run that stops at the first refusal *)
Lemma whole_plex all xs : forall bs,
  (branches (stop1 (PPlex all false bs) xs), acc1 (PPlex all false bs) xs) = wplex all bs xs.
Proof.
  induction xs as [|x xs IH]; intro bs.
  - rewrite stop1_nil, acc1_nil. unfold wplex. cbn [branches length]. destruct all.
    + rewrite list_min_0. assert (E : match waccs [] bs with [] => O | _ :: _ => O end = O) by (destruct (waccs [] bs); reflexivity).
      rewrite E. cbn [Nat.eqb]. f_equal. symmetry. clear E.
      induction bs as [|[fl b] r IHr]; cbn [map]; [reflexivity|]. rewrite IHr. unfold wall. cbn [fst snd].
      destruct fl; [rewrite stop1_nil|]; reflexivity.
    + f_equal.
      * symmetry. induction bs as [|[fl b] r IHr]; cbn [map]; [reflexivity|]. rewrite IHr. unfold wany. cbn [fst snd].
        destruct fl; [rewrite stop1_nil, acc1_nil|]; reflexivity.
      * symmetry. apply list_max_zeros. intros a Ha. unfold waccs in Ha. apply in_map_iff in Ha.
        destruct Ha as (fb & <- & _). apply acc1_nil.
  - rewrite stop1_cons, acc1_cons, feed1_call. set (f := fun b => feed1 b x). destruct all.
    + destruct (existsb (refuses f) bs) eqn:E.
      * destruct (first_refusing _ _ E) as (pre & b & post & -> & Hp & Hb).
        rewrite (call1_all_refused _ _ _ _ Hp Hb). cbn [fst snd branches]. unfold wplex.
        rewrite (list_min_in0 _ _ (waccs_refused x xs pre b post Hb)).
        assert (Ek : match waccs (x :: xs) (pre ++ (true, b) :: post) with [] => O | _ :: _ => O end = O)
          by (destruct (waccs (x :: xs) (pre ++ (true, b) :: post)); reflexivity).
        rewrite Ek. cbn [length Nat.eqb]. rewrite (wgo_refused x xs pre b post Hp Hb). reflexivity.
      * rewrite (call1_all_ok _ _ E). cbn [fst snd]. destruct (live bs) eqn:L.
        -- specialize (IH (map (step f) bs)). unfold wplex in *.
           rewrite (waccs_all_cons x xs bs E). fold f.
           assert (Hne : waccs xs (map (step f) bs) <> []).
           { unfold waccs. intro Hn. apply map_eq_nil in Hn.
             assert (Hl : live (map (step f) bs) = true).
             { rewrite live_step. apply live_exists in L. destruct L as (fb & Hin & Hfb).
               apply existsb_accepts. exists fb. split; [exact Hin|]. split; [exact Hfb|].
               apply (proj1 (existsb_refuses_false f bs) E fb Hin Hfb). }
             apply live_exists in Hl. destruct Hl as (fb & Hin & Hfb).
             assert (Hf : In fb (filter (fun fb : bool * pchain => fst fb) (map (step f) bs)))
               by (apply filter_In; split; assumption).
             rewrite Hn in Hf. destruct Hf. }
           destruct (waccs xs (map (step f) bs)) as [|a0 l0] eqn:Ew; [destruct (Hne eq_refl)|].
           cbn [map]. change (S a0 :: map S l0) with (map S (a0 :: l0)). cbn [length]. rewrite list_min_S.
           cbn [Nat.eqb].
           destruct (Nat.eqb (list_min (length xs) (a0 :: l0)) (length xs)).
           ++ injection IH as IH1 IH2. rewrite IH2. rewrite (wall_cons x xs bs E). fold f. rewrite IH1. reflexivity.
           ++ injection IH as IH1 IH2. rewrite IH2. rewrite (wgo_cons x xs _ bs E). fold f. rewrite IH1. reflexivity.
        -- cbn [branches]. unfold wplex, waccs. rewrite (filter_no_live _ L). cbn [map length Nat.eqb].
           rewrite (wgo_no_live _ _ _ _ L). rewrite (map_no_live _ _ (step_dead f) L). reflexivity.
    + rewrite call1_any. cbn [fst snd]. unfold wplex. rewrite waccs_any_cons. fold f.
      rewrite (map_ext _ _ (wany_cons x xs)). fold f. rewrite <- (map_map (step f) (wany xs)).
      destruct (existsb (accepts f) bs) eqn:E.
      * specialize (IH (map (step f) bs)). unfold wplex in IH. injection IH as IH1 IH2.
        rewrite IH1, IH2. reflexivity.
      * cbn [branches]. f_equal. symmetry. apply map_no_live.
        -- intro b. reflexivity.
        -- rewrite live_step. exact E.
Qed.

(* -- Io/Chain.v [feeds] on a multiplexer, the local loop named -- *)

Definition cgo (k : nat) (xs : list bytes) : list (bool * chain) -> bool -> list (bool * chain) :=
  fix go (bs : list (bool * chain)) (hit : bool) : list (bool * chain) :=
    match bs with
    | [] => []
    | (false, b) :: r => (false, b) :: go r hit
    | (true, b) :: r =>
        if hit then (true, fst (feeds b (take k xs))) :: go r true
        else let '(b', a) := feeds b (take (S k) xs) in
             if Nat.eqb a k then (false, b') :: go r true
             else (true, b') :: go r false
    end.

Definition crs (xs : list bytes) (bs : list (bool * chain)) : list (bool * chain * (chain * nat)) :=
  map (fun fb : bool * chain => match fb with (f, b) => (f, b, feeds b xs) end) bs.

Definition caccs (xs : list bytes) (bs : list (bool * chain)) : list nat :=
  map (fun r : bool * chain * (chain * nat) => snd (snd r))
      (filter (fun r : bool * chain * (chain * nat) => fst (fst r)) (crs xs bs)).

Lemma feeds_plex all bs xs :
  feeds (Plex all bs) xs =
  let n := length xs in
  if all then
    let k := match caccs xs bs with [] => O | _ => list_min n (caccs xs bs) end in
    if Nat.eqb k n then
      (Plex all (map (fun r : bool * chain * (chain * nat) =>
                        if fst (fst r) then (true, fst (snd r)) else (false, snd (fst r))) (crs xs bs)), n)
    else (Plex all (cgo k xs bs false), k)
  else
    (Plex all (map (fun r : bool * chain * (chain * nat) =>
                      if fst (fst r) then (Nat.eqb (snd (snd r)) n, fst (snd r)) else (false, snd (fst r))) (crs xs bs)),
     list_max (caccs xs bs)).
Proof. reflexivity. Qed.

Definition tcb (fb : bool * pchain) : bool * chain := (fst fb, to_chain (snd fb)).

Lemma to_chain_plex all failed bs : to_chain (PPlex all failed bs) = Plex all (map tcb bs).
Proof.
  cbn [to_chain]. f_equal. induction bs as [|[fl b] r IH]; cbn [map]; [reflexivity|]. rewrite IH. reflexivity.
Qed.

(* the two semantics agree on c: Chain.v's [feeds] is the per-call run stopped at the first refusal *)
Definition agree (c : pchain) : Prop :=
  forall ys, feeds (to_chain c) ys = (to_chain (stop1 c ys), acc1 c ys).

Section ChainSide.
  Variable xs : list bytes.

  Lemma caccs_waccs bs :
    Forall (fun fb : bool * pchain => fst fb = true -> agree (snd fb)) bs ->
    caccs xs (map tcb bs) = waccs xs bs.
  Proof.
    unfold caccs, crs, waccs. intro H. induction H as [|[fl b] r Hb _ IH]; cbn [map filter fst snd tcb]; [reflexivity|].
    destruct fl; cbn [fst snd filter map].
    - rewrite IH. cbn [fst snd] in Hb. rewrite (Hb eq_refl xs). reflexivity.
    - exact IH.
  Qed.

  Lemma crs_any bs :
    Forall (fun fb : bool * pchain => fst fb = true -> agree (snd fb)) bs ->
    map (fun r : bool * chain * (chain * nat) =>
           if fst (fst r) then (Nat.eqb (snd (snd r)) (length xs), fst (snd r)) else (false, snd (fst r)))
        (crs xs (map tcb bs))
    = map tcb (map (wany xs) bs).
  Proof.
    unfold crs. intro H. induction H as [|[fl b] r Hb _ IH]; cbn [map tcb fst snd]; [reflexivity|].
    rewrite IH. f_equal. unfold wany. cbn [fst snd] in *. destruct fl; [|reflexivity].
    rewrite (Hb eq_refl xs). reflexivity.
  Qed.

  Lemma crs_all bs :
    Forall (fun fb : bool * pchain => fst fb = true -> agree (snd fb)) bs ->
    map (fun r : bool * chain * (chain * nat) =>
           if fst (fst r) then (true, fst (snd r)) else (false, snd (fst r)))
        (crs xs (map tcb bs))
    = map tcb (map (wall xs) bs).
  Proof.
    unfold crs. intro H. induction H as [|[fl b] r Hb _ IH]; cbn [map tcb fst snd]; [reflexivity|].
    rewrite IH. f_equal. unfold wall. cbn [fst snd] in *. destruct fl; [|reflexivity].
    rewrite (Hb eq_refl xs). reflexivity.
  Qed.

  Lemma cgo_wgo k bs :
    Forall (fun fb : bool * pchain => fst fb = true -> agree (snd fb)) bs ->
    forall hit, cgo k xs (map tcb bs) hit = map tcb (wgo k xs bs hit).
  Proof.
    intro H. induction H as [|[fl b] r Hb _ IH]; intro hit; [reflexivity|].
    cbn [map tcb fst snd]. destruct fl.
    - cbn [fst snd] in Hb. specialize (Hb eq_refl). cbn [cgo wgo]. fold (cgo k xs). cbn [tcb fst snd map].
      destruct hit.
      + rewrite (Hb (take k xs)), IH. reflexivity.
      + rewrite (Hb (take (S k) xs)). destruct (Nat.eqb (acc1 b (take (S k) xs)) k); rewrite IH; reflexivity.
    - cbn [cgo wgo]. fold (cgo k xs). cbn [tcb fst snd map]. rewrite IH. reflexivity.
  Qed.

  Lemma feeds_wplex all bs :
    Forall (fun fb : bool * pchain => fst fb = true -> agree (snd fb)) bs ->
    feeds (Plex all (map tcb bs)) xs = (Plex all (map tcb (fst (wplex all bs xs))), snd (wplex all bs xs)).
  Proof.
    intro H. rewrite feeds_plex. unfold wplex. cbv zeta. rewrite (caccs_waccs _ H). destruct all.
    - destruct (Nat.eqb match waccs xs bs with [] => O | _ :: _ => list_min (length xs) (waccs xs bs) end (length xs)).
      + rewrite (crs_all _ H). reflexivity.
      + rewrite (cgo_wgo _ _ H). reflexivity.
    - rewrite (crs_any _ H). reflexivity.
  Qed.
End ChainSide.

Lemma sink_agree s : agree (PSink s).
Proof.
  intro ys. revert s. induction ys as [|y ys IH]; intro s.
  - reflexivity.
  - cbn [to_chain feeds sink_feeds] in *. rewrite acc1_cons, stop1_cons, feed1_sink. cbn [fst snd].
    destruct (sink_feed s y) as [s' ok]. cbn [fst snd]. destruct ok.
    + specialize (IH s'). destruct (sink_feeds s' ys) as [s2 k]. injection IH as IH1 IH2. rewrite IH1, IH2. reflexivity.
    + reflexivity.
Qed.

(* AGREEMENT: on a clean chain, Chain.v's whole-run [feeds] returns the state the per-call
   semantics is in after the first refused feed (or after the last feed when none is
   refused), and the number of feeds accepted before it *)
Theorem agreement c : clean c -> forall xs, feeds (to_chain c) xs = (to_chain (stop1 c xs), acc1 c xs).
Proof.
  induction c as [s|all failed bs IH] using pchain_ind'; intro Hc.
  - apply sink_agree.
  - apply clean_plex in Hc. destruct Hc as [-> Hc]. intro xs.
    assert (HB : Forall (fun fb : bool * pchain => fst fb = true -> agree (snd fb)) bs).
    { clear xs. induction IH as [|fb r Hfb _ IHr]; inversion Hc as [|? ? Hc1 Hc2]; subst; constructor.
      - intros Hl ys. apply Hfb. apply Hc1. exact Hl.
      - apply IHr. exact Hc2. }
    rewrite to_chain_plex, (feeds_wplex xs all bs HB), <- whole_plex. cbn [fst snd].
    unfold stop1 at 2. rewrite feeds1_plex_shape, to_chain_plex. reflexivity.
Qed.

(* -- reading the result -- *)

Lemma lead_le vs : (lead vs <= length vs)%nat.
Proof. induction vs as [|[|] r IH]; cbn [lead length]; lia. Qed.

(* the first [lead vs] verdicts are true and the next one, if there is one, is false *)
Lemma lead_spec vs :
  (forall i, (i < lead vs)%nat -> nth_error vs i = Some true) /\
  ((lead vs < length vs)%nat -> nth_error vs (lead vs) = Some false).
Proof.
  induction vs as [|[|] r [IH1 IH2]]; cbn [lead length].
  - split; intros; lia.
  - split.
    + intros [|i] Hi; [reflexivity|]. cbn [nth_error]. apply IH1. lia.
    + intro H. cbn [nth_error]. apply IH2. lia.
  - split; [intros; lia|]. intros _. reflexivity.
Qed.

Lemma acc1_le c xs : (acc1 c xs <= length xs)%nat.
Proof. unfold acc1. rewrite <- (feeds1_length c xs). apply lead_le. Qed.

Lemma lead_all_true vs : Forall (fun v => v = true) vs -> lead vs = length vs.
Proof. intro H. induction H as [|v r Hv _ IH]; [reflexivity|]. subst v. cbn [lead length]. rewrite IH. reflexivity. Qed.

Lemma feeds1_take c xs : forall j, snd (feeds1 c (take j xs)) = take j (snd (feeds1 c xs)).
Proof.
  revert c. induction xs as [|x xs IH]; intros c j.
  - destruct j; reflexivity.
  - destruct j as [|j]; [reflexivity|]. cbn [take]. rewrite !feeds1_cons. cbn [snd take]. rewrite IH. reflexivity.
Qed.

Lemma lead_take vs : forall j, (j <= lead vs)%nat -> lead (take j vs) = j.
Proof.
  induction vs as [|[|] r IH]; intros j Hj; cbn [lead] in Hj.
  - assert (j = O) by lia. subst j. reflexivity.
  - destruct j as [|j]; [reflexivity|]. cbn [take lead]. rewrite IH; [reflexivity|lia].
  - assert (j = O) by lia. subst j. reflexivity.
Qed.

(* as long as every verdict so far is true, the two semantics are in the same state *)
Theorem agreement_prefix c : clean c -> forall xs j, (j <= acc1 c xs)%nat ->
  feeds (to_chain c) (take j xs) = (to_chain (fst (feeds1 c (take j xs))), j).
Proof.
  intros Hc xs j Hj. rewrite (agreement c Hc). unfold stop1, acc1. rewrite feeds1_take.
  rewrite (lead_take _ _ Hj). rewrite (take_all (S j)); [reflexivity|]. rewrite take_length. lia.
Qed.

Theorem agreement_all_true c xs : clean c -> Forall (fun v => v = true) (snd (feeds1 c xs)) ->
  feeds (to_chain c) xs = (to_chain (fst (feeds1 c xs)), length xs).
Proof.
  intros Hc H. rewrite (agreement c Hc). unfold stop1, acc1. rewrite (lead_all_true _ H), feeds1_length.
  rewrite take_all; [reflexivity|lia].
Qed.

(* the sinks are in the same places *)
Lemma all_sinks_to_chain c : all_sinks (to_chain c) = sinks_of c.
Proof.
  induction c as [s|all failed bs IH] using pchain_ind'; [reflexivity|].
  cbn [to_chain all_sinks sinks_of]. induction IH as [|[fl b] r Hb _ IHr]; [reflexivity|].
  cbn [snd] in Hb. rewrite Hb, IHr. reflexivity.
Qed.

(* chains without stages are the clean pchains *)
Lemma of_chain_spec c : forall p, of_chain c = Some p -> to_chain p = c /\ clean p.
Proof.
  induction c as [s|T st next _|all bs IH] using ChainProofs.chain_ind'; intros p Hp.
  - injection Hp as <-. split; [reflexivity|exact I].
  - discriminate Hp.
  - cbn [of_chain] in Hp.
    assert (Hgo : forall bs', (fix go (bs : list (bool * chain)) : option (list (bool * pchain)) :=
                      match bs with
                      | [] => Some []
                      | (f, b) :: r =>
                          match of_chain b, go r with
                          | Some b', Some r' => Some ((f, b') :: r')
                          | _, _ => None
                          end
                      end) bs = Some bs' ->
                   map tcb bs' = bs /\ Forall (fun fb : bool * pchain => fst fb = true -> clean (snd fb)) bs').
    { clear Hp. induction IH as [|[fl b] r Hb _ IHr]; intros bs' E.
      - injection E as <-. split; [reflexivity|constructor].
      - cbn [snd] in Hb. destruct (of_chain b) as [b'|]; [|discriminate E].
        match type of E with match ?g with _ => _ end = _ => destruct g as [r'|] eqn:Er end; [|discriminate E].
        injection E as <-. destruct (Hb b' eq_refl) as [Hb1 Hb2]. destruct (IHr r' eq_refl) as [Hr1 Hr2].
        split.
        + cbn [map]. unfold tcb at 1. cbn [fst snd]. rewrite Hb1, Hr1. reflexivity.
        + constructor; [intros _; exact Hb2|exact Hr2]. }
    match type of Hp with match ?g with _ => _ end = _ => destruct g as [bs'|] eqn:E end; [|discriminate Hp].
    injection Hp as <-. destruct (Hgo bs' eq_refl) as [H1 H2]. split.
    + rewrite to_chain_plex, H1. reflexivity.
    + apply clean_plex. split; [reflexivity|exact H2].
Qed.

(* AGREEMENT, read from Chain.v's side: a chain without stages, run as a whole, accepts the
   feeds the per-call semantics accepts before its first refusal, and every sink then holds
   what it holds in the per-call semantics after the refused (or last) call *)
Theorem agreement_chain c p xs : of_chain c = Some p ->
  feeds c xs = (to_chain (stop1 p xs), acc1 p xs) /\
  all_sinks (fst (feeds c xs)) = sinks_of (stop1 p xs).
Proof.
  intro H. destruct (of_chain_spec c p H) as [<- Hc]. rewrite (agreement p Hc). split; [reflexivity|].
  cbn [fst]. apply all_sinks_to_chain.
Qed.

(* ---- (e) continued: the verdict of a whole run ([runc]: all feeds, then done) ----------- *)

(* every feed accepted and done succeeded *)
Definition okb (c : pchain) (xs : list bytes) : bool :=
  forallb (fun v : bool => v) (snd (feeds1 c xs)) && snd (done1 (fst (feeds1 c xs))).

Lemma okb_nil c : okb c [] = snd (done1 c).
Proof. reflexivity. Qed.

Lemma okb_cons c x xs : okb c (x :: xs) = snd (feed1 c x) && okb (fst (feed1 c x)) xs.
Proof. unfold okb. rewrite feeds1_cons. cbn [fst snd forallb]. rewrite Bool.andb_assoc. reflexivity. Qed.

Lemma okb_session c xs :
  okb c xs = true <-> (forall v, In v (snd (fst (session c xs))) -> v = true) /\ snd (session c xs) = true.
Proof.
  rewrite session_eq. cbn [fst snd]. unfold okb. rewrite Bool.andb_true_iff, forallb_forall. reflexivity.
Qed.

Definition ok_any (xs : list bytes) (fb : bool * pchain) : bool := fst fb && okb (snd fb) xs.
Definition ok_all (xs : list bytes) (fb : bool * pchain) : bool := implb (fst fb) (okb (snd fb) xs).

Lemma call1_all_snd f bs : snd (call1 f true bs) = live bs && negb (existsb (refuses f) bs).
Proof.
  destruct (existsb (refuses f) bs) eqn:E.
  - destruct (first_refusing _ _ E) as (pre & b & post & -> & Hp & Hb).
    rewrite (call1_all_refused _ _ _ _ Hp Hb). cbn [snd negb]. rewrite Bool.andb_false_r. reflexivity.
  - rewrite (call1_all_ok _ _ E). cbn [snd negb]. rewrite Bool.andb_true_r. reflexivity.
Qed.

Lemma forallb_refuses f bs :
  forallb (fun fb : bool * pchain => implb (fst fb) (snd (f (snd fb)))) bs = negb (existsb (refuses f) bs).
Proof.
  induction bs as [|[fl b] r IH]; cbn [forallb existsb]; [reflexivity|].
  rewrite IH, Bool.negb_orb. unfold refuses. cbn [fst snd]. destruct fl, (snd (f b)); reflexivity.
Qed.

Lemma ok_any_live ys b : ok_any ys (true, b) = okb b ys.
Proof. reflexivity. Qed.

Lemma ok_any_dead ys b : ok_any ys (false, b) = false.
Proof. reflexivity. Qed.

Lemma ok_any_step x xs fb : ok_any xs (step (fun b => feed1 b x) fb) = ok_any (x :: xs) fb.
Proof.
  destruct fb as [fl b]. destruct fl.
  - rewrite step_live, ok_any_live, okb_cons. reflexivity.
  - reflexivity.
Qed.

Lemma any_cons_ok x xs bs :
  existsb (accepts (fun b => feed1 b x)) bs && existsb (ok_any xs) (map (step (fun b => feed1 b x)) bs)
  = existsb (ok_any (x :: xs)) bs.
Proof.
  assert (E : existsb (ok_any xs) (map (step (fun b => feed1 b x)) bs) = existsb (ok_any (x :: xs)) bs).
  { induction bs as [|fb r IHr]; cbn [existsb map]; [reflexivity|]. rewrite IHr, ok_any_step. reflexivity. }
  rewrite E. destruct (existsb (ok_any (x :: xs)) bs) eqn:H; [|apply Bool.andb_false_r].
  rewrite Bool.andb_true_r. apply existsb_exists in H. destruct H as (fb & Hin & Hfb).
  apply existsb_exists. exists fb. split; [exact Hin|]. destruct fb as [fl b].
  unfold ok_any in Hfb. cbn [fst snd] in Hfb. rewrite okb_cons in Hfb.
  unfold accepts. cbn [fst snd]. destruct fl, (snd (feed1 b x)); try reflexivity; discriminate Hfb.
Qed.

Lemma okb_plex_any xs : forall bs, okb (PPlex false false bs) xs = existsb (ok_any xs) bs.
Proof.
  induction xs as [|x xs IH]; intro bs.
  - rewrite okb_nil, done1_call, call1_any. reflexivity.
  - rewrite okb_cons, feed1_call, call1_any. cbn [fst snd]. rewrite IH. apply any_cons_ok.
Qed.

Lemma okb_plex_all xs : forall bs, okb (PPlex true false bs) xs = live bs && forallb (ok_all xs) bs.
Proof.
  induction xs as [|x xs IH]; intro bs.
  - rewrite okb_nil, done1_call, call1_all_snd, <- forallb_refuses. reflexivity.
  - rewrite okb_cons, feed1_call. set (f := fun b => feed1 b x).
    assert (Hsplit : forallb (ok_all (x :: xs)) bs
                     = negb (existsb (refuses f) bs)
                       && forallb (fun fb : bool * pchain => implb (fst fb) (okb (fst (f (snd fb))) xs)) bs).
    { rewrite <- forallb_refuses. induction bs as [|[fl b] r IHr]; cbn [forallb]; [reflexivity|].
      rewrite IHr. unfold ok_all at 1. cbn [fst snd]. rewrite okb_cons. fold (f b).
      destruct fl, (snd (f b)), (okb (fst (f b)) xs); cbn [implb andb]; try reflexivity.
      rewrite Bool.andb_false_r. reflexivity. }
    rewrite Hsplit, call1_all_snd.
    destruct (existsb (refuses f) bs) eqn:E; cbn [negb andb].
    + rewrite Bool.andb_false_r. reflexivity.
    + rewrite (call1_all_ok _ _ E). cbn [fst]. rewrite IH, Bool.andb_true_r.
      destruct (live bs) eqn:L; cbn [andb]; [|reflexivity].
      assert (L' : live (map (step f) bs) = true).
      { rewrite live_step. apply live_exists in L. destruct L as (fb & Hin & Hfb).
        apply existsb_accepts. exists fb. split; [exact Hin|]. split; [exact Hfb|].
        apply (proj1 (existsb_refuses_false f bs) E fb Hin Hfb). }
      rewrite L'. cbn [andb]. clear L L' Hsplit.
      induction bs as [|[fl b] r IHr]; cbn [forallb map existsb] in *; [reflexivity|].
      apply Bool.orb_false_elim in E. destruct E as [E1 E2]. rewrite (IHr E2). f_equal.
      unfold ok_all, step. cbn [fst snd]. destruct fl; [|reflexivity].
      unfold refuses in E1. cbn [fst snd andb] in E1. apply Bool.negb_false_iff in E1. rewrite E1. reflexivity.
Qed.

Definition agree_run (c : pchain) : Prop := forall ys, snd (runc (to_chain c) ys) = okb c ys.

Lemma vs_of_any xs bs :
  Forall (fun fb : bool * pchain => fst fb = true -> agree_run (snd fb)) bs ->
  existsb (fun v : bool => v) (vs_of xs (map tcb bs)) = existsb (ok_any xs) bs.
Proof.
  unfold vs_of. intro H. induction H as [|[fl b] r Hb _ IH]; cbn [map tcb filter fst snd existsb]; [reflexivity|].
  unfold ok_any at 1. cbn [fst snd] in *. destruct fl; cbn [map existsb andb orb snd tcb fst].
  - rewrite IH, (Hb eq_refl xs). reflexivity.
  - exact IH.
Qed.

Lemma vs_of_all xs bs :
  Forall (fun fb : bool * pchain => fst fb = true -> agree_run (snd fb)) bs ->
  match vs_of xs (map tcb bs) with [] => false | _ => true end && forallb (fun v : bool => v) (vs_of xs (map tcb bs))
  = live bs && forallb (ok_all xs) bs.
Proof.
  intro H. f_equal.
  - clear H. unfold vs_of, live. induction bs as [|[fl b] r IH]; cbn [map tcb filter fst snd existsb]; [reflexivity|].
    destruct fl; cbn [map orb]; [reflexivity|exact IH].
  - unfold vs_of. induction H as [|[fl b] r Hb _ IH]; cbn [map tcb filter fst snd forallb]; [reflexivity|].
    unfold ok_all at 1. cbn [fst snd] in *. destruct fl; cbn [map forallb implb andb snd tcb fst].
    + rewrite IH, (Hb eq_refl xs). reflexivity.
    + exact IH.
Qed.

Lemma sink_agree_run s : agree_run (PSink s).
Proof.
  intro ys. revert s. induction ys as [|y ys IH]; intro s.
  - cbn [to_chain runc sink_feeds length Nat.eqb]. rewrite okb_nil, done1_sink. destruct (sink_done s). reflexivity.
  - rewrite okb_cons, feed1_sink. cbn [fst snd]. specialize (IH (fst (sink_feed s y))).
    cbn [to_chain runc sink_feeds length] in *. destruct (sink_feed s y) as [s' ok]. cbn [fst snd] in *.
    destruct ok; cbn [andb].
    + rewrite <- IH. destruct (sink_feeds s' ys) as [s2 k]. cbn [Nat.eqb].
      destruct (Nat.eqb k (length ys)); [destruct (sink_done s2)|]; reflexivity.
    + reflexivity.
Qed.

(* the whole run of Chain.v succeeds iff, call by call, every feed is accepted and done succeeds *)
Theorem run_agreement c : clean c -> forall xs, snd (runc (to_chain c) xs) = okb c xs.
Proof.
  induction c as [s|all failed bs IH] using pchain_ind'; intro Hc.
  - apply sink_agree_run.
  - apply clean_plex in Hc. destruct Hc as [-> Hc]. intro xs.
    assert (HB : Forall (fun fb : bool * pchain => fst fb = true -> agree_run (snd fb)) bs).
    { clear xs. induction IH as [|fb r Hfb _ IHr]; inversion Hc as [|? ? Hc1 Hc2]; subst; constructor.
      - intros Hl ys. apply Hfb. apply Hc1. exact Hl.
      - apply IHr. exact Hc2. }
    rewrite to_chain_plex. destruct all.
    + rewrite (proj1 (runc_plex_all _ _)), (vs_of_all _ _ HB), okb_plex_all. reflexivity.
    + rewrite (proj1 (runc_plex_any _ _)), (vs_of_any _ _ HB), okb_plex_any. reflexivity.
Qed.

Theorem run_agreement_chain c p xs : of_chain c = Some p ->
  (snd (run c xs) = true <->
   (forall v, In v (snd (fst (session p xs))) -> v = true) /\ snd (session p xs) = true).
Proof.
  intro H. destruct (of_chain_spec c p H) as [<- Hc]. rewrite <- okb_session, <- (run_agreement p Hc).
  unfold run. destruct (runc (to_chain p) xs) as [[c' k] v]. reflexivity.
Qed.
