(* Chunking independence, failure and bound propagation for IO chains. *)
From JoseV Require Import Codec.B64Spec Codec.B64Impl Io.Chain Io.B64Stream.
From Coq Require Import ZifyBool ZifyN ZifyNat.
Local Open Scope N_scope.

(* ---- induction principle reaching into multiplexer branches -------------------- *)

Section ChainInd.
  Variable P : chain -> Prop.
  Hypothesis Hsink : forall s, P (Sink s).
  Hypothesis Hstage : forall T st next, P next -> P (Stage T st next).
  Hypothesis Hplex : forall all bs, Forall (fun fb => P (snd fb)) bs -> P (Plex all bs).

  Fixpoint chain_ind' (c : chain) : P c :=
    match c with
    | Sink s => Hsink s
    | Stage T st next => Hstage T st next (chain_ind' next)
    | Plex all bs =>
        Hplex all bs ((fix go (bs : list (bool * chain)) : Forall (fun fb => P (snd fb)) bs :=
                         match bs with
                         | [] => Forall_nil _
                         | fb :: r => Forall_cons _ (chain_ind' (snd fb)) (go r)
                         end) bs)
    end.
End ChainInd.

(* ---- lawful chains ----------------------------------------------------------------- *)

(* a stage obeys the stream law from state st when what it accepts and what it
   passes on depend only on the concatenation of what it is fed *)
Definition tlaw (T : transducer) (st : bytes) : Prop :=
  forall cs cs', concat cs = concat cs' -> taccept T st cs = taccept T st cs'.

Definition sink_ok (s : sink) : Prop :=
  match s with
  | SMalloc _ | SFile _ => True
  | SBuffer cap d => blen d <= cap
  | SFaulty ff _ _ _ => ff = None     (* "reject call number n" is by construction a function of the call count *)
  end.

Fixpoint lawful (c : chain) : Prop :=
  match c with
  | Sink s => sink_ok s
  | Stage T st next => tlaw T st /\ lawful next
  | Plex _ bs =>
      (fix go (bs : list (bool * chain)) : Prop :=
         match bs with
         | [] => True
         | fb :: r => lawful (snd fb) /\ go r
         end) bs
  end.

Lemma lawful_plex all bs : lawful (Plex all bs) <-> Forall (fun fb => lawful (snd fb)) bs.
Proof.
  cbn [lawful]. induction bs as [|fb r IH]; split; intro H.
  - constructor.
  - exact I.
  - destruct H as [H1 H2]. constructor; [exact H1|apply IH; exact H2].
  - inversion H; subst. split; [assumption|apply IH; assumption].
Qed.

Lemma b64dec_lawful : tlaw b64dec_T [].
Proof. intros cs cs' H. rewrite !b64dec_stream. rewrite H. reflexivity. Qed.

(* ---- sinks -------------------------------------------------------------------------- *)

Lemma sink_feeds_malloc xs : forall d, sink_feeds (SMalloc d) xs = (SMalloc (d ++ concat xs), length xs).
Proof.
  induction xs as [|x xs IH]; intro d; cbn [sink_feeds concat length].
  - rewrite app_nil_r. reflexivity.
  - cbn [sink_feed]. rewrite IH. rewrite <- app_assoc. reflexivity.
Qed.

Lemma sink_feeds_file xs : forall d, sink_feeds (SFile d) xs = (SFile (d ++ concat xs), length xs).
Proof.
  induction xs as [|x xs IH]; intro d; cbn [sink_feeds concat length].
  - rewrite app_nil_r. reflexivity.
  - cbn [sink_feed]. rewrite IH. rewrite <- app_assoc. reflexivity.
Qed.

Lemma sink_feeds_faulty xs : forall fd calls d,
  sink_feeds (SFaulty None fd calls d) xs = (SFaulty None fd (calls + length xs) (d ++ concat xs), length xs).
Proof.
  induction xs as [|x xs IH]; intros fd calls d; cbn [sink_feeds concat length].
  - rewrite app_nil_r. rewrite Nat.add_0_r. reflexivity.
  - cbn [sink_feed]. rewrite IH. rewrite <- app_assoc. rewrite Nat.add_succ_r. reflexivity.
Qed.

(* a buffer sink accepts a sequence of feeds exactly when the total fits, and never holds more than cap *)
Lemma sink_feeds_buffer xs : forall cap d, blen d <= cap ->
  if blen d + blen (concat xs) <=? cap
  then sink_feeds (SBuffer cap d) xs = (SBuffer cap (d ++ concat xs), length xs)
  else exists d' k, sink_feeds (SBuffer cap d) xs = (SBuffer cap d', k) /\ (k < length xs)%nat /\ blen d' <= cap.
Proof.
  induction xs as [|x xs IH]; intros cap d Hd; cbn [sink_feeds concat length].
  - unfold blen at 2. cbn [length]. replace (blen d + N.of_nat 0 <=? cap) with true by lia.
    rewrite app_nil_r. reflexivity.
  - cbn [sink_feed]. rewrite blen_app.
    destruct (cap - blen d <? blen x) eqn:E.
    + replace (blen d + (blen x + blen (concat xs)) <=? cap) with false by lia.
      exists d, 0%nat. split; [reflexivity|]. split; [lia|exact Hd].
    + assert (Hd' : blen (d ++ x) <= cap) by (rewrite blen_app; lia).
      specialize (IH cap (d ++ x) Hd'). rewrite blen_app in IH.
      replace (blen d + blen x + blen (concat xs)) with (blen d + (blen x + blen (concat xs))) in IH by lia.
      destruct (blen d + (blen x + blen (concat xs)) <=? cap).
      * rewrite IH. rewrite <- app_assoc. reflexivity.
      * destruct IH as (d' & k & Eq & Hk & Hc). rewrite Eq. exists d', (S k). split; [reflexivity|]. split; [lia|exact Hc].
Qed.

Lemma blen_concat_eq (cs cs' : list bytes) : concat cs = concat cs' -> blen (concat cs) = blen (concat cs').
Proof. intro H. rewrite H. reflexivity. Qed.

(* ---- verdict true means every buffer was accepted -------------------------------------- *)

Lemma runc_true_all c xs : snd (runc c xs) = true -> snd (fst (runc c xs)) = length xs.
Proof.
  destruct c as [s|T st next|all bs]; cbn [runc].
  - destruct (sink_feeds s xs) as [s' k]. destruct (Nat.eqb k (length xs)) eqn:E.
    + destruct (sink_done s') as [s2 ok]. cbn [fst snd]. intros _. apply Nat.eqb_eq. exact E.
    + cbn [snd]. discriminate.
  - destruct (trun T st xs) as [[[st' oss] part] tok].
    destruct (if tok then tdone T st' else None) as [fo|].
    + destruct (runc next ((concat oss ++ part) ++ fo)) as [[next' a] v].
      destruct (Nat.ltb a (length (concat oss ++ part))); cbn [fst snd]; [discriminate|reflexivity].
    + destruct (feeds next (concat oss ++ part)) as [next' a]. cbn [snd]. discriminate.
  - cbv zeta.
    match goal with |- context [negb (Nat.eqb ?k (length xs))] => set (kk := k) end.
    destruct (Nat.eqb kk (length xs)) eqn:E; cbn [negb].
    + apply Nat.eqb_eq in E.
      destruct all.
      * match goal with |- context [match ?v with [] => _ | _ :: _ => _ end] => destruct v end;
          [cbn [snd]; discriminate|].
        match goal with |- context [if forallb ?f ?l then _ else _] => destruct (forallb f l) end;
          cbn [fst snd]; [intros _; exact E|discriminate].
      * cbn [fst snd]. intros _. exact E.
    + cbn [snd]. discriminate.
Qed.

(* ---- stages ---------------------------------------------------------------------------- *)

Lemma runc_stage T st next xs :
  match taccept T st xs with
  | Some y =>
      exists L, concat L = y /\
                snd (runc (Stage T st next) xs) = snd (runc next L) /\
                (snd (runc next L) = true ->
                 delivered (fst (fst (runc (Stage T st next) xs))) = delivered (fst (fst (runc next L))))
  | None => snd (runc (Stage T st next) xs) = false
  end.
Proof.
  unfold taccept. cbn [runc].
  destruct (trun T st xs) as [[[st' oss] part] tok].
  destruct tok.
  - destruct (tdone T st') as [fo|].
    + exists ((concat oss ++ part) ++ fo). split; [rewrite app_assoc; reflexivity|].
      pose proof (runc_true_all next ((concat oss ++ part) ++ fo)) as A.
      destruct (runc next ((concat oss ++ part) ++ fo)) as [[next' a] v]. cbn [fst snd] in *.
      destruct v.
      * specialize (A eq_refl). subst a.
        replace (Nat.ltb (length ((concat oss ++ part) ++ fo)) (length (concat oss ++ part))) with false
          by (symmetry; apply Nat.ltb_ge; rewrite !app_length; lia).
        cbn [fst snd delivered]. auto.
      * destruct (Nat.ltb a (length (concat oss ++ part))); cbn [fst snd]; split; auto; discriminate.
    + destruct (feeds next (concat oss ++ part)) as [next' a]. reflexivity.
  - destruct (feeds next (concat oss ++ part)) as [next' a]. reflexivity.
Qed.

(* ---- multiplexers ------------------------------------------------------------------------ *)

Lemma filter_map_comm {A B} (g : A -> B) (p : B -> bool) (l : list A) :
  filter p (map g l) = map g (filter (fun a => p (g a)) l).
Proof.
  induction l as [|a l IH]; cbn [map filter]; [reflexivity|].
  destruct (p (g a)); cbn [map]; rewrite IH; reflexivity.
Qed.

Definition gR (xs : list bytes) (fb : bool * chain) : bool * chain * (chain * nat * bool) :=
  match fb with (f, b) => (f, b, runc b xs) end.

Definition vs_of (xs : list bytes) (bs : list (bool * chain)) : list bool :=
  map (fun fb : bool * chain => snd (runc (snd fb) xs)) (filter (fun fb : bool * chain => fst fb) bs).
Definition acc_of (xs : list bytes) (bs : list (bool * chain)) : list nat :=
  map (fun fb : bool * chain => snd (fst (runc (snd fb) xs))) (filter (fun fb : bool * chain => fst fb) bs).

Lemma live_vs xs bs :
  map (fun r : bool * chain * (chain * nat * bool) => snd (snd r))
      (filter (fun r : bool * chain * (chain * nat * bool) => fst (fst r)) (map (gR xs) bs)) = vs_of xs bs.
Proof.
  rewrite filter_map_comm. rewrite map_map. unfold vs_of.
  induction bs as [|[f b] bs IH]; cbn [filter map gR fst snd]; [reflexivity|].
  destruct f; cbn [map gR fst snd]; rewrite IH; reflexivity.
Qed.

Lemma live_acc xs bs :
  map (fun r : bool * chain * (chain * nat * bool) => snd (fst (snd r)))
      (filter (fun r : bool * chain * (chain * nat * bool) => fst (fst r)) (map (gR xs) bs)) = acc_of xs bs.
Proof.
  rewrite filter_map_comm. rewrite map_map. unfold acc_of.
  induction bs as [|[f b] bs IH]; cbn [filter map gR fst snd]; [reflexivity|].
  destruct f; cbn [map gR fst snd]; rewrite IH; reflexivity.
Qed.

(* the branches after an any-run / a successful all-run *)
Definition any_after (xs : list bytes) (bs : list (bool * chain)) : list (bool * chain) :=
  map (fun r : bool * chain * (chain * nat * bool) =>
         if fst (fst r) then (snd (snd r), fst (fst (snd r))) else (false, snd (fst r))) (map (gR xs) bs).
Definition all_after (xs : list bytes) (bs : list (bool * chain)) : list (bool * chain) :=
  map (fun r : bool * chain * (chain * nat * bool) =>
         if fst (fst r) then (true, fst (fst (snd r))) else (false, snd (fst r))) (map (gR xs) bs).

Lemma list_max_ge l x : In x l -> (x <= list_max l)%nat.
Proof.
  unfold list_max. induction l as [|y l IH]; cbn [In fold_right]; intros H; [destruct H|].
  destruct H as [H|H]; [subst; lia|]. specialize (IH H). lia.
Qed.

Lemma list_min_all n l : (forall x, In x l -> x = n) -> list_min n l = n.
Proof.
  unfold list_min. induction l as [|y l IH]; cbn [fold_right]; intro H; [reflexivity|].
  rewrite IH by (intros x Hx; apply H; right; exact Hx).
  rewrite (H y) by (left; reflexivity). apply Nat.min_id.
Qed.

(* the verdict of a multiplexer is the any / all (non-empty) of its live branches' own verdicts *)
Lemma runc_plex_any bs xs :
  snd (runc (Plex false bs) xs) = existsb (fun v => v) (vs_of xs bs) /\
  (snd (runc (Plex false bs) xs) = true -> fst (fst (runc (Plex false bs) xs)) = Plex false (any_after xs bs)).
Proof.
  cbn [runc]. cbv zeta. fold (gR xs). rewrite live_vs, live_acc.
  destruct (existsb (fun v => v) (vs_of xs bs)) eqn:Ex.
  - (* some live branch succeeded, hence accepted everything *)
    assert (K : Nat.min (length xs) (list_max (acc_of xs bs)) = length xs).
    { apply existsb_exists in Ex. destruct Ex as (v & Hin & Hv). subst v.
      unfold vs_of in Hin. apply in_map_iff in Hin. destruct Hin as (fb & Hv & Hfb).
      pose proof (runc_true_all (snd fb) xs Hv) as A.
      assert (In (length xs) (acc_of xs bs)).
      { unfold acc_of. apply in_map_iff. exists fb. split; [exact A|exact Hfb]. }
      pose proof (list_max_ge _ _ H). lia. }
    rewrite K. rewrite Nat.eqb_refl. cbn [negb fst snd]. split; [reflexivity|]. intros _. reflexivity.
  - destruct (Nat.eqb (Nat.min (length xs) (list_max (acc_of xs bs))) (length xs)); cbn [negb fst snd];
      split; auto; discriminate.
Qed.

Lemma runc_plex_all bs xs :
  snd (runc (Plex true bs) xs) = (match vs_of xs bs with [] => false | _ => true end && forallb (fun v => v) (vs_of xs bs)) /\
  (snd (runc (Plex true bs) xs) = true -> fst (fst (runc (Plex true bs) xs)) = Plex true (all_after xs bs)).
Proof.
  cbn [runc]. cbv zeta. fold (gR xs). rewrite live_vs, live_acc.
  destruct (vs_of xs bs) as [|v0 vr] eqn:V.
  - cbn [andb]. destruct (negb _); cbn [fst snd]; split; auto; discriminate.
  - cbn [andb]. rewrite <- V.
    destruct (forallb (fun v => v) (vs_of xs bs)) eqn:Fa.
    + assert (K : (match acc_of xs bs with [] => 0%nat | _ :: _ => list_min (length xs) (acc_of xs bs) end) = length xs).
      { assert (Hall : forall x, In x (acc_of xs bs) -> x = length xs).
        { intros x Hx. unfold acc_of in Hx. apply in_map_iff in Hx. destruct Hx as (fb & Hx & Hfb). subst x.
          apply runc_true_all. rewrite forallb_forall in Fa. apply Fa.
          unfold vs_of. apply in_map_iff. exists fb. split; [reflexivity|exact Hfb]. }
        destruct (acc_of xs bs) as [|a0 ar] eqn:Ac.
        - exfalso. unfold acc_of, vs_of in *. destruct (filter _ bs); cbn [map] in *; discriminate.
        - apply list_min_all. exact Hall. }
      rewrite K. rewrite Nat.eqb_refl. cbn [negb fst snd].
      split; [reflexivity|]. intros _. reflexivity.
    + destruct (negb _); cbn [fst snd]; split; auto; discriminate.
Qed.

Lemma delivered_plex all bs :
  delivered (Plex all bs) =
  flat_map (fun fb : bool * chain => if fst fb then delivered (snd fb) else [None]) bs.
Proof.
  cbn [delivered]. induction bs as [|[f b] bs IH]; cbn [flat_map fst snd]; [reflexivity|].
  destruct f; rewrite IH; reflexivity.
Qed.

(* ---- the chunking theorem --------------------------------------------------------------- *)

Definition chunk_indep (c : chain) : Prop :=
  forall cs cs', concat cs = concat cs' ->
    snd (runc c cs) = snd (runc c cs') /\
    (snd (runc c cs) = true -> delivered (fst (fst (runc c cs))) = delivered (fst (fst (runc c cs')))).

Theorem chunking c : lawful c -> chunk_indep c.
Proof.
  induction c as [s|T st next IH|all bs IH] using chain_ind'; intros L cs cs' Hc.
  - (* sinks *)
    cbn [lawful] in L. cbn [runc].
    destruct s as [d|cap d|d|ff fd calls d]; cbn [sink_ok] in L.
    + rewrite !sink_feeds_malloc. rewrite !Nat.eqb_refl. cbn [sink_done fst snd delivered sink_data]. rewrite Hc. auto.
    + pose proof (sink_feeds_buffer cs cap d L) as B1. pose proof (sink_feeds_buffer cs' cap d L) as B2.
      rewrite (blen_concat_eq _ _ Hc) in B1.
      destruct (blen d + blen (concat cs') <=? cap).
      * rewrite B1, B2. rewrite !Nat.eqb_refl. cbn [sink_done fst snd delivered sink_data]. rewrite Hc. auto.
      * destruct B1 as (d1 & k1 & E1 & K1 & _). destruct B2 as (d2 & k2 & E2 & K2 & _). rewrite E1, E2.
        unfold bytes in *.
        repeat match goal with |- context [Nat.eqb ?k ?l] =>
          replace (Nat.eqb k l) with false by (symmetry; apply Nat.eqb_neq; lia) end.
        cbn [snd]. split; [reflexivity|discriminate].
    + rewrite !sink_feeds_file. rewrite !Nat.eqb_refl. cbn [sink_done fst snd delivered sink_data]. rewrite Hc. auto.
    + subst ff. rewrite !sink_feeds_faulty. rewrite !Nat.eqb_refl. cbn [sink_done fst snd delivered sink_data]. rewrite Hc. auto.
  - (* stages *)
    cbn [lawful] in L. destruct L as [LT Ln].
    pose proof (runc_stage T st next cs) as R1. pose proof (runc_stage T st next cs') as R2.
    rewrite <- (LT cs cs' Hc) in R2.
    destruct (taccept T st cs) as [y|].
    + destruct R1 as (L1 & C1 & V1 & D1). destruct R2 as (L2 & C2 & V2 & D2).
      assert (Hl : concat L1 = concat L2) by congruence.
      destruct (IH Ln L1 L2 Hl) as [Hv Hd]. rewrite V1, V2. split; [exact Hv|].
      intro Ht. rewrite D1 by exact Ht. rewrite D2 by (rewrite <- Hv; exact Ht). apply Hd. exact Ht.
    + rewrite R1, R2. split; [reflexivity|discriminate].
  - (* multiplexers *)
    apply lawful_plex in L.
    assert (Hvs : vs_of cs bs = vs_of cs' bs).
    { unfold vs_of. clear - IH L Hc. induction bs as [|[f b] bs IHb]; cbn [filter fst map]; [reflexivity|].
      inversion IH as [|? ? Hb IH']; subst. inversion L as [|? ? Lb L']; subst.
      destruct f; cbn [map snd]; [|apply IHb; assumption].
      f_equal; [|apply IHb; assumption]. cbn [snd] in Hb, Lb. destruct (Hb Lb cs cs' Hc) as [Hv _]. exact Hv. }
    assert (Hdel_any : existsb (fun v => v) (vs_of cs bs) = true ->
                       delivered (Plex false (any_after cs bs)) = delivered (Plex false (any_after cs' bs))).
    { intros _. rewrite !delivered_plex. unfold any_after. rewrite !map_map.
      clear - IH L Hc. induction bs as [|[f b] bs IHb]; cbn [map flat_map]; [reflexivity|].
      inversion IH as [|? ? Hb IH']; subst. inversion L as [|? ? Lb L']; subst. cbn [snd] in Hb, Lb.
      rewrite (IHb IH' L'). f_equal. cbn [gR fst snd]. destruct f; cbn [fst snd]; [|reflexivity].
      destruct (Hb Lb cs cs' Hc) as [Hv Hd]. rewrite <- Hv.
      destruct (snd (runc b cs)) eqn:Vb; [|reflexivity]. apply Hd. reflexivity. }
    assert (Hdel_all : forallb (fun v => v) (vs_of cs bs) = true ->
                       delivered (Plex true (all_after cs bs)) = delivered (Plex true (all_after cs' bs))).
    { intro Fa. rewrite !delivered_plex. unfold all_after. rewrite !map_map.
      unfold vs_of in Fa. clear - IH L Hc Fa. induction bs as [|[f b] bs IHb]; cbn [map flat_map]; [reflexivity|].
      inversion IH as [|? ? Hb IH']; subst. inversion L as [|? ? Lb L']; subst. cbn [snd] in Hb, Lb.
      cbn [filter fst] in Fa. cbn [gR fst snd]. destruct f; cbn [fst snd].
      - cbn [map forallb snd] in Fa. apply andb_true_iff in Fa. destruct Fa as [Fb Fr].
        rewrite (IHb IH' L' Fr). f_equal. destruct (Hb Lb cs cs' Hc) as [_ Hd]. apply Hd. exact Fb.
      - rewrite (IHb IH' L' Fa). reflexivity. }
    destruct all.
    + destruct (runc_plex_all bs cs) as [V1 C1]. destruct (runc_plex_all bs cs') as [V2 C2].
      rewrite V1, V2. rewrite <- Hvs. split; [reflexivity|]. intro Ht.
      rewrite C1 by (rewrite V1; exact Ht). rewrite C2 by (rewrite V2, <- Hvs; exact Ht).
      apply Hdel_all. apply andb_true_iff in Ht. tauto.
    + destruct (runc_plex_any bs cs) as [V1 C1]. destruct (runc_plex_any bs cs') as [V2 C2].
      rewrite V1, V2. rewrite <- Hvs. split; [reflexivity|]. intro Ht.
      rewrite C1 by (rewrite V1; exact Ht). rewrite C2 by (rewrite V2, <- Hvs; exact Ht).
      apply Hdel_any. exact Ht.
Qed.

(* one-shot is the special case of a single feed *)
Corollary oneshot_same c cs : lawful c ->
  snd (runc c cs) = snd (runc c [concat cs]) /\
  (snd (runc c cs) = true -> delivered (fst (fst (runc c cs))) = delivered (fst (fst (runc c [concat cs])))).
Proof. intro L. apply chunking; [exact L|]. cbn [concat]. rewrite app_nil_r. reflexivity. Qed.

(* ---- generic stage shapes obey the stream law ------------------------------------------- *)

Lemma trun_atdone f cs : forall st,
  trun (atdone_T f) st cs = (st ++ concat cs, map (fun _ => []) cs, [], true).
Proof.
  induction cs as [|c cs IH]; intro st; cbn [trun concat map].
  - rewrite app_nil_r. reflexivity.
  - cbn [tfeed atdone_T]. rewrite IH. rewrite <- app_assoc. reflexivity.
Qed.

Lemma concat_nils {A X} (cs : list A) : concat (map (fun _ => @nil X) cs) = [].
Proof. induction cs as [|c cs IH]; cbn [map concat app]; [reflexivity|exact IH]. Qed.

(* a stage that accumulates and emits at done (hash, sign, verify) *)
Theorem atdone_accept f st cs :
  taccept (atdone_T f) st cs = f (st ++ concat cs).
Proof.
  unfold taccept. rewrite trun_atdone. cbn [tdone atdone_T].
  destruct (f (st ++ concat cs)) as [o|]; [|reflexivity].
  rewrite concat_nils. cbn [app concat]. rewrite app_nil_r. reflexivity.
Qed.

Corollary atdone_lawful f st : tlaw (atdone_T f) st.
Proof. intros cs cs' H. rewrite !atdone_accept. rewrite H. reflexivity. Qed.

(* a stage emitting, after each feed, what the longer prefix adds *)
Section Prefix.
  Variable emit : bytes -> bytes.
  Variable final : bytes -> option bytes.
  Hypothesis mono : forall a b, exists t, emit (a ++ b) = emit a ++ t.

  Lemma trun_prefix cs : forall st,
    exists oss, trun (prefix_T emit final) st cs = (st ++ concat cs, oss, [], true) /\
                emit st ++ concat (concat oss) = emit (st ++ concat cs).
  Proof using mono.
    induction cs as [|c cs IH]; intro st; cbn [trun concat].
    - exists []. rewrite !app_nil_r. auto.
    - cbn [tfeed prefix_T]. destruct (IH (st ++ c)) as (oss & E & C). rewrite E.
      eexists. split; [rewrite <- app_assoc; reflexivity|].
      cbn [concat app].
      destruct (mono st c) as (t & Ht).
      rewrite Ht in C |- *. rewrite drop_app.
      rewrite app_assoc. rewrite C. rewrite <- app_assoc. reflexivity.
  Qed.

  Theorem prefix_lawful st : tlaw (prefix_T emit final) st.
  Proof using mono.
    intros cs cs' H. unfold taccept.
    destruct (trun_prefix cs st) as (o1 & E1 & C1). destruct (trun_prefix cs' st) as (o2 & E2 & C2).
    rewrite E1, E2. cbn [tdone prefix_T]. rewrite H.
    destruct (final (st ++ concat cs')) as [fo|]; [|reflexivity].
    f_equal. cbn [app]. rewrite !concat_app. f_equal.
    rewrite H in C1. rewrite <- C2 in C1. apply app_inv_head in C1. exact C1.
  Qed.
End Prefix.

Lemma b64enc_lawful_on (cs cs' : list bytes) :
  Forall wf_bytes cs -> Forall wf_bytes cs' -> concat cs = concat cs' ->
  taccept b64enc_T [] cs = taccept b64enc_T [] cs'.
Proof. intros W W' H. rewrite !b64enc_stream by assumption. rewrite H. reflexivity. Qed.

(* ---- failure propagation ---------------------------------------------------------------- *)

(* whatever a stage does, the head succeeds only if the stage accepted the whole
   input and the rest of the chain succeeded on what the stage passed on *)
Theorem failure_propagates T st next xs :
  snd (runc (Stage T st next) xs) = true ->
  exists y L, taccept T st xs = Some y /\ concat L = y /\ snd (runc next L) = true.
Proof.
  intro H. pose proof (runc_stage T st next xs) as R.
  destruct (taccept T st xs) as [y|].
  - destruct R as (L & C & V & _). exists y, L. split; [reflexivity|]. split; [exact C|]. rewrite <- V. exact H.
  - congruence.
Qed.

Theorem sink_done_propagates ff fd calls d xs :
  fd = true -> snd (runc (Sink (SFaulty ff fd calls d)) xs) = false.
Proof.
  intro F. subst fd. cbn [runc]. destruct (sink_feeds _ xs) as [s' k] eqn:E.
  destruct (Nat.eqb k (length xs)); [|reflexivity].
  assert (exists c' d', s' = SFaulty ff true c' d') as (c' & d' & ->).
  { clear - E. revert calls d s' k E. induction xs as [|x xs IH]; intros calls d s' k E; cbn [sink_feeds] in E.
    - inversion E; subst. eauto.
    - cbn [sink_feed] in E. destruct ff as [n|].
      + destruct (Nat.eqb n calls).
        * inversion E; subst. eauto.
        * destruct (sink_feeds _ xs) as [s2 k2] eqn:E2. inversion E; subst. eapply IH. exact E2.
      + destruct (sink_feeds _ xs) as [s2 k2] eqn:E2. inversion E; subst. eapply IH. exact E2. }
  reflexivity.
Qed.

(* ---- buffer sinks ------------------------------------------------------------------------- *)

Theorem buffer_never_exceeds xs cap d : blen d <= cap ->
  forall s' k, sink_feeds (SBuffer cap d) xs = (s', k) ->
  exists d', s' = SBuffer cap d' /\ blen d' <= cap /\
             (blen d + blen (concat xs) > cap -> (k < length xs)%nat).
Proof.
  intros Hd s' k E. pose proof (sink_feeds_buffer xs cap d Hd) as B.
  destruct (blen d + blen (concat xs) <=? cap) eqn:C.
  - rewrite B in E. inversion E; subst. eexists. split; [reflexivity|]. split; [rewrite blen_app; lia|lia].
  - destruct B as (d' & k' & E' & K & Hc). rewrite E' in E. inversion E; subst. eauto.
Qed.

(* ---- multiplexers ------------------------------------------------------------------------- *)

Theorem plex_empty_fails all xs : snd (runc (Plex all []) xs) = false.
Proof.
  destruct all.
  - destruct (runc_plex_all [] xs) as [V _]. rewrite V. reflexivity.
  - destruct (runc_plex_any [] xs) as [V _]. rewrite V. reflexivity.
Qed.

Theorem plex_all_verdict bs xs :
  snd (runc (Plex true bs) xs) = true <->
  (exists fb, In fb bs /\ fst fb = true) /\
  (forall fb, In fb bs -> fst fb = true -> snd (runc (snd fb) xs) = true).
Proof.
  destruct (runc_plex_all bs xs) as [V _]. rewrite V. unfold vs_of. split.
  - intro H. apply andb_true_iff in H. destruct H as [Hne Hall]. split.
    + destruct (filter _ bs) as [|fb r] eqn:F; [discriminate|].
      exists fb. assert (In fb (filter (fun fb : bool * chain => fst fb) bs)) by (rewrite F; left; reflexivity).
      apply filter_In in H. exact H.
    + intros fb Hin Hf. rewrite forallb_forall in Hall. apply Hall. apply in_map_iff. exists fb.
      split; [reflexivity|]. apply filter_In. auto.
  - intros [(fb & Hin & Hf) Hall]. apply andb_true_iff. split.
    + assert (In fb (filter (fun fb : bool * chain => fst fb) bs)) by (apply filter_In; auto).
      destruct (filter _ bs); [destruct H|reflexivity].
    + apply forallb_forall. intros v Hv. apply in_map_iff in Hv. destruct Hv as (fb' & Hv & Hin'). subst v.
      apply filter_In in Hin'. destruct Hin'. apply Hall; assumption.
Qed.

Theorem plex_any_verdict bs xs :
  snd (runc (Plex false bs) xs) = true <->
  exists fb, In fb bs /\ fst fb = true /\ snd (runc (snd fb) xs) = true.
Proof.
  destruct (runc_plex_any bs xs) as [V _]. rewrite V. unfold vs_of. split.
  - intro H. apply existsb_exists in H. destruct H as (v & Hv & Ht). subst v.
    apply in_map_iff in Hv. destruct Hv as (fb & Hv & Hin). apply filter_In in Hin. destruct Hin.
    exists fb. auto.
  - intros (fb & Hin & Hf & Hv). apply existsb_exists. exists true. split; [|reflexivity].
    apply in_map_iff. exists fb. split; [exact Hv|]. apply filter_In. auto.
Qed.

(* after a successful any-run, a branch that failed on its own is dropped and holds
   exactly what it held when it rejected (runc stops feeding a chain at its first rejection) *)
Theorem plex_any_dropped bs xs :
  snd (runc (Plex false bs) xs) = true ->
  fst (fst (runc (Plex false bs) xs)) =
  Plex false (map (fun fb : bool * chain =>
                     if fst fb then (snd (runc (snd fb) xs), fst (fst (runc (snd fb) xs))) else (false, snd fb)) bs).
Proof.
  intro H. destruct (runc_plex_any bs xs) as [_ C]. rewrite (C H). f_equal.
  unfold any_after. rewrite map_map. apply map_ext. intros [f b]. reflexivity.
Qed.

(* sinks stop taking data at the first rejection *)
Lemma sink_feeds_stops s xs : forall s' k,
  sink_feeds s xs = (s', k) -> (k < length xs)%nat -> sink_feeds s (take (S k) xs) = (s', k).
Proof.
  revert s; induction xs as [|x xs IH]; intros s s' k E K; cbn [length] in K; [lia|].
  cbn [sink_feeds] in E. destruct (sink_feed s x) as [s1 ok] eqn:F. destruct ok.
  - destruct (sink_feeds s1 xs) as [s2 k2] eqn:E2. inversion E; subst.
    specialize (IH s1 s' k2 E2 ltac:(lia)).
    change (take (S (S k2)) (x :: xs)) with (x :: take (S k2) xs).
    cbn [sink_feeds]. rewrite F. rewrite IH. reflexivity.
  - inversion E; subst. cbn [take sink_feeds]. rewrite F. reflexivity.
Qed.
