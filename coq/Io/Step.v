(* IO chains, one call at a time: lib/io.c plex_feed / plex_done.

   Io/Chain.v gives the meaning of a WHOLE run (a list of buffers, stopping at
   the first refused feed).  Here every call is a step of its own, so that a
   caller who goes on feeding after a refusal is covered: what a multiplexer
   answers after one of its branches has failed, and what a failed branch
   still receives (nothing).

   Scope: chains built from sinks and (nested) multiplexers; streaming stages
   are not treated.  A branch of a multiplexer carries a flag, [true] while
   the multiplexer still references it (i->nexts[j] != NULL); a released
   branch is kept in the state in which it was released, so that the contents
   of its sinks can still be talked about (the harness keeps its own reference
   to every sink and prints it at the end). *)
From JoseV Require Export Io.Chain.

Inductive pchain :=
| PSink (s : sink)
| PPlex (all failed : bool) (bs : list (bool * pchain)).   (* flag: still referenced *)

(* the loop of plex_feed / plex_done over the branches, [f] being the call made
   on a branch (its feed with the current buffer, or its done):

     for (j = 0; j < nnexts; j++) {
         if (!nexts[j]) continue;
         s = nexts[j]->f(...);
         status |= s;
         if (!s) { jose_io_auto(&nexts[j]); if (all) { failed = true; return false; } }
     }
     return status;

   result: (branches afterwards, value returned, value of i->failed afterwards);
   the loop is entered with failed == false only *)
Section Loop.
  Variable f : pchain -> pchain * bool.
  Variable all : bool.

  Fixpoint plex_loop (bs : list (bool * pchain)) (status : bool) {struct bs}
    : list (bool * pchain) * bool * bool :=
    match bs with
    | [] => ([], status, false)
    | (false, b) :: r =>
        let '(r', st, fl) := plex_loop r status in ((false, b) :: r', st, fl)
    | (true, b) :: r =>
        let (b', s) := f b in
        if s then let '(r', st, fl) := plex_loop r true in ((true, b') :: r', st, fl)
        else if all then ((false, b') :: r, false, true)
        else let '(r', st, fl) := plex_loop r status in ((false, b') :: r', st, fl)
    end.
End Loop.

(* io->feed(io, x, len) *)
Fixpoint feed1 (c : pchain) (x : bytes) {struct c} : pchain * bool :=
  match c with
  | PSink s => let (s', ok) := sink_feed s x in (PSink s', ok)
  | PPlex all failed bs =>
      if failed then (c, false)
      else let '(bs', st, fl) := plex_loop (fun b => feed1 b x) all bs false in
           (PPlex all fl bs', st)
  end.

(* io->done(io) *)
Fixpoint done1 (c : pchain) {struct c} : pchain * bool :=
  match c with
  | PSink s => let (s', ok) := sink_done s in (PSink s', ok)
  | PPlex all failed bs =>
      if failed then (c, false)
      else let '(bs', st, fl) := plex_loop done1 all bs false in
           (PPlex all fl bs', st)
  end.

(* every buffer is fed, whatever the earlier calls answered *)
Fixpoint feeds1 (c : pchain) (xs : list bytes) {struct xs} : pchain * list bool :=
  match xs with
  | [] => (c, [])
  | x :: r => let (c1, v) := feed1 c x in
              let (c2, vs) := feeds1 c1 r in (c2, v :: vs)
  end.

(* ... and done is called all the same: (final state, verdict of each feed, verdict of done) *)
Definition session (c : pchain) (xs : list bytes) : pchain * list bool * bool :=
  let (c', vs) := feeds1 c xs in
  let (c'', d) := done1 c' in (c'', vs, d).

(* the content of every sink in order of construction, released or not *)
Fixpoint sinks_of (c : pchain) : list bytes :=
  match c with
  | PSink s => [sink_data s]
  | PPlex _ _ bs =>
      (fix go (bs : list (bool * pchain)) : list bytes :=
         match bs with
         | [] => []
         | (_, b) :: r => sinks_of b ++ go r
         end) bs
  end.

(* the same list with the sinks that can still be reached blanked out: [Some d]
   for a sink below a released branch (of any multiplexer on the way) *)
Fixpoint frozen (c : pchain) : list (option bytes) :=
  match c with
  | PSink _ => [None]
  | PPlex _ _ bs =>
      (fix go (bs : list (bool * pchain)) : list (option bytes) :=
         match bs with
         | [] => []
         | (true, b) :: r => frozen b ++ go r
         | (false, b) :: r => map Some (sinks_of b) ++ go r
         end) bs
  end.

(* ---- translation from / to the chains of Io/Chain.v ---------------------------- *)

Fixpoint to_chain (c : pchain) : chain :=
  match c with
  | PSink s => Sink s
  | PPlex all _ bs =>
      Plex all ((fix go (bs : list (bool * pchain)) : list (bool * chain) :=
                   match bs with
                   | [] => []
                   | (f, b) :: r => (f, to_chain b) :: go r
                   end) bs)
  end.

(* None: the chain has a streaming stage *)
Fixpoint of_chain (c : chain) : option pchain :=
  match c with
  | Sink s => Some (PSink s)
  | Stage _ _ _ => None
  | Plex all bs =>
      match (fix go (bs : list (bool * chain)) : option (list (bool * pchain)) :=
               match bs with
               | [] => Some []
               | (f, b) :: r =>
                   match of_chain b, go r with
                   | Some b', Some r' => Some ((f, b') :: r')
                   | _, _ => None
                   end
               end) bs with
      | Some bs' => Some (PPlex all false bs')
      | None => None
      end
  end.

(* what the correspondence driver prints for the harness command chainx *)
Definition chainx (c : chain) (xs : list bytes) : option (list bool * bool * list bytes) :=
  match of_chain c with
  | Some p => let '(p', vs, d) := session p xs in Some (vs, d, sinks_of p')
  | None => None
  end.
