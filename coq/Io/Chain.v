(* IO chains: lib/io.c (sinks, multiplexer) and the staging logic of the
   streaming stages (lib/b64.c enc/dec_feed/done), executable. *)
From JoseV Require Export Codec.B64Impl.
From JoseV Require Import Gen.Consts.
Local Open Scope N_scope.

(* ---- sinks --------------------------------------------------------------------- *)

Inductive sink :=
| SMalloc (d : bytes)
| SBuffer (cap : N) (d : bytes)
| SFile (d : bytes)
(* harness-defined sink: feed number [fail_feed] (0-based) is rejected, [fail_done] makes done fail *)
| SFaulty (fail_feed : option nat) (fail_done : bool) (calls : nat) (d : bytes).

Definition sink_data (s : sink) : bytes :=
  match s with SMalloc d | SBuffer _ d | SFile d | SFaulty _ _ _ d => d end.

Definition sink_feed (s : sink) (x : bytes) : sink * bool :=
  match s with
  | SMalloc d => (SMalloc (d ++ x), true)
  | SBuffer cap d =>
      (* if (len > i->max - *i->len) return false; *)
      if cap - blen d <? blen x then (s, false) else (SBuffer cap (d ++ x), true)
  | SFile d => (SFile (d ++ x), true)
  | SFaulty ff fd calls d =>
      match ff with
      | Some n => if Nat.eqb n calls then (SFaulty ff fd (S calls) d, false)
                  else (SFaulty ff fd (S calls) (d ++ x), true)
      | None => (SFaulty ff fd (S calls) (d ++ x), true)
      end
  end.

Definition sink_done (s : sink) : sink * bool :=
  match s with
  | SFaulty ff fd calls d => (s, negb fd)
  | _ => (s, true)
  end.

(* ---- stages --------------------------------------------------------------------- *)

(* A streaming stage: its private state is a byte string; feed returns the
   list of buffers it passes downstream (one downstream feed call each, in
   order) and the new state, or None for the state when the stage itself
   rejects (what it had passed downstream before noticing is still listed). *)
Record transducer := {
  tfeed : bytes -> bytes -> list bytes * option bytes;   (* (passed downstream, new state or None = rejected) *)
  tdone : bytes -> option (list bytes)
}.

Inductive chain :=
| Sink (s : sink)
| Stage (T : transducer) (st : bytes) (next : chain)
| Plex (all : bool) (bs : list (bool * chain)).   (* flag: still referenced (not dropped) *)

(* A caller feeds buffers one by one and stops at the first rejection.  The
   semantics is given for a whole list of buffers at once -- (new chain, number
   of buffers accepted) -- which is what makes it structurally recursive; a
   single feed is the list of one buffer. *)

(* a stage's own processing of a list of buffers: final state, what it passes
   downstream for each accepted buffer, and whether it accepted them all *)
Fixpoint trun (T : transducer) (st : bytes) (xs : list bytes)
  : bytes * list (list bytes) * list bytes * bool :=   (* state, outs per accepted buffer, partial outs of the rejected one, all accepted *)
  match xs with
  | [] => (st, [], [], true)
  | x :: r =>
      match tfeed T st x with
      | (o, None) => (st, [], o, false)
      | (o, Some st') => let '(s2, os, part, ok) := trun T st' r in (s2, o :: os, part, ok)
      end
  end.

(* how many upstream buffers were completely passed on when downstream accepted [a] buffers *)
Fixpoint count_chunks (oss : list (list bytes)) (a : nat) : nat :=
  match oss with
  | [] => O
  | o :: r => if Nat.leb (length o) a then S (count_chunks r (a - length o)) else O
  end.

Fixpoint sink_feeds (s : sink) (xs : list bytes) : sink * nat :=
  match xs with
  | [] => (s, O)
  | x :: r => let '(s', ok) := sink_feed s x in
              if ok then let '(s2, k) := sink_feeds s' r in (s2, S k) else (s', O)
  end.

Definition list_max (l : list nat) : nat := fold_right Nat.max O l.
Definition list_min (d : nat) (l : list nat) : nat := fold_right Nat.min d l.

Fixpoint feeds (c : chain) (xs : list bytes) {struct c} : chain * nat :=
  match c with
  | Sink s => let '(s', k) := sink_feeds s xs in (Sink s', k)
  | Stage T st next =>
      let '(st', oss, part, _) := trun T st xs in
      let '(next', a) := feeds next (concat oss ++ part) in
      (Stage T st' next', count_chunks oss a)
  | Plex all bs =>
      let n := length xs in
      (* every branch on its own: (flag, chain before, (chain after, buffers accepted)) *)
      let rs := map (fun fb : bool * chain => match fb with (f, b) => (f, b, feeds b xs) end) bs in
      let acc := map (fun r : bool * chain * (chain * nat) => snd (snd r))
                     (filter (fun r : bool * chain * (chain * nat) => fst (fst r)) rs) in
      if all then
        (* stops at the first rejection by any branch, in index order *)
        let k := match acc with [] => O | _ => list_min n acc end in
        if Nat.eqb k n then
          (Plex all (map (fun r : bool * chain * (chain * nat) =>
                            if fst (fst r) then (true, fst (snd r)) else (false, snd (fst r))) rs), n)
        else
          (* branches before the first rejecting one got buffer k, it is dropped, later ones did not get it *)
          (Plex all ((fix go (bs : list (bool * chain)) (hit : bool) : list (bool * chain) :=
                        match bs with
                        | [] => []
                        | (false, b) :: r => (false, b) :: go r hit
                        | (true, b) :: r =>
                            if hit then (true, fst (feeds b (take k xs))) :: go r true
                            else let '(b', a) := feeds b (take (S k) xs) in
                                 if Nat.eqb a k then (false, b') :: go r true
                                 else (true, b') :: go r false
                        end) bs false), k)
      else
        (* a branch that rejects is dropped; the call fails when no branch accepted *)
        let k := list_max acc in
        (Plex all (map (fun r : bool * chain * (chain * nat) =>
                          if fst (fst r) then (Nat.eqb (snd (snd r)) n, fst (snd r)) else (false, snd (fst r))) rs), k)
  end.

(* feed every buffer, and call done if (and only if) all were accepted:
   (final chain, buffers accepted, verdict of done -- false if done was not reached) *)
Fixpoint runc (c : chain) (xs : list bytes) {struct c} : chain * nat * bool :=
  match c with
  | Sink s =>
      let '(s', k) := sink_feeds s xs in
      if Nat.eqb k (length xs) then let '(s2, ok) := sink_done s' in (Sink s2, k, ok)
      else (Sink s', k, false)
  | Stage T st next =>
      let '(st', oss, part, tok) := trun T st xs in
      let n := length xs in
      let mid := concat oss ++ part in
      match (if tok then tdone T st' else None) with
      | Some fo =>
          let '(next', a, v) := runc next (mid ++ fo) in
          if Nat.ltb a (length mid) then (Stage T st' next', count_chunks oss a, false)
          else (Stage T [] next', n, v)
      | None =>
          let '(next', a) := feeds next mid in
          (Stage T st' next', count_chunks oss a, false)
      end
  | Plex all bs =>
      let n := length xs in
      (* every branch on its own: (flag, chain before, (chain after, accepted, verdict)) *)
      let rr := map (fun fb : bool * chain => match fb with (f, b) => (f, b, runc b xs) end) bs in
      let live := filter (fun r : bool * chain * (chain * nat * bool) => fst (fst r)) rr in
      let acc := map (fun r : bool * chain * (chain * nat * bool) => snd (fst (snd r))) live in
      let vs := map (fun r : bool * chain * (chain * nat * bool) => snd (snd r)) live in
      let k := if all then match acc with [] => O | _ => list_min n acc end
               else Nat.min n (list_max acc) in
      if negb (Nat.eqb k n) then (fst (feeds (Plex all bs) xs), k, false)
      else if all then
        match vs with
        | [] => (fst (feeds (Plex all bs) xs), k, false)
        | _ =>
            if forallb (fun v => v) vs then
              (Plex all (map (fun r : bool * chain * (chain * nat * bool) =>
                                if fst (fst r) then (true, fst (fst (snd r))) else (false, snd (fst r))) rr), k, true)
            else
              (* done stops at the first failing branch *)
              (Plex all ((fix go (bs : list (bool * chain)) (hit : bool) : list (bool * chain) :=
                            match bs with
                            | [] => []
                            | (false, b) :: r => (false, b) :: go r hit
                            | (true, b) :: r =>
                                if hit then (true, fst (feeds b xs)) :: go r true
                                else let '(b', _, v) := runc b xs in
                                     if v then (true, b') :: go r false else (false, b') :: go r true
                            end) bs false), k, false)
        end
      else
        (Plex all (map (fun r : bool * chain * (chain * nat * bool) =>
                          if fst (fst r) then (snd (snd r), fst (fst (snd r))) else (false, snd (fst r))) rr),
         k, existsb (fun v => v) vs)
  end.

Definition run (c : chain) (xs : list bytes) : chain * bool :=
  let '(c', _, v) := runc c xs in (c', v).

(* what sinks hold; dropped multiplexer branches are erased *)
Fixpoint delivered (c : chain) : list (option bytes) :=
  match c with
  | Sink s => [Some (sink_data s)]
  | Stage _ _ next => delivered next
  | Plex _ bs =>
      (fix go (bs : list (bool * chain)) : list (option bytes) :=
         match bs with
         | [] => []
         | (false, _) :: r => None :: go r
         | (true, b) :: r => delivered b ++ go r
         end) bs
  end.

(* every sink's content, dropped or not (what the harness can see) *)
Fixpoint all_sinks (c : chain) : list bytes :=
  match c with
  | Sink s => [sink_data s]
  | Stage _ _ next => all_sinks next
  | Plex _ bs =>
      (fix go (bs : list (bool * chain)) : list bytes :=
         match bs with
         | [] => []
         | (_, b) :: r => all_sinks b ++ go r
         end) bs
  end.

(* ---- the base64url stages of lib/b64.c ------------------------------------------- *)

Definition io_buf_dec : N := b64_io_groups * b64_enc_blk.   (* sizeof(i->eb) = 64 *)
Definition io_buf_enc : N := b64_io_groups * b64_dec_blk.   (* sizeof(i->db) = 48 *)

(* run the C-shaped codec on a local buffer and read back what it wrote *)
Definition dec_to_bytes (e : bytes) (ol : N) : option bytes :=
  let r := dec_buf e (Some ol) in
  match ret r with
  | Some n => Some (take (N.to_nat n) (replay (writes r) (repeatN 0 (N.to_nat ol))))
  | None => None
  end.

Definition enc_to_bytes (d : bytes) (ol : N) : option bytes :=
  let r := enc_buf d (Some ol) in
  match ret r with
  | Some n => Some (take (N.to_nat n) (replay (writes r) (repeatN 0 (N.to_nat ol))))
  | None => None
  end.

Definition nmin (a b : N) : N := if b <? a then b else a.

(* while (len > 0) { copy min(space, len); convert the block-aligned prefix; keep the rest; feed next } *)
Fixpoint stage_loop (blk bufsz outsz : N) (conv : bytes -> N -> option bytes)
         (fuel : nat) (carry x : bytes) (outs : list bytes) : list bytes * option bytes :=
  match fuel with
  | O => (rev outs, None)
  | S f =>
      match x with
      | [] => (rev outs, Some carry)
      | _ =>
          let el := nmin (bufsz - blen carry) (blen x) in
          let buf := carry ++ take (N.to_nat el) x in
          let x' := drop (N.to_nat el) x in
          let al := blen buf - blen buf mod blk in
          match conv (take (N.to_nat al) buf) outsz with
          | None => (rev outs, None)
          | Some o => stage_loop blk bufsz outsz conv f (drop (N.to_nat al) buf) x' (o :: outs)
          end
      end
  end.

Definition b64dec_T : transducer := {|
  tfeed := fun carry x => stage_loop b64_enc_blk io_buf_dec io_buf_enc dec_to_bytes (S (length x)) carry x [];
  tdone := fun carry => match dec_to_bytes carry io_buf_enc with Some o => Some [o] | None => None end
|}.

Definition b64enc_T : transducer := {|
  tfeed := fun carry x => stage_loop b64_dec_blk io_buf_enc io_buf_dec enc_to_bytes (S (length x)) carry x [];
  tdone := fun carry => match enc_to_bytes carry io_buf_dec with Some o => Some [o] | None => None end
|}.

Definition B64Dec (next : chain) : chain := Stage b64dec_T [] next.
Definition B64Enc (next : chain) : chain := Stage b64enc_T [] next.

(* a stage given by a total function of the whole input: accumulates, emits everything at done
   (the shape of hash, sign, verify stages) *)
Definition atdone_T (f : bytes -> option bytes) : transducer := {|
  tfeed := fun st x => ([], Some (st ++ x));
  tdone := fun st => match f st with Some o => Some [o] | None => None end
|}.

(* a stage given by a prefix-monotone emission function and a final flush:
   each feed passes downstream what the new prefix adds (one call per feed) *)
Definition prefix_T (emit : bytes -> bytes) (final : bytes -> option bytes) : transducer := {|
  tfeed := fun st x => let st' := st ++ x in
                       ([drop (length (emit st)) (emit st')], Some st');
  tdone := fun st => match final st with Some o => Some [o] | None => None end
|}.
