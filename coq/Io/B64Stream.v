(* The streaming base64url stages deliver, for every split of the input into
   feed calls, exactly the one-shot decoding/encoding of the concatenation. *)
From JoseV Require Import Codec.B64Spec Codec.B64Impl Codec.B64Proofs Codec.B64ImplProofs Codec.B64JsonProofs Io.Chain Gen.Consts.
From Coq Require Import ZifyBool ZifyN ZifyNat.
Local Open Scope N_scope.
Ltac Zify.zify_post_hook ::= Z.div_mod_to_equations.

(* ---- list plumbing ----------------------------------------------------------- *)

Lemma take_app_ge {A} (a b : list A) n : take (length a + n) (a ++ b) = a ++ take n b.
Proof. induction a as [|x a IH]; cbn [length app take plus]; [reflexivity|]. rewrite IH. reflexivity. Qed.

Lemma drop_app_ge {A} (a b : list A) n : drop (length a + n) (a ++ b) = drop n b.
Proof. induction a as [|x a IH]; cbn [length app drop plus]; [reflexivity|]. exact IH. Qed.

Lemma take_app_le {A} (a b : list A) n : (n <= length a)%nat -> take n (a ++ b) = take n a.
Proof.
  revert n; induction a as [|x a IH]; intros [|n] H; cbn [length app take] in *; try reflexivity; try lia.
  rewrite IH by lia. reflexivity.
Qed.

Lemma drop_app_le {A} (a b : list A) n : (n <= length a)%nat -> drop n (a ++ b) = drop n a ++ b.
Proof.
  revert n; induction a as [|x a IH]; intros [|n] H; cbn [length app drop] in *; try reflexivity; try lia.
  apply IH. lia.
Qed.

Lemma repeatN_app {A} (x : A) n m : repeatN x (n + m) = repeatN x n ++ repeatN x m.
Proof. induction n as [|n IH]; cbn [repeatN plus app]; [reflexivity|]. rewrite IH. reflexivity. Qed.

Lemma repeatN_length {A} (x : A) n : length (repeatN x n) = n.
Proof. induction n as [|n IH]; cbn [repeatN length]; [reflexivity|]. rewrite IH. reflexivity. Qed.

Lemma blen_app a b : blen (a ++ b) = blen a + blen b.
Proof. unfold blen. rewrite app_length. lia. Qed.

(* ---- the specification is a homomorphism on block-aligned prefixes ----------- *)

Definition ocat (x y : option bytes) : option bytes :=
  match x, y with Some a, Some b => Some (a ++ b) | _, _ => None end.

Lemma dec_app a b : blen a mod 4 = 0 -> dec (a ++ b) = ocat (dec a) (dec b).
Proof.
  unfold blen.
  induction a as [|c0|c0 c1|c0 c1 c2|c0 c1 c2 c3 r IH] using list_ind4; cbn [length]; intro H; try lia.
  - cbn [app dec ocat]. destruct (dec b); reflexivity.
  - change ((c0 :: c1 :: c2 :: c3 :: r) ++ b) with (c0 :: c1 :: c2 :: c3 :: (r ++ b)).
    rewrite (dec_app4 c0 c1 c2 c3 (r ++ b)), (dec_app4 c0 c1 c2 c3 r). rewrite IH by lia.
    destruct (dec [c0; c1; c2; c3]) as [g|]; [|reflexivity].
    destruct (dec r) as [x|]; [|reflexivity]. destruct (dec b) as [y|]; [|reflexivity].
    cbn [ocat]. rewrite app_assoc. reflexivity.
Qed.

Lemma enc_app a b : blen a mod 3 = 0 -> enc (a ++ b) = enc a ++ enc b.
Proof.
  unfold blen.
  induction a as [|c0|c0 c1|c0 c1 c2 r IH] using list_ind3; cbn [length]; intro H; try lia.
  - reflexivity.
  - change ((c0 :: c1 :: c2 :: r) ++ b) with (c0 :: c1 :: c2 :: (r ++ b)).
    cbn [enc]. rewrite IH by lia. reflexivity.
Qed.

(* ---- the local-buffer conversions are the specification ------------------------ *)

Lemma replay_enum_prefix t n : replay (enum 0 t) (repeatN 0 (length t + n)) = t ++ repeatN 0 n.
Proof.
  pose proof (replay_enum_app [] t (repeatN 0 n)) as H. cbn [app] in H.
  rewrite repeatN_app. exact H.
Qed.

Lemma dec_to_bytes_spec e ol :
  match dlen (blen e) with Some need => need <= ol | None => True end ->
  dec_to_bytes e ol = dec e.
Proof.
  intro Hn. unfold dec_to_bytes.
  pose proof (dec_buf_refines e ol) as P. cbv zeta in P. destruct P as [_ P].
  destruct (dlen (blen e)) as [need|] eqn:D.
  - replace (ol <? need) with false in P by lia.
    destruct (dec e) as [bs|] eqn:E.
    + destruct P as [R W]. rewrite R, W. f_equal.
      apply dec_length in E. rewrite D in E. inversion E; subst need.
      unfold blen in *. rewrite Nat2N.id.
      replace (N.to_nat ol) with (length bs + (N.to_nat ol - length bs))%nat by lia.
      rewrite replay_enum_prefix. apply take_app.
    + rewrite P. reflexivity.
  - destruct P as [R _]. rewrite R. symmetry. apply dlen_none_dec. exact D.
Qed.

Lemma enc_to_bytes_spec d ol : wf_bytes d -> elen (blen d) <= ol -> enc_to_bytes d ol = Some (enc d).
Proof.
  intros W Hn. unfold enc_to_bytes.
  pose proof (enc_buf_refines d ol W) as P. cbv zeta in P. destruct P as [_ P].
  replace (ol <? elen (blen d)) with false in P by lia.
  destruct P as (R & _ & Rp). rewrite R, Rp. f_equal.
  pose proof (enc_length d) as L. unfold blen in *. rewrite Nat2N.id.
  replace (N.to_nat ol) with (length (enc d) + (N.to_nat ol - length (enc d)))%nat by lia.
  rewrite replay_enum_prefix. apply take_app.
Qed.

(* ---- the staging loop ------------------------------------------------------------ *)

Section Aligned.
  Variable blk : N.
  Hypothesis Hblk : 0 < blk.

  Definition aligned (b : bytes) : nat := N.to_nat (blen b - blen b mod blk).

  (* splitting a buffer after a block-aligned prefix A *)
  Lemma aligned_split A rest :
    blen A mod blk = 0 ->
    aligned (A ++ rest) = (length A + aligned rest)%nat /\
    take (aligned (A ++ rest)) (A ++ rest) = A ++ take (aligned rest) rest /\
    drop (aligned (A ++ rest)) (A ++ rest) = drop (aligned rest) rest.
  Proof using Hblk.
    intro HA.
    assert (E : aligned (A ++ rest) = (length A + aligned rest)%nat).
    { unfold aligned. rewrite blen_app. unfold blen in *.
      set (a := N.of_nat (length A)) in *. set (r := N.of_nat (length rest)) in *.
      assert ((a + r) mod blk = r mod blk).
      { rewrite <- N.add_mod_idemp_l by lia. rewrite HA. rewrite N.add_0_l. reflexivity. }
      assert (r mod blk <= r) by (apply N.mod_le; lia).
      lia. }
    rewrite E. split; [reflexivity|]. split; [apply take_app_ge|apply drop_app_ge].
  Qed.

  Lemma aligned_le b : (aligned b <= length b)%nat.
  Proof using Hblk. unfold aligned, blen. lia. Qed.

  Lemma aligned_mod b : blen (take (aligned b) b) mod blk = 0.
  Proof using Hblk.
    unfold blen. rewrite take_length. pose proof (aligned_le b) as L.
    rewrite Nat.min_l by exact L. unfold aligned, blen.
    set (n := N.of_nat (length b)) in *.
    assert (n mod blk <= n) by (apply N.mod_le; lia).
    rewrite N2Nat.id.
    assert (n = blk * (n / blk) + n mod blk) by (apply N.div_mod; lia).
    replace (n - n mod blk) with ((n / blk) * blk) by lia.
    apply N.mod_mul. lia.
  Qed.

End Aligned.

Section Loop.
  Variable blk bufsz outsz : N.
  Variable conv : bytes -> N -> option bytes.
  Variable f : bytes -> option bytes.
  Variable P : bytes -> Prop.
  Hypothesis Hblk : 0 < blk.
  Hypothesis Hbuf : blk <= bufsz.
  Hypothesis Hconv : forall e, P e -> blen e <= bufsz -> conv e outsz = f e.
  Hypothesis Hnil : f [] = Some [].
  Hypothesis Hhom : forall a b, blen a mod blk = 0 -> f (a ++ b) = ocat (f a) (f b).
  Hypothesis Papp : forall a b, P (a ++ b) <-> P a /\ P b.

  Lemma P_take n b : P b -> P (take n b).
  Proof. intro H. rewrite <- (take_drop n b) in H. apply Papp in H. tauto. Qed.
  Lemma P_drop n b : P b -> P (drop n b).
  Proof. intro H. rewrite <- (take_drop n b) in H. apply Papp in H. tauto. Qed.

  Lemma stage_loop_spec fuel : forall carry x outs,
    (length x < fuel)%nat -> blen carry < blk -> P carry -> P x ->
    let buf := carry ++ x in
    match f (take (aligned blk buf) buf) with
    | Some y => exists os, stage_loop blk bufsz outsz conv fuel carry x outs
                           = (rev outs ++ os, Some (drop (aligned blk buf) buf)) /\ concat os = y
    | None => snd (stage_loop blk bufsz outsz conv fuel carry x outs) = None
    end.
  Proof.
    induction fuel as [|fuel IH]; intros carry x outs Hf Hc Pc Px; [lia|].
    cbv zeta. destruct x as [|x0 xr].
    - rewrite app_nil_r. assert (aligned blk carry = 0%nat) as ->.
      { unfold aligned. rewrite N.mod_small by exact Hc. lia. }
      cbn [take drop]. rewrite Hnil. exists []. cbn [stage_loop concat]. rewrite app_nil_r. auto.
    - cbn [stage_loop].
      set (x := x0 :: xr) in *.
      set (el := nmin (bufsz - blen carry) (blen x)).
      assert (Hel : 1 <= el /\ el <= blen x /\ blen carry + el <= bufsz).
      { unfold el, nmin, blen, x in *. cbn [length]. destruct (N.ltb_spec (N.of_nat (S (length xr))) (bufsz - N.of_nat (length carry))); lia. }
      set (buf1 := carry ++ take (N.to_nat el) x).
      set (x' := drop (N.to_nat el) x).
      assert (Hsplit : carry ++ x = buf1 ++ x').
      { unfold buf1, x'. rewrite <- app_assoc. rewrite take_drop. reflexivity. }
      assert (Hb1 : blen buf1 <= bufsz).
      { unfold buf1. rewrite blen_app. unfold blen at 2. rewrite take_length. unfold blen in *. lia. }
      change (blen buf1 - blen buf1 mod blk) with (N.of_nat (aligned blk buf1) + 0 - 0) || idtac.
      assert (Hal : N.to_nat (blen buf1 - blen buf1 mod blk) = aligned blk buf1) by reflexivity.
      rewrite Hal.
      set (A := take (aligned blk buf1) buf1). set (carry' := drop (aligned blk buf1) buf1).
      assert (HA : blen A mod blk = 0) by (apply aligned_mod; exact Hblk).
      assert (Pb1 : P buf1) by (unfold buf1; apply Papp; split; [exact Pc|apply P_take; exact Px]).
      assert (PA : P A) by (apply P_take; exact Pb1).
      assert (HAlen : blen A <= bufsz).
      { unfold A, blen. rewrite take_length. unfold blen in Hb1. lia. }
      rewrite (Hconv A PA HAlen).
      assert (Hbuf' : carry ++ x = A ++ (carry' ++ x')).
      { rewrite Hsplit. unfold A, carry'. rewrite app_assoc. rewrite take_drop. reflexivity. }
      rewrite Hbuf'.
      destruct (aligned_split blk Hblk A (carry' ++ x') HA) as (E1 & E2 & E3).
      rewrite E2, E3. rewrite (Hhom A _ HA).
      assert (Hc' : blen carry' < blk).
      { unfold carry', blen. rewrite drop_length. unfold aligned, blen.
        set (n := N.of_nat (length buf1)).
        assert (n mod blk < blk) by (apply N.mod_lt; lia).
        assert (n mod blk <= n) by (apply N.mod_le; lia). lia. }
      assert (Hx' : (length x' < fuel)%nat).
      { unfold x'. rewrite drop_length. unfold blen in Hel. lia. }
      assert (Pc' : P carry') by (apply P_drop; exact Pb1).
      assert (Px' : P x') by (apply P_drop; exact Px).
      destruct (f A) as [o|] eqn:FA.
      + specialize (IH carry' x' (o :: outs) Hx' Hc' Pc' Px'). cbv zeta in IH.
        destruct (f (take (aligned blk (carry' ++ x')) (carry' ++ x'))) as [y'|]; cbn [ocat].
        * destruct IH as (os & Eq & Cc). exists (o :: os). split.
          -- rewrite Eq. cbn [rev]. rewrite <- app_assoc. reflexivity.
          -- cbn [concat]. rewrite Cc. reflexivity.
        * exact IH.
      + cbn [ocat snd]. reflexivity.
  Qed.
End Loop.

(* ---- instantiation: decoder stage ------------------------------------------------- *)

Definition always (_ : bytes) : Prop := True.

Lemma dec_conv e : always e -> blen e <= io_buf_dec -> dec_to_bytes e io_buf_enc = dec e.
Proof.
  intros _ H. apply dec_to_bytes_spec.
  destruct (dlen_cases (blen e)) as [[M E]|[[M E]|[[M E]|[M E]]]]; rewrite E; try exact I;
    change io_buf_dec with 64 in H; change io_buf_enc with 48; lia.
Qed.

Lemma dec_loop_law fuel carry x outs :
  (length x < fuel)%nat -> blen carry < 4 ->
  let buf := carry ++ x in
  match dec (take (aligned 4 buf) buf) with
  | Some y => exists os, stage_loop b64_enc_blk io_buf_dec io_buf_enc dec_to_bytes fuel carry x outs
                         = (rev outs ++ os, Some (drop (aligned 4 buf) buf)) /\ concat os = y
  | None => snd (stage_loop b64_enc_blk io_buf_dec io_buf_enc dec_to_bytes fuel carry x outs) = None
  end.
Proof.
  intros Hf Hc.
  apply (stage_loop_spec 4 64 48 dec_to_bytes dec always); try exact I; try lia.
  - exact dec_conv.
  - reflexivity.
  - exact dec_app.
  - intros; unfold always; tauto.
Qed.

(* feeding a list of chunks to the decoder stage, from a carry shorter than a block *)
Lemma b64dec_trun cs : forall carry, blen carry < 4 ->
  let buf := carry ++ concat cs in
  match dec (take (aligned 4 buf) buf) with
  | Some y => exists oss, trun b64dec_T carry cs = (drop (aligned 4 buf) buf, oss, [], true)
                          /\ concat (concat oss) = y
  | None => exists st oss part, trun b64dec_T carry cs = (st, oss, part, false)
  end.
Proof.
  induction cs as [|c cs IH]; intros carry Hc; cbv zeta.
  - cbn [concat]. rewrite app_nil_r. assert (aligned 4 carry = 0%nat) as ->.
    { unfold aligned. rewrite N.mod_small by exact Hc. lia. }
    cbn [take drop dec trun]. exists []. auto.
  - cbn [concat trun tfeed b64dec_T].
    pose proof (dec_loop_law (S (length c)) carry c [] (Nat.lt_succ_diag_r _) Hc) as L. cbv zeta in L.
    set (b1 := carry ++ c) in *.
    set (A := take (aligned 4 b1) b1) in *. set (carry' := drop (aligned 4 b1) b1) in *.
    assert (HA : blen A mod 4 = 0) by (apply aligned_mod; lia).
    assert (Hsplit : carry ++ c ++ concat cs = A ++ (carry' ++ concat cs)).
    { rewrite app_assoc. fold b1. unfold A, carry'. rewrite app_assoc. rewrite take_drop. reflexivity. }
    rewrite Hsplit.
    destruct (aligned_split 4 ltac:(lia) A (carry' ++ concat cs) HA) as (E1 & E2 & E3).
    rewrite E2, E3. rewrite (dec_app A _ HA).
    assert (Hc' : blen carry' < 4).
    { unfold carry', blen. rewrite drop_length. unfold aligned, blen.
      set (n := N.of_nat (length b1)). lia. }
    destruct (dec A) as [o|] eqn:DA.
    + destruct L as (os & Eq & Cc). cbn [rev app] in Eq. rewrite Eq.
      specialize (IH carry' Hc'). cbv zeta in IH.
      destruct (dec (take (aligned 4 (carry' ++ concat cs)) (carry' ++ concat cs))) as [y'|]; cbn [ocat].
      * destruct IH as (oss & Eq2 & Cc2). rewrite Eq2. exists (os :: oss). split; [reflexivity|].
        cbn [concat]. rewrite concat_app. rewrite Cc, Cc2. reflexivity.
      * destruct IH as (st & oss & part & Eq2). rewrite Eq2. eauto.
    + cbn [ocat]. destruct (stage_loop _ _ _ _ _ _ _ _) as [o2 [s2|]] eqn:SL; cbn [snd] in L; [discriminate|].
      eauto.
Qed.

Definition taccept (T : transducer) (st : bytes) (cs : list bytes) : option bytes :=
  let '(st', oss, part, tok) := trun T st cs in
  if tok then match tdone T st' with
              | Some fo => Some (concat (concat oss ++ part ++ fo))
              | None => None
              end
  else None.

(* the decoder stage accepts exactly the canonical texts, whatever the split, and passes on their decoding *)
Theorem b64dec_stream cs : taccept b64dec_T [] cs = dec (concat cs).
Proof.
  unfold taccept.
  pose proof (b64dec_trun cs [] ltac:(reflexivity)) as L. cbv zeta in L. cbn [app] in L.
  set (buf := concat cs) in *.
  assert (HA : blen (take (aligned 4 buf) buf) mod 4 = 0) by (apply aligned_mod; lia).
  replace (dec buf) with (dec (take (aligned 4 buf) buf ++ drop (aligned 4 buf) buf)) by (rewrite take_drop; reflexivity).
  rewrite (dec_app _ _ HA).
  destruct (dec (take (aligned 4 buf) buf)) as [y|].
  - destruct L as (oss & Eq & Cc). rewrite Eq. cbn [tdone b64dec_T].
    assert (Hr : blen (drop (aligned 4 buf) buf) < 4).
    { unfold blen. rewrite drop_length. unfold aligned, blen. set (n := N.of_nat (length buf)). lia. }
    rewrite dec_conv; [|exact I|change io_buf_dec with 64; lia].
    destruct (dec (drop (aligned 4 buf) buf)) as [z|]; cbn [ocat]; [|reflexivity].
    cbn [app concat]. rewrite concat_app. cbn [concat]. rewrite app_nil_r. rewrite Cc. reflexivity.
  - destruct L as (st & oss & part & Eq). rewrite Eq. reflexivity.
Qed.

(* ---- instantiation: encoder stage --------------------------------------------------- *)

Definition encf (d : bytes) : option bytes := Some (enc d).

Lemma enc_conv e : wf_bytes e -> blen e <= io_buf_enc -> enc_to_bytes e io_buf_dec = encf e.
Proof.
  intros W H. apply enc_to_bytes_spec; [exact W|].
  change io_buf_enc with 48 in H. change io_buf_dec with 64.
  destruct (elen_cases (blen e)) as [[M E]|[[M E]|[M E]]]; rewrite E; lia.
Qed.

Lemma wf_app a b : wf_bytes (a ++ b) <-> wf_bytes a /\ wf_bytes b.
Proof. unfold wf_bytes. apply Forall_app. Qed.

Lemma enc_loop_law fuel carry x outs :
  (length x < fuel)%nat -> blen carry < 3 -> wf_bytes carry -> wf_bytes x ->
  let buf := carry ++ x in
  exists os, stage_loop b64_dec_blk io_buf_enc io_buf_dec enc_to_bytes fuel carry x outs
             = (rev outs ++ os, Some (drop (aligned 3 buf) buf)) /\ concat os = enc (take (aligned 3 buf) buf).
Proof.
  intros Hf Hc Wc Wx.
  pose proof (stage_loop_spec 3 48 64 enc_to_bytes encf wf_bytes ltac:(lia) ltac:(lia) enc_conv eq_refl) as S.
  assert (Hh : forall a b, blen a mod 3 = 0 -> encf (a ++ b) = ocat (encf a) (encf b)).
  { intros a b H. unfold encf. cbn [ocat]. rewrite enc_app by exact H. reflexivity. }
  specialize (S Hh wf_app fuel carry x outs Hf Hc Wc Wx). cbv zeta in S. unfold encf in S. exact S.
Qed.

Lemma b64enc_trun cs : forall carry, blen carry < 3 -> wf_bytes carry -> Forall wf_bytes cs ->
  let buf := carry ++ concat cs in
  exists oss, trun b64enc_T carry cs = (drop (aligned 3 buf) buf, oss, [], true)
              /\ concat (concat oss) = enc (take (aligned 3 buf) buf).
Proof.
  induction cs as [|c cs IH]; intros carry Hc Wc Wcs; cbv zeta.
  - cbn [concat]. rewrite app_nil_r. assert (aligned 3 carry = 0%nat) as ->.
    { unfold aligned. rewrite N.mod_small by exact Hc. lia. }
    cbn [take drop enc trun]. exists []. auto.
  - inversion Wcs as [|? ? Wch Wcs']; subst.
    cbn [concat trun tfeed b64enc_T].
    destruct (enc_loop_law (S (length c)) carry c [] (Nat.lt_succ_diag_r _) Hc Wc Wch) as (os & Eq & Cc).
    cbn [rev app] in Eq. rewrite Eq.
    set (b1 := carry ++ c) in *.
    set (A := take (aligned 3 b1) b1) in *. set (carry' := drop (aligned 3 b1) b1) in *.
    assert (HA : blen A mod 3 = 0) by (apply aligned_mod; lia).
    assert (Hsplit : carry ++ c ++ concat cs = A ++ (carry' ++ concat cs)).
    { rewrite app_assoc. fold b1. unfold A, carry'. rewrite app_assoc. rewrite take_drop. reflexivity. }
    rewrite Hsplit.
    destruct (aligned_split 3 ltac:(lia) A (carry' ++ concat cs) HA) as (E1 & E2 & E3).
    rewrite E2, E3. rewrite (enc_app A _ HA).
    assert (Hc' : blen carry' < 3).
    { unfold carry', blen. rewrite drop_length. unfold aligned, blen.
      set (n := N.of_nat (length b1)). lia. }
    assert (Wb1 : wf_bytes b1) by (apply wf_app; split; assumption).
    assert (Wc' : wf_bytes carry').
    { unfold carry'. rewrite <- (take_drop (aligned 3 b1) b1) in Wb1. apply wf_app in Wb1. tauto. }
    destruct (IH carry' Hc' Wc' Wcs') as (oss & Eq2 & Cc2). rewrite Eq2.
    exists (os :: oss). split; [reflexivity|]. cbn [concat]. rewrite concat_app. rewrite Cc, Cc2. reflexivity.
Qed.

Theorem b64enc_stream cs : Forall wf_bytes cs -> taccept b64enc_T [] cs = Some (enc (concat cs)).
Proof.
  intro W. unfold taccept.
  destruct (b64enc_trun cs [] ltac:(reflexivity) ltac:(constructor) W) as (oss & Eq & Cc).
  cbn [app] in Eq, Cc. rewrite Eq. cbn [tdone b64enc_T].
  set (buf := concat cs) in *.
  assert (HA : blen (take (aligned 3 buf) buf) mod 3 = 0) by (apply aligned_mod; lia).
  assert (Wb : wf_bytes buf).
  { unfold buf. clear - W. induction W as [|c cs Wc _ IH]; cbn [concat]; [constructor|]. apply wf_app. split; assumption. }
  assert (Wr : wf_bytes (drop (aligned 3 buf) buf)).
  { rewrite <- (take_drop (aligned 3 buf) buf) in Wb. apply wf_app in Wb. tauto. }
  assert (Hr : blen (drop (aligned 3 buf) buf) < 3).
  { unfold blen. rewrite drop_length. unfold aligned, blen. set (n := N.of_nat (length buf)). lia. }
  rewrite enc_conv; [|exact Wr|change io_buf_enc with 48; lia].
  unfold encf. f_equal. cbn [app concat]. rewrite concat_app. cbn [concat]. rewrite app_nil_r. rewrite Cc.
  rewrite <- enc_app by exact HA. rewrite take_drop. reflexivity.
Qed.
