(* json_equal is an equivalence on values whose objects have no duplicate member names. *)
From JoseV Require Import Base.Json.
Local Open Scope N_scope.

Fixpoint wfj (j : json) : Prop :=
  match j with
  | JArr l => (fix go (l : list json) : Prop := match l with [] => True | x :: r => wfj x /\ go r end) l
  | JObj m => NoDup (akeys m) /\
              (fix go (m : list (bytes * json)) : Prop := match m with [] => True | kv :: r => wfj (snd kv) /\ go r end) m
  | _ => True
  end.

Lemma wfj_arr l : wfj (JArr l) <-> Forall wfj l.
Proof.
  cbn [wfj]. induction l as [|x r IH].
  - split; intros _; [constructor|exact I].
  - split.
    + intros [H1 H2]. constructor; [exact H1|apply IH; exact H2].
    + intro H. inversion H; subst. split; [assumption|apply IH; assumption].
Qed.

Lemma wfj_obj m : wfj (JObj m) <-> NoDup (akeys m) /\ Forall (fun kv => wfj (snd kv)) m.
Proof.
  cbn [wfj]. split; intros [H1 H2]; (split; [exact H1|]); clear H1.
  - induction m as [|kv r IH]; [constructor|]. destruct H2 as [A B]. constructor; [exact A|apply IH; exact B].
  - induction m as [|kv r IH]; [exact I|]. inversion H2; subst. split; [assumption|apply IH; assumption].
Qed.

(* the array comparison as a function on lists *)
Fixpoint arr_eq (x y : list json) : bool :=
  match x, y with
  | [], [] => true
  | p :: x', q :: y' => jequal p q && arr_eq x' y'
  | _, _ => false
  end.

Fixpoint obj_sub (x y : list (bytes * json)) : bool :=
  match x with
  | [] => true
  | (k, v) :: x' => match alookup k y with Some w => jequal v w && obj_sub x' y | None => false end
  end.

Lemma jequal_arr x y : jequal (JArr x) (JArr y) = arr_eq x y.
Proof. revert y; induction x as [|p x IH]; intros [|q y]; reflexivity. Qed.

Lemma jequal_obj x y : jequal (JObj x) (JObj y) = Nat.eqb (length x) (length y) && obj_sub x y.
Proof.
  change (jequal (JObj x) (JObj y)) with
    (Nat.eqb (length x) (length y) &&
     (fix go (x : list (bytes * json)) : bool :=
        match x with
        | [] => true
        | (k, v) :: x' => match alookup k y with Some w => jequal v w && go x' | None => false end
        end) x).
  f_equal. induction x as [|[k v] x IH]; cbn [obj_sub]; [reflexivity|].
  destruct (alookup k y); [rewrite IH; reflexivity|reflexivity].
Qed.

Lemma obj_sub_spec x y :
  obj_sub x y = true <-> forall k v, In (k, v) x -> exists w, alookup k y = Some w /\ jequal v w = true.
Proof.
  induction x as [|[k v] x IH]; cbn [obj_sub]; split; intro H.
  - intros k v [].
  - reflexivity.
  - destruct (alookup k y) as [w|] eqn:E; [|discriminate]. apply andb_true_iff in H. destruct H as [H1 H2].
    intros k' v' [F|F]; [inversion F; subst; eauto|]. apply IH; assumption.
  - destruct (H k v (or_introl eq_refl)) as (w & E & J). rewrite E, J. cbn [andb]. apply IH.
    intros k' v' F. apply H. right. exact F.
Qed.

Lemma alookup_in {A} k (v : A) m : alookup k m = Some v -> In (k, v) m.
Proof.
  induction m as [|[k' v'] m IH]; cbn [alookup]; intro H; [discriminate|].
  destruct (bytes_eqb k k') eqn:E.
  - apply bytes_eqb_eq in E. inversion H; subst. left. reflexivity.
  - right. apply IH. exact H.
Qed.

Lemma in_alookup {A} k (v : A) m : NoDup (akeys m) -> In (k, v) m -> alookup k m = Some v.
Proof.
  induction m as [|[k' v'] m IH]; intros ND H; [destruct H|]. inversion ND as [|? ? Hn ND']; subst. cbn [alookup].
  destruct H as [H|H].
  - inversion H; subst. rewrite bytes_eqb_refl. reflexivity.
  - destruct (bytes_eqb k k') eqn:E.
    + apply bytes_eqb_eq in E. subst. exfalso. apply Hn. unfold akeys. apply in_map_iff. exists (k', v). auto.
    + apply IH; assumption.
Qed.

Lemma in_keys_lookup {A} k (m : list (bytes * A)) : In k (akeys m) -> exists v, alookup k m = Some v.
Proof.
  intro H. destruct (alookup k m) eqn:E; [eauto|]. apply alookup_none_notin in E. contradiction.
Qed.

(* ---- reflexivity ------------------------------------------------------------------------ *)

Theorem jequal_refl j : wfj j -> jequal j j = true.
Proof.
  induction j as [| b | z | t | s | l IH | m IH] using json_ind'; intro W; cbn [jequal]; try reflexivity.
  - destruct b; reflexivity.
  - apply Z.eqb_refl.
  - apply bytes_eqb_refl.
  - apply bytes_eqb_refl.
  - change (jequal (JArr l) (JArr l) = true). rewrite jequal_arr. apply wfj_arr in W.
    induction l as [|x l IHl]; [reflexivity|]. inversion IH as [|? ? IHx IHr]; subst. inversion W as [|? ? Wx Wr]; subst. cbn [arr_eq].
    rewrite (IHx Wx). apply IHl; assumption.
  - change (jequal (JObj m) (JObj m) = true). rewrite jequal_obj. rewrite Nat.eqb_refl. cbn [andb].
    apply wfj_obj in W. destruct W as [ND Wm]. apply obj_sub_spec. intros k v Hin.
    exists v. split; [apply in_alookup; assumption|].
    rewrite Forall_forall in IH, Wm. apply (IH (k, v) Hin). apply (Wm (k, v) Hin).
Qed.

(* ---- symmetry ------------------------------------------------------------------------------ *)

Lemma keys_incl_of_sub x y : obj_sub x y = true -> incl (akeys x) (akeys y).
Proof.
  intros H k Hk. unfold akeys in Hk. apply in_map_iff in Hk. destruct Hk as ([k' v] & E & Hin). cbn [fst] in E. subst k'.
  rewrite obj_sub_spec in H. destruct (H k v Hin) as (w & L & _). apply alookup_in in L.
  unfold akeys. apply in_map_iff. exists (k, w). auto.
Qed.

Theorem jequal_sym a : forall b, wfj a -> wfj b -> jequal a b = true -> jequal b a = true.
Proof.
  induction a as [| b0 | z | t | s | l IH | m IH] using json_ind'; intros b Wa Wb H; destruct b; cbn [jequal] in H; try discriminate;
    try reflexivity.
  - cbn [jequal]. destruct b0, b; try discriminate; reflexivity.
  - cbn [jequal]. rewrite Z.eqb_sym. exact H.
  - cbn [jequal]. apply bytes_eqb_eq in H. subst. apply bytes_eqb_refl.
  - cbn [jequal]. apply bytes_eqb_eq in H. subst. apply bytes_eqb_refl.
  - change (jequal (JArr l) (JArr l0) = true) in H. rewrite jequal_arr in *. apply wfj_arr in Wa, Wb.
    revert l0 Wb H. induction l as [|x l IHl]; intros [|y l0] Wb H; cbn [arr_eq] in *; try discriminate; [reflexivity|].
    apply andb_true_iff in H. destruct H as [H1 H2]. inversion IH as [|? ? IHx IHr]; subst.
    inversion Wa as [|? ? Wax War]; subst. inversion Wb as [|? ? Wby Wbr]; subst.
    rewrite (IHx y Wax Wby H1). cbn [andb]. apply IHl; assumption.
  - change (jequal (JObj m) (JObj m0) = true) in H. rewrite jequal_obj in *.
    apply andb_true_iff in H. destruct H as [HL HS]. apply Nat.eqb_eq in HL.
    apply wfj_obj in Wa, Wb. destruct Wa as [NDa Wa], Wb as [NDb Wb].
    rewrite <- HL. rewrite Nat.eqb_refl. cbn [andb]. apply obj_sub_spec. intros k w Hin.
    (* keys of m are included in keys of m0, both duplicate-free and of the same length: equal as sets *)
    assert (Incl : incl (akeys m0) (akeys m)).
    { apply NoDup_length_incl; [exact NDa| |apply keys_incl_of_sub; exact HS].
      unfold akeys. rewrite !map_length. lia. }
    assert (Hk : In k (akeys m0)) by (unfold akeys; apply in_map_iff; exists (k, w); auto).
    destruct (in_keys_lookup k m (Incl k Hk)) as (v & Lv). exists v. split; [exact Lv|].
    rewrite obj_sub_spec in HS. apply alookup_in in Lv. destruct (HS k v Lv) as (w' & Lw & J).
    rewrite (in_alookup k w m0 NDb Hin) in Lw. inversion Lw; subst w'.
    rewrite Forall_forall in IH, Wa, Wb. apply (IH (k, v) Lv); [apply (Wa (k, v) Lv)|apply (Wb (k, w) Hin)|exact J].
Qed.

(* ---- transitivity ---------------------------------------------------------------------------- *)

Theorem jequal_trans a : forall b c, wfj a -> wfj b -> wfj c -> jequal a b = true -> jequal b c = true -> jequal a c = true.
Proof.
  induction a as [| b0 | z | t | s | l IH | m IH] using json_ind'; intros b c Wa Wb Wc H1 H2;
    destruct b; cbn [jequal] in H1; try discriminate; destruct c; cbn [jequal] in H2; try discriminate; try reflexivity.
  - cbn [jequal]. destruct b0, b, b1; try discriminate; reflexivity.
  - cbn [jequal]. apply Z.eqb_eq in H1, H2. subst. apply Z.eqb_refl.
  - cbn [jequal]. apply bytes_eqb_eq in H1, H2. subst. apply bytes_eqb_refl.
  - cbn [jequal]. apply bytes_eqb_eq in H1, H2. subst. apply bytes_eqb_refl.
  - change (jequal (JArr l) (JArr l0) = true) in H1. change (jequal (JArr l0) (JArr l1) = true) in H2.
    change (jequal (JArr l) (JArr l1) = true). rewrite jequal_arr in *. apply wfj_arr in Wa, Wb, Wc.
    revert l0 l1 Wb Wc H1 H2. induction l as [|x l IHl]; intros [|y l0] [|z l1] Wb Wc H1 H2; cbn [arr_eq] in *; try discriminate; [reflexivity|].
    apply andb_true_iff in H1, H2. destruct H1 as [A1 A2], H2 as [B1 B2].
    inversion IH as [|? ? IHx IHr]; subst. inversion Wa as [|? ? Wax War]; subst.
    inversion Wb as [|? ? Wby Wbr]; subst. inversion Wc as [|? ? Wcz Wcr]; subst.
    rewrite (IHx y z Wax Wby Wcz A1 B1). cbn [andb]. exact (IHl IHr War l0 l1 Wbr Wcr A2 B2).
  - change (jequal (JObj m) (JObj m0) = true) in H1. change (jequal (JObj m0) (JObj m1) = true) in H2.
    change (jequal (JObj m) (JObj m1) = true). rewrite jequal_obj in *.
    apply andb_true_iff in H1, H2. destruct H1 as [L1 S1], H2 as [L2 S2]. apply Nat.eqb_eq in L1, L2.
    apply wfj_obj in Wa, Wb, Wc. destruct Wa as [NDa Wa], Wb as [NDb Wb], Wc as [NDc Wc].
    replace (Nat.eqb (length m) (length m1)) with true by (symmetry; apply Nat.eqb_eq; lia). cbn [andb].
    apply obj_sub_spec. intros k v Hin. rewrite obj_sub_spec in S1, S2.
    destruct (S1 k v Hin) as (w & Lw & J1). pose proof (alookup_in _ _ _ Lw) as Hw.
    destruct (S2 k w Hw) as (u & Lu & J2). exists u. split; [exact Lu|].
    rewrite Forall_forall in IH, Wa, Wb, Wc.
    apply (IH (k, v) Hin w u); [apply (Wa (k, v) Hin)|apply (Wb (k, w) Hw)|apply (Wc (k, u)); apply alookup_in; exact Lu|exact J1|exact J2].
Qed.
