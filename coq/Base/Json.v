(* JSON values with jansson's accessor semantics.  Objects are
   insertion-ordered association lists (jansson iterates in insertion order
   and replaces a value in place). *)
From JoseV Require Export Base.Bytes.
Local Open Scope N_scope.

Inductive json :=
| JNull
| JBool (b : bool)
| JInt (z : Z)
| JReal (tok : bytes)          (* the canonical text of the real, e.g. "1.5" *)
| JStr (s : bytes)
| JArr (l : list json)
| JObj (m : list (bytes * json)).

(* induction principle that reaches inside arrays and objects *)
Section JsonInd.
  Variable P : json -> Prop.
  Hypothesis Hnull : P JNull.
  Hypothesis Hbool : forall b, P (JBool b).
  Hypothesis Hint : forall z, P (JInt z).
  Hypothesis Hreal : forall t, P (JReal t).
  Hypothesis Hstr : forall s, P (JStr s).
  Hypothesis Harr : forall l, Forall P l -> P (JArr l).
  Hypothesis Hobj : forall m, Forall (fun kv => P (snd kv)) m -> P (JObj m).

  Fixpoint json_ind' (j : json) : P j :=
    match j with
    | JNull => Hnull
    | JBool b => Hbool b
    | JInt z => Hint z
    | JReal t => Hreal t
    | JStr s => Hstr s
    | JArr l =>
        Harr l ((fix go (l : list json) : Forall P l :=
                   match l with
                   | [] => Forall_nil _
                   | x :: r => Forall_cons _ (json_ind' x) (go r)
                   end) l)
    | JObj m =>
        Hobj m ((fix go (m : list (bytes * json)) : Forall (fun kv => P (snd kv)) m :=
                   match m with
                   | [] => Forall_nil _
                   | kv :: r => Forall_cons _ (json_ind' (snd kv)) (go r)
                   end) m)
    end.
End JsonInd.

(* ---- association lists ------------------------------------------------------ *)

Fixpoint alookup {A} (k : bytes) (m : list (bytes * A)) : option A :=
  match m with
  | [] => None
  | (k', v) :: r => if bytes_eqb k k' then Some v else alookup k r
  end.

Fixpoint aset {A} (k : bytes) (v : A) (m : list (bytes * A)) : list (bytes * A) :=
  match m with
  | [] => [(k, v)]
  | (k', v') :: r => if bytes_eqb k k' then (k', v) :: r else (k', v') :: aset k v r
  end.

Fixpoint adel {A} (k : bytes) (m : list (bytes * A)) : list (bytes * A) :=
  match m with
  | [] => []
  | (k', v') :: r => if bytes_eqb k k' then r else (k', v') :: adel k r
  end.

Definition akeys {A} (m : list (bytes * A)) : list bytes := map fst m.

(* ---- jansson accessors ------------------------------------------------------- *)

(* json_object_get: NULL on a non-object or a missing key *)
Definition lookup (k : bytes) (j : json) : option json :=
  match j with JObj m => alookup k m | _ => None end.

(* json_object_set(_new): -1 on a non-object *)
Definition jset (k : bytes) (v : json) (j : json) : option json :=
  match j with JObj m => Some (JObj (aset k v m)) | _ => None end.

(* json_object_del: -1 on a non-object or a missing key *)
Definition jdel (k : bytes) (j : json) : option json :=
  match j with
  | JObj m => match alookup k m with Some _ => Some (JObj (adel k m)) | None => None end
  | _ => None
  end.

Definition is_object (j : json) : bool := match j with JObj _ => true | _ => false end.
Definition is_array (j : json) : bool := match j with JArr _ => true | _ => false end.
Definition is_string (j : json) : bool := match j with JStr _ => true | _ => false end.
Definition is_integer (j : json) : bool := match j with JInt _ => true | _ => false end.

(* json_object_update / _update_missing: -1 unless both are objects *)
Definition jupdate (obj other : json) : option json :=
  match obj, other with
  | JObj m, JObj o => Some (JObj (fold_left (fun acc kv => aset (fst kv) (snd kv) acc) o m))
  | _, _ => None
  end.

Definition jupdate_missing (obj other : json) : option json :=
  match obj, other with
  | JObj m, JObj o =>
      Some (JObj (fold_left (fun acc kv =>
                     match alookup (fst kv) acc with
                     | Some _ => acc
                     | None => aset (fst kv) (snd kv) acc
                     end) o m))
  | _, _ => None
  end.

(* json_array_size: 0 on a non-array *)
Definition array_items (j : json) : list json := match j with JArr l => l | _ => [] end.
Definition array_size (j : json) : nat := length (array_items j).
Definition object_size (j : json) : nat := match j with JObj m => length m | _ => O end.

(* "s" of json_unpack: the C string view stops at the first NUL; "s%" carries the length *)
Definition str_sl (j : json) : option bytes := match j with JStr s => Some s | _ => None end.
Definition str_s (j : json) : option bytes := match j with JStr s => Some (cstr s) | _ => None end.

(* ---- json_equal ------------------------------------------------------------------ *)

Fixpoint jequal (a b : json) : bool :=
  match a, b with
  | JNull, JNull => true
  | JBool x, JBool y => Bool.eqb x y
  | JInt x, JInt y => Z.eqb x y
  | JReal x, JReal y => bytes_eqb x y
  | JStr x, JStr y => bytes_eqb x y
  | JArr x, JArr y =>
      (fix go (x y : list json) : bool :=
         match x, y with
         | [], [] => true
         | p :: x', q :: y' => jequal p q && go x' y'
         | _, _ => false
         end) x y
  | JObj x, JObj y =>
      Nat.eqb (length x) (length y) &&
      (fix go (x : list (bytes * json)) : bool :=
         match x with
         | [] => true
         | (k, v) :: x' =>
             match alookup k y with
             | Some w => jequal v w && go x'
             | None => false
             end
         end) x
  | _, _ => false
  end.

(* ---- basic facts about association lists ------------------------------------------- *)

Lemma alookup_aset_same {A} k (v : A) m : alookup k (aset k v m) = Some v.
Proof.
  induction m as [|[k' v'] m IH]; simpl.
  - rewrite bytes_eqb_refl. reflexivity.
  - destruct (bytes_eqb k k') eqn:E; simpl; rewrite E; [reflexivity|exact IH].
Qed.

Lemma alookup_aset_other {A} k k' (v : A) m : k <> k' -> alookup k' (aset k v m) = alookup k' m.
Proof.
  intro N. induction m as [|[k2 v2] m IH]; simpl.
  - destruct (bytes_eqb k' k) eqn:E; [apply bytes_eqb_eq in E; congruence|reflexivity].
  - destruct (bytes_eqb k k2) eqn:E; simpl.
    + apply bytes_eqb_eq in E. subst k2.
      destruct (bytes_eqb k' k) eqn:E2; [apply bytes_eqb_eq in E2; congruence|reflexivity].
    + destruct (bytes_eqb k' k2); [reflexivity|exact IH].
Qed.

Lemma alookup_none_notin {A} k (m : list (bytes * A)) : alookup k m = None <-> ~ In k (akeys m).
Proof.
  induction m as [|[k' v'] m IH]; simpl; [tauto|].
  destruct (bytes_eqb k k') eqn:E.
  - apply bytes_eqb_eq in E. subst. split; [discriminate|]. intro H. exfalso. apply H. left. reflexivity.
  - rewrite IH. split.
    + intros H [F|F]; [subst; rewrite bytes_eqb_refl in E; discriminate|exact (H F)].
    + intros H F. apply H. right. exact F.
Qed.

Lemma alookup_adel_same {A} k (m : list (bytes * A)) : NoDup (akeys m) -> alookup k (adel k m) = None.
Proof.
  induction m as [|[k' v'] m IH]; simpl; intro ND; [reflexivity|].
  inversion ND as [|? ? Hn ND']; subst.
  destruct (bytes_eqb k k') eqn:E.
  - apply bytes_eqb_eq in E. subst k'. apply alookup_none_notin. exact Hn.
  - simpl. rewrite E. apply IH. exact ND'.
Qed.

Lemma alookup_adel_other {A} k k' (m : list (bytes * A)) : k <> k' -> alookup k' (adel k m) = alookup k' m.
Proof.
  intro N. induction m as [|[k2 v2] m IH]; simpl; [reflexivity|].
  destruct (bytes_eqb k k2) eqn:E.
  - apply bytes_eqb_eq in E. subst k2.
    destruct (bytes_eqb k' k) eqn:E2; [apply bytes_eqb_eq in E2; congruence|reflexivity].
  - simpl. destruct (bytes_eqb k' k2); [reflexivity|exact IH].
Qed.

Lemma akeys_aset_in {A} k (v : A) m : alookup k m <> None -> akeys (aset k v m) = akeys m.
Proof.
  induction m as [|[k' v'] m IH]; simpl; intro H; [congruence|].
  destruct (bytes_eqb k k') eqn:E; simpl; [reflexivity|]. f_equal. apply IH. exact H.
Qed.

Lemma akeys_aset_new {A} k (v : A) m : alookup k m = None -> akeys (aset k v m) = akeys m ++ [k].
Proof.
  induction m as [|[k' v'] m IH]; simpl; intro H; [reflexivity|].
  destruct (bytes_eqb k k') eqn:E; [discriminate|]. simpl. f_equal. apply IH. exact H.
Qed.

Lemma aset_nodup {A} k (v : A) m : NoDup (akeys m) -> NoDup (akeys (aset k v m)).
Proof.
  intro ND. destruct (alookup k m) eqn:E.
  - rewrite akeys_aset_in by congruence. exact ND.
  - rewrite akeys_aset_new by exact E. apply alookup_none_notin in E.
    clear - ND E. induction (akeys m) as [|x l IH]; simpl.
    + constructor; [intros []|constructor].
    + inversion ND; subst. constructor.
      * rewrite in_app_iff. intros [F|[F|[]]]; [contradiction|]. subst. apply E. left. reflexivity.
      * apply IH; [assumption|]. intro F. apply E. right. exact F.
Qed.

Lemma adel_nodup {A} k (m : list (bytes * A)) : NoDup (akeys m) -> NoDup (akeys (adel k m)).
Proof.
  induction m as [|[k' v'] m IH]; simpl; intro ND; [constructor|].
  inversion ND as [|? ? Hn ND']; subst.
  destruct (bytes_eqb k k'); [exact ND'|]. simpl. constructor; [|apply IH; exact ND'].
  intro F. apply Hn. clear - F. induction m as [|[k2 v2] m IH]; simpl in *; [exact F|].
  destruct (bytes_eqb k k2); [right; exact F|]. simpl in F. destruct F as [F|F]; [left; exact F|right; apply IH; exact F].
Qed.
