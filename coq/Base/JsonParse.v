(* jansson's json_loadb for the flags jose uses.  Fuelled recursive descent;
   fuel = length of the input + 1 is always enough because every recursive
   call consumes at least one byte. *)
From JoseV Require Export Base.Json.
Local Open Scope N_scope.

Record pflags := { allow_nul : bool; decode_any : bool }.

Definition is_ws (c : N) : bool := (c =? 32) || (c =? 9) || (c =? 10) || (c =? 13).
Definition is_digit (c : N) : bool := (48 <=? c) && (c <=? 57).

Fixpoint skip_ws (s : bytes) : bytes :=
  match s with
  | c :: r => if is_ws c then skip_ws r else s
  | [] => []
  end.

(* ---- UTF-8 validation of the whole input (jansson validates as it reads) ---- *)

Definition is_cont (c : N) : bool := (128 <=? c) && (c <=? 191).

Fixpoint utf8_ok_fuel (fuel : nat) (s : bytes) : bool :=
  match fuel with
  | O => false
  | S f =>
      match s with
      | [] => true
      | c :: r =>
          if c <? 128 then utf8_ok_fuel f r
          else if c <? 194 then false                       (* continuation or overlong C0/C1 *)
          else if c <? 224 then
            match r with
            | c1 :: r' => is_cont c1 && utf8_ok_fuel f r'
            | _ => false
            end
          else if c <? 240 then
            match r with
            | c1 :: c2 :: r' =>
                let v := (c - 224) * 4096 + (c1 - 128) * 64 + (c2 - 128) in
                is_cont c1 && is_cont c2 && (2048 <=? v) && negb ((55296 <=? v) && (v <=? 57343))
                && utf8_ok_fuel f r'
            | _ => false
            end
          else if c <? 245 then
            match r with
            | c1 :: c2 :: c3 :: r' =>
                let v := (c - 240) * 262144 + (c1 - 128) * 4096 + (c2 - 128) * 64 + (c3 - 128) in
                is_cont c1 && is_cont c2 && is_cont c3 && (65536 <=? v) && (v <=? 1114111)
                && utf8_ok_fuel f r'
            | _ => false
            end
          else false
      end
  end.

Definition utf8_ok (s : bytes) : bool := utf8_ok_fuel (S (length s)) s.

Definition utf8_encode (v : N) : bytes :=
  if v <? 128 then [v]
  else if v <? 2048 then [192 + v / 64; 128 + v mod 64]
  else if v <? 65536 then [224 + v / 4096; 128 + (v / 64) mod 64; 128 + v mod 64]
  else [240 + v / 262144; 128 + (v / 4096) mod 64; 128 + (v / 64) mod 64; 128 + v mod 64].

(* ---- strings ---------------------------------------------------------------- *)

Definition hexval (c : N) : option N :=
  if is_digit c then Some (c - 48)
  else if (97 <=? c) && (c <=? 102) then Some (c - 87)
  else if (65 <=? c) && (c <=? 70) then Some (c - 55)
  else None.

Definition hex4 (s : bytes) : option (N * bytes) :=
  match s with
  | a :: b :: c :: d :: r =>
      match hexval a, hexval b, hexval c, hexval d with
      | Some a, Some b, Some c, Some d => Some (a * 4096 + b * 256 + c * 16 + d, r)
      | _, _, _, _ => None
      end
  | _ => None
  end.

(* after the opening quote; returns the decoded string and the rest after the closing quote *)
Fixpoint parse_str_fuel (fl : pflags) (fuel : nat) (s : bytes) (acc : bytes) : option (bytes * bytes) :=
  match fuel with
  | O => None
  | S f =>
      match s with
      | [] => None
      | c :: r =>
          if c =? 34 then Some (rev acc, r)
          else if c <? 32 then None
          else if c =? 92 then
            match r with
            | [] => None
            | e :: r' =>
                if e =? 117 then
                  match hex4 r' with
                  | None => None
                  | Some (v, r2) =>
                      if (55296 <=? v) && (v <=? 56319) then
                        (* high surrogate: must be followed by \uDC00..DFFF *)
                        match r2 with
                        | 92 :: 117 :: r3 =>
                            match hex4 r3 with
                            | Some (v2, r4) =>
                                if (56320 <=? v2) && (v2 <=? 57343)
                                then parse_str_fuel fl f r4
                                       (rev (utf8_encode ((v - 55296) * 1024 + (v2 - 56320) + 65536)) ++ acc)
                                else None
                            | None => None
                            end
                        | _ => None
                        end
                      else if (56320 <=? v) && (v <=? 57343) then None
                      else if (v =? 0) && negb (allow_nul fl) then None
                      else parse_str_fuel fl f r2 (rev (utf8_encode v) ++ acc)
                  end
                else
                  let out := if e =? 34 then Some 34 else if e =? 92 then Some 92 else if e =? 47 then Some 47
                             else if e =? 98 then Some 8 else if e =? 102 then Some 12 else if e =? 110 then Some 10
                             else if e =? 114 then Some 13 else if e =? 116 then Some 9 else None in
                  match out with
                  | Some o => parse_str_fuel fl f r' (o :: acc)
                  | None => None
                  end
            end
          else parse_str_fuel fl f r (c :: acc)
      end
  end.

(* ---- numbers ------------------------------------------------------------------- *)

Fixpoint take_digits (s : bytes) : bytes * bytes :=
  match s with
  | c :: r => if is_digit c then let '(d, rest) := take_digits r in (c :: d, rest) else ([], s)
  | [] => ([], [])
  end.

Definition digits_val (d : bytes) : N := fold_left (fun acc c => acc * 10 + (c - 48)) d 0.

Definition llong_max : Z := 9223372036854775807%Z.
Definition llong_min : Z := (-9223372036854775808)%Z.

(* s starts at '-' or a digit *)
Definition parse_num (s : bytes) : option (json * bytes) :=
  let '(neg, s1) := match s with 45 :: r => (true, r) | _ => (false, s) end in
  let '(ip, s2) := take_digits s1 in
  match ip with
  | [] => None
  | d0 :: more =>
      if (d0 =? 48) && negb (match more with [] => true | _ => false end) then None
      else
        let is_frac := match s2 with 46 :: _ => true | _ => false end in
        let is_exp := match s2 with 101 :: _ => true | 69 :: _ => true | _ => false end in
        if negb is_frac && negb is_exp then
          let v := Z.of_N (digits_val ip) in
          let v := if neg then (- v)%Z else v in
          if (llong_min <=? v)%Z && (v <=? llong_max)%Z then Some (JInt v, s2) else None
        else
          (* real: keep the token text *)
          let '(frac, s3) :=
            match s2 with
            | 46 :: r => let '(fd, r') := take_digits r in (Some fd, r')
            | _ => (None, s2)
            end in
          match frac with
          | Some [] => None
          | _ =>
              let fr := match frac with Some fd => 46 :: fd | None => [] end in
              match s3 with
              | e :: r =>
                  if (e =? 101) || (e =? 69) then
                    let '(sg, r1) := match r with
                                     | 43 :: r' => ([43], r')
                                     | 45 :: r' => ([45], r')
                                     | _ => ([], r)
                                     end in
                    let '(ed, r2) := take_digits r1 in
                    match ed with
                    | [] => None
                    | _ => Some (JReal ((if neg then [45] else []) ++ ip ++ fr ++ e :: sg ++ ed), r2)
                    end
                  else Some (JReal ((if neg then [45] else []) ++ ip ++ fr), s3)
              | [] => Some (JReal ((if neg then [45] else []) ++ ip ++ fr), s3)
              end
          end
  end.

(* ---- values ------------------------------------------------------------------------ *)

Definition starts (p s : bytes) : option bytes :=
  if bytes_eqb (take (length p) s) p then Some (drop (length p) s) else None.

Definition has_nul (s : bytes) : bool := existsb (fun c => c =? 0) s.

Fixpoint parse_val (fl : pflags) (fuel : nat) (s : bytes) : option (json * bytes) :=
  match fuel with
  | O => None
  | S f =>
      match skip_ws s with
      | [] => None
      | c :: r =>
          if c =? 34 then
            match parse_str_fuel fl (S (length r)) r [] with
            | Some (str, rest) => Some (JStr str, rest)
            | None => None
            end
          else if c =? 123 then
            (* object *)
            match skip_ws r with
            | 125 :: rest => Some (JObj [], rest)
            | _ =>
                (fix members (g : nat) (s : bytes) (acc : list (bytes * json)) : option (json * bytes) :=
                   match g with
                   | O => None
                   | S g' =>
                       match skip_ws s with
                       | 34 :: r1 =>
                           match parse_str_fuel fl (S (length r1)) r1 [] with
                           | Some (k, r2) =>
                               if has_nul k then None else
                               match skip_ws r2 with
                               | 58 :: r3 =>
                                   match parse_val fl f r3 with
                                   | Some (v, r4) =>
                                       let acc' := aset k v acc in
                                       match skip_ws r4 with
                                       | 44 :: r5 => members g' r5 acc'
                                       | 125 :: r5 => Some (JObj acc', r5)
                                       | _ => None
                                       end
                                   | None => None
                                   end
                               | _ => None
                               end
                           | None => None
                           end
                       | _ => None
                       end
                   end) f r []
            end
          else if c =? 91 then
            match skip_ws r with
            | 93 :: rest => Some (JArr [], rest)
            | _ =>
                (fix elems (g : nat) (s : bytes) (acc : list json) : option (json * bytes) :=
                   match g with
                   | O => None
                   | S g' =>
                       match parse_val fl f s with
                       | Some (v, r1) =>
                           match skip_ws r1 with
                           | 44 :: r2 => elems g' r2 (v :: acc)
                           | 93 :: r2 => Some (JArr (rev (v :: acc)), r2)
                           | _ => None
                           end
                       | None => None
                       end
                   end) f r []
            end
          else if c =? 116 then match starts [114; 117; 101] r with Some rest => Some (JBool true, rest) | None => None end
          else if c =? 102 then match starts [97; 108; 115; 101] r with Some rest => Some (JBool false, rest) | None => None end
          else if c =? 110 then match starts [117; 108; 108] r with Some rest => Some (JNull, rest) | None => None end
          else if (c =? 45) || is_digit c then parse_num (c :: r)
          else None
      end
  end.

Definition parse_with (fl : pflags) (s : bytes) : option json :=
  if negb (utf8_ok s) then None else
  match parse_val fl (S (length s)) s with
  | Some (v, rest) =>
      match skip_ws rest with
      | [] =>
          if decode_any fl then Some v
          else match v with JArr _ | JObj _ => Some v | _ => None end
      | _ => None
      end
  | None => None
  end.

(* json_loadb(.., JSON_DECODE_ANY, ..) as used by jose_b64_dec_load *)
Definition parse_any : bytes -> option json := parse_with {| allow_nul := false; decode_any := true |}.
(* json_loads(.., 0, ..): arrays and objects only *)
Definition parse_strict : bytes -> option json := parse_with {| allow_nul := false; decode_any := false |}.
(* what the harness protocol uses: JSON_DECODE_ANY | JSON_ALLOW_NUL *)
Definition parse_proto : bytes -> option json := parse_with {| allow_nul := true; decode_any := true |}.
