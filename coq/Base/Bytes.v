(* Bytes: a byte is an N below 256; byte strings are lists. *)
From Coq Require Export List NArith ZArith Bool Lia.
Export ListNotations.
Local Open Scope N_scope.

Definition byte := N.
Definition bytes := list N.

Definition wf_byte (b : N) : Prop := b < 256.
Definition wf_bytes (b : bytes) : Prop := Forall wf_byte b.

Definition wf_byteb (b : N) : bool := b <? 256.
Definition wf_bytesb (b : bytes) : bool := forallb wf_byteb b.

Lemma wf_bytesb_spec b : wf_bytesb b = true <-> wf_bytes b.
Proof.
  unfold wf_bytesb, wf_bytes. rewrite forallb_forall, Forall_forall.
  unfold wf_byteb, wf_byte. split; intros H x Hx; specialize (H x Hx).
  - apply N.ltb_lt; exact H.
  - apply N.ltb_lt; exact H.
Qed.

Fixpoint bytes_eqb (a b : bytes) : bool :=
  match a, b with
  | [], [] => true
  | x :: a', y :: b' => (x =? y) && bytes_eqb a' b'
  | _, _ => false
  end.

Lemma bytes_eqb_eq a b : bytes_eqb a b = true <-> a = b.
Proof.
  revert b; induction a as [|x a IH]; intros [|y b]; simpl; split; intro H;
    try reflexivity; try discriminate.
  - apply andb_true_iff in H as [H1 H2]. apply N.eqb_eq in H1. apply IH in H2.
    subst; reflexivity.
  - inversion H; subst. rewrite N.eqb_refl. simpl. apply IH. reflexivity.
Qed.

Lemma bytes_eqb_refl a : bytes_eqb a a = true.
Proof. apply bytes_eqb_eq; reflexivity. Qed.

Lemma bytes_eq_dec (a b : bytes) : {a = b} + {a <> b}.
Proof. apply list_eq_dec. apply N.eq_dec. Defined.

(* three-valued strcmp on byte strings (unsigned char comparison; a string
   ends at its end -- NUL-free strings assumed by callers) *)
Fixpoint strcmp (a b : bytes) : comparison :=
  match a, b with
  | [], [] => Eq
  | [], _ :: _ => Lt
  | _ :: _, [] => Gt
  | x :: a', y :: b' =>
      match N.compare x y with
      | Eq => strcmp a' b'
      | c => c
      end
  end.

Lemma strcmp_eq a b : strcmp a b = Eq <-> a = b.
Proof.
  revert b; induction a as [|x a IH]; intros [|y b]; simpl; split; intro H;
    try reflexivity; try discriminate.
  - destruct (N.compare_spec x y) as [E|L|G]; try discriminate.
    subst. apply IH in H. subst. reflexivity.
  - inversion H; subst. rewrite N.compare_refl. apply IH. reflexivity.
Qed.

(* ASCII helpers *)
Definition ascii_lower (c : N) : N := if (65 <=? c) && (c <=? 90) then c + 32 else c.
Definition lower (s : bytes) : bytes := map ascii_lower s.
Definition strcasecmp_eq (a b : bytes) : bool := bytes_eqb (lower a) (lower b).

(* cut at the first NUL: what a C string function sees of a buffer *)
Fixpoint cstr (s : bytes) : bytes :=
  match s with
  | [] => []
  | c :: r => if c =? 0 then [] else c :: cstr r
  end.

Fixpoint repeatN {A} (x : A) (n : nat) : list A :=
  match n with O => [] | S k => x :: repeatN x k end.

Fixpoint take {A} (n : nat) (l : list A) : list A :=
  match n, l with
  | O, _ => []
  | S k, [] => []
  | S k, x :: r => x :: take k r
  end.

Fixpoint drop {A} (n : nat) (l : list A) : list A :=
  match n, l with
  | O, _ => l
  | S k, [] => []
  | S k, _ :: r => drop k r
  end.

Lemma take_drop {A} n (l : list A) : take n l ++ drop n l = l.
Proof. revert l; induction n as [|n IH]; intros [|x l]; simpl; try reflexivity. rewrite IH. reflexivity. Qed.

Lemma take_length {A} n (l : list A) : length (take n l) = Nat.min n (length l).
Proof. revert l; induction n as [|n IH]; intros [|x l]; simpl; try reflexivity. rewrite IH. reflexivity. Qed.

Lemma drop_length {A} n (l : list A) : length (drop n l) = (length l - n)%nat.
Proof. revert l; induction n as [|n IH]; intros [|x l]; simpl; try reflexivity. apply IH. Qed.

Lemma take_all {A} n (l : list A) : (length l <= n)%nat -> take n l = l.
Proof. revert l; induction n as [|n IH]; intros [|x l]; simpl; intro H; try reflexivity; try lia. rewrite IH; [reflexivity|lia]. Qed.

Lemma drop_all {A} n (l : list A) : (length l <= n)%nat -> drop n l = [].
Proof. revert l; induction n as [|n IH]; intros [|x l]; simpl; intro H; try reflexivity; try lia. apply IH; lia. Qed.

Lemma take_app {A} (a b : list A) : take (length a) (a ++ b) = a.
Proof. induction a as [|x a IH]; simpl; [destruct b; reflexivity|]. rewrite IH. reflexivity. Qed.

Lemma drop_app {A} (a b : list A) : drop (length a) (a ++ b) = b.
Proof. induction a as [|x a IH]; simpl; [reflexivity|]. exact IH. Qed.
