(* jansson's json_dumps with JSON_COMPACT | JSON_SORT_KEYS (| JSON_ENCODE_ANY). *)
From JoseV Require Export Base.Json.
Local Open Scope N_scope.

Definition hexdig_uc (n : N) : N := if n <? 10 then 48 + n else 55 + n.

(* decimal digits of a natural number, most significant first; fuel = bit length + 1 *)
Fixpoint dec_digits_fuel (fuel : nat) (n : N) (acc : bytes) : bytes :=
  match fuel with
  | O => acc
  | S f => if n <? 10 then (48 + n) :: acc else dec_digits_fuel f (n / 10) ((48 + n mod 10) :: acc)
  end.

Definition N_to_dec (n : N) : bytes := dec_digits_fuel (S (N.to_nat (N.log2 n))) n [].

Definition Z_to_dec (z : Z) : bytes :=
  match z with
  | Z0 => [48]
  | Zpos p => N_to_dec (Npos p)
  | Zneg p => 45 :: N_to_dec (Npos p)
  end.

Definition esc_char (c : N) : bytes :=
  if c =? 34 then [92; 34]
  else if c =? 92 then [92; 92]
  else if c =? 8 then [92; 98]
  else if c =? 12 then [92; 102]
  else if c =? 10 then [92; 110]
  else if c =? 13 then [92; 114]
  else if c =? 9 then [92; 116]
  else if c <? 32 then [92; 117; 48; 48; hexdig_uc (c / 16); hexdig_uc (c mod 16)]
  else [c].

Definition esc_string (s : bytes) : bytes := flat_map esc_char s.

Definition quote (s : bytes) : bytes := 34 :: esc_string s ++ [34].

(* insertion sort of object entries by strcmp of the keys (stable) *)
Fixpoint insert_kv {A} (kv : bytes * A) (l : list (bytes * A)) : list (bytes * A) :=
  match l with
  | [] => [kv]
  | x :: r => match strcmp (fst kv) (fst x) with
              | Lt => kv :: l
              | _ => x :: insert_kv kv r
              end
  end.

Definition sort_kv {A} (l : list (bytes * A)) : list (bytes * A) := fold_right insert_kv [] l.

Fixpoint join (sep : bytes) (l : list bytes) : bytes :=
  match l with
  | [] => []
  | [x] => x
  | x :: r => x ++ sep ++ join sep r
  end.

Fixpoint dump (j : json) : bytes :=
  match j with
  | JNull => [110; 117; 108; 108]
  | JBool true => [116; 114; 117; 101]
  | JBool false => [102; 97; 108; 115; 101]
  | JInt z => Z_to_dec z
  | JReal t => t
  | JStr s => quote s
  | JArr l => 91 :: join [44] (map dump l) ++ [93]
  | JObj m =>
      123 :: join [44] (map (fun kv => quote (fst kv) ++ 58 :: snd kv)
                            (sort_kv (map (fun kv => (fst kv, dump (snd kv))) m))) ++ [125]
  end.

(* json_dumps without JSON_ENCODE_ANY refuses anything but arrays and objects *)
Definition dump_top (j : json) : option bytes :=
  match j with
  | JArr _ | JObj _ => Some (dump j)
  | _ => None
  end.
