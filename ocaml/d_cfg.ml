(* C17: configuration contexts, the `pure` specification, the thread system
     cfg <op;op;...> [<g><n>]           (same grammar as harness/h_cfg.c); variant of the code, probed by
                                        tools/props/c17.py: g = h|m (get_err_misc returns the handler | misc),
                                        n = c|o (decref/auto of NULL crashes | is tolerated); default "hc"
     pure <function> <args...>          one "=" per JSON argument ("-" for a NULL one)
     threads <n> <seed>                 OK | DIFF <thread>                                  *)
open Model
open Dcore

let errnames = [| ""; "JOSE_CFG_ERR_JWK_INVALID"; "JOSE_CFG_ERR_JWK_MISMATCH"; "JOSE_CFG_ERR_JWK_DENIED";
                  "JOSE_CFG_ERR_ALG_NOTSUP"; "JOSE_CFG_ERR_ALG_NOINFER"; "JOSE_CFG_ERR_JWS_INVALID" |]

(* strerror() is libc's, not the library's: only the values the generator uses *)
let strerror = function
  | 1 -> "Operation not permitted" | 2 -> "No such file or directory" | 12 -> "Cannot allocate memory"
  | 13 -> "Permission denied" | 22 -> "Invalid argument" | e -> Printf.sprintf "Unknown error %d" e

let under s = String.map (fun c -> if c = ' ' || c = '\t' then '_' else c) s

(* what dflt_err prints after "file:line:" for jose_cfg_err(cfg, code, "m%d", 7) *)
let default_text (code : n) : string =
  match getname_class code with
  | NNone -> "m7"
  | NErrno e -> under (strerror (int_of_n e)) ^ ":m7"
  | NNamed i -> errnames.(int_of_n i) ^ ":m7"
  | NUnknown -> "UNKNOWN:m7"

let ctx_of (s : string) : n option =
  if s = "N" then None else Some (n_of_int (int_of_string s))

let parse_op (o : string) : cop =
  let body = String.sub o 1 (String.length o - 1) in
  let parts = String.split_on_char ',' body in
  let c = ctx_of (List.nth parts 0) in
  match o.[0] with
  | 'c' -> (match c with Some k -> OpCreate k | None -> failwith "model: create needs a slot")
  | 'i' -> OpIncref c
  | 'd' -> OpDecref c
  | 'a' -> OpAuto c
  | 's' ->
    let h = int_of_string (List.nth parts 1) in
    let m = int_of_string (List.nth parts 2) in
    OpSet (c, (if h = 0 then None else Some (n_of_int h)), n_of_int m)
  | 'g' -> OpGet c
  | 'e' -> OpErr (c, n_of_int (int_of_string (List.nth parts 1)))
  | _ -> failwith ("model: bad cfg op " ^ o)

let show_out (x : cout) : string =
  match x with
  | OSkip -> "!"
  | OOk -> "."
  | OCrash -> "CRASH"
  | OPtr (PMisc m) -> string_of_int (int_of_n m)
  | OPtr (PHandler h) -> "H" ^ string_of_int (int_of_n h)
  | OPtr PDefault -> "?"
  | OEvent e ->
    (match e.ev_handler with
     | Some h -> Printf.sprintf "h%d(%d,%d,m7)" (int_of_n h) (int_of_n e.ev_misc) (int_of_n e.ev_code)
     | None -> "default(" ^ default_text e.ev_code ^ ")")

(* which fields of a `pure` case are JSON arguments whose preservation is reported *)
let pure_args (fn : string) : int list =
  match fn with
  | "ver" | "dec" | "dec_jwk" -> [2; 3; 4]
  | "jwe_hdr" | "dec_cek" | "eql" | "exc" -> [2; 3]
  | "jws_hdr" | "thp" | "thp_buf" | "prm" | "b64_dec" | "b64_dec_load" | "b64_enc_dump" -> [2]
  | "sig_tmpl" | "encjwk_tmpl" -> [3; 4]
  | _ -> failwith ("model: pure: unknown function " ^ fn)

let show_token = function
  | TSame -> "="
  | TMod -> "M"
  | TRef Z0 -> "R+0"
  | TRef (Zpos p) -> "R+" ^ string_of_int (int_of_pos p)
  | TRef (Zneg p) -> "R-" ^ string_of_int (int_of_pos p)

let () =
  register "cfg" (fun f ->
    let vs = if Array.length f > 2 && String.length f.(2) = 2 then f.(2) else "hc" in
    let v = { get_returns_misc = (vs.[0] = 'm'); decref_null_ok = (vs.[1] = 'o') } in
    let ops = List.map parse_op (List.filter (fun s -> s <> "") (String.split_on_char ';' f.(1))) in
    let outs = crun_out v cinit ops in
    if List.mem OCrash outs then "CRASH"
    else String.concat " " (List.map show_out outs));
  register "pure" (fun f ->
    let idx = pure_args f.(1) in
    let present = List.filter (fun i -> f.(i) <> "-") idx in
    let toks = ref (List.map show_token (pure_spec (nat_of_int (List.length present)))) in
    String.concat " " (List.map (fun i ->
      if f.(i) = "-" then "-"
      else (match !toks with t :: r -> toks := r; t | [] -> "MODEL-SHORT")) idx));
  (* the operations are pure functions of their arguments on the model (no state outside the arguments exists there), so
     a probe run after an unrelated refused call gives what it gives alone: the specification side of "interleave" *)
  register "interleave" (fun _ -> "OK");
  register "threads" (fun f ->
    let n = int_of_string f.(1) and seed = int_of_string f.(2) in
    match threads_check (n_of_int n) (n_of_int seed) (n_of_int 6) with
    | None -> "OK"
    | Some t -> "DIFF " ^ string_of_int (int_of_n t))
