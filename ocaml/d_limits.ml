(* C14: the guard functions of coq/Jose/Limits.v behind the commands of harness/h_limits.c.
   The inputs are rebuilt exactly as the harness builds them (zero bytes = 'A' repeated). *)
open Model
open Dcore

let kdf_cap = 200000          (* KDF_CAP of harness/h_limits.c *)

let int_of_z = function Z0 -> 0 | Zpos p -> int_of_pos p | Zneg p -> - (int_of_pos p)
let bs = bytes_of_string
let jstr (s : string) : json = JStr (bs s)
let obj (l : (string * json) list) : json = JObj (List.map (fun (k, v) -> (bs k, v)) l)

(* base64url text of n zero bytes *)
let elen n = n / 3 * 4 + (if n mod 3 = 0 then 0 else n mod 3 + 1)
let zeros_text n = String.make (elen n) 'A'

(* "<len>" | bad | none, as harness b64zeros; none_int: the harness puts the integer 5 there instead of nothing *)
let member_of_spec ?(none_int = false) (spec : string) : json option =
  match spec with
  | "none" -> if none_int then Some (JInt (Zpos (XI (XO XH)))) else None
  | "bad" -> Some (jstr "AAAAA")
  | s -> Some (jstr (zeros_text (int_of_string s)))

let with_member (base : (string * json) list) (name : string) (v : json option) : json =
  match v with None -> obj base | Some j -> obj (base @ [(name, j)])

let pb_alg = [| "PBES2-HS256+A128KW"; "PBES2-HS384+A192KW"; "PBES2-HS512+A256KW" |]
let pb_stl = [| 16; 24; 32 |]
let algidx s = let i = (try int_of_string s with _ -> 0) in if i < 0 || i > 2 then 0 else i
let password_jwk = obj [("kty", jstr "oct"); ("k", jstr "cGFzc3dvcmQ")]

let site_line (r : site_res) (final_ok : int -> bool) : string =
  match r.sr_go with
  | Some n -> let n = int_of_n n in Printf.sprintf "G=P\tn=%d\tfinal=%s" n (if final_ok n then "A" else "R")
  | None -> "G=R\tn=-\tfinal=R"

let () =
  register "pbes2_unw" (fun f ->
    let ai = algidx f.(3) in
    let p2c = if f.(1) = "keep" then Some (JInt (Zpos (pos_of_int 1000))) else jarg f.(1) in
    let p2s =
      if f.(2) = "keep" then Some (jstr (zeros_text pb_stl.(ai)))
      else if String.length f.(2) > 4 && String.sub f.(2) 0 4 = "len:" then
        Some (jstr (zeros_text (int_of_string (String.sub f.(2) 4 (String.length f.(2) - 4)))))
      else jarg f.(2) in
    let hdr = with_member [] "p2c" p2c in
    let hdr = (match hdr, p2s with JObj m, Some s -> JObj (m @ [(bs "p2s", s)]) | h, _ -> h) in
    match pbes2_unw_guard (bs pb_alg.(ai)) hdr password_jwk with
    | Refuse -> "G=R\titer=0\tsaltl=0\tkdfret=-\tfinal=R"
    | Proceed r ->
      let it = int_of_z r.kr_iter in
      let kdfret = if it > kdf_cap then "capped" else if openssl_pbkdf2_accepts r.kr_iter then "1" else "0" in
      let final = kdfret = "1" && it = 1000 && f.(2) = "keep" in
      Printf.sprintf "G=P\titer=%d\tsaltl=%d\tkdfret=%s\tfinal=%s" it (int_of_n r.kr_saltl) kdfret
        (if final then "A" else "R"));

  register "p2c_wrp" (fun f ->
    let ai = algidx f.(3) in
    let hdr = with_member [] "p2c" (jarg f.(1)) in
    match pbes2_wrp_guard (bs pb_alg.(ai)) hdr password_jwk with
    | Refuse -> "G=R\titer=0\tfinal=R\tp2c=-"
    | Proceed (recd, r) ->
      Printf.sprintf "G=P\titer=%d\tfinal=A\tp2c=%s" (int_of_z r.kr_iter) (string_of_bytes (dump recd)));

  register "zipct" (fun f ->
    let tl = int_of_string f.(1) in
    let mode = int_of_string f.(2) in
    let deflated = f.(3) <> "0" in
    let prot = obj ([("alg", jstr "dir"); ("enc", jstr "A128GCM")]
                    @ (if mode = 1 then [("zip", jstr "DEF")] else if mode = 3 then [("zip", jstr "XYZ")] else [])) in
    let pe = (match jose_b64_enc_dump prot with Some j -> j | None -> failwith "model: cannot encode the protected header") in
    let jwe = obj ((if mode = 2 then [("unprotected", obj [("zip", jstr "DEF")])] else []) @ [("protected", pe)]) in
    let cek = obj [("kty", jstr "oct"); ("k", jstr "AAAAAAAAAAAAAAAAAAAAAA")] in
    match dec_cek_guard jwe (Some (n_of_int tl)) (decide_deccek jwe cek) with
    | Refuse -> "final=R\tdec=N"
    | Proceed _ ->
      let decodable = (match b64_dlen (n_of_int tl) with Some _ -> true | None -> false) in
      let final = decodable && (mode <> 1 || deflated) in
      Printf.sprintf "final=%s\tdec=D" (if final then "A" else "R"));

  register "inffeed" (fun f ->
    let len = int_of_string f.(1) in
    (* third field: octets behind the end of the deflate stream, in the same feed: the stream's content is delivered,
       then the feed is refused because input is left over that the inflater will never consume *)
    let trail = if Array.length f > 2 then int_of_string f.(2) else 0 in
    match inf_feed_guard (n_of_int (len + trail)) with
    | Refuse -> "final=R\tout=0"
    | Proceed _ ->
      let k = (len + 65539) / 65540 in
      let content = if len >= 5 then len - 5 * k else 0 in
      if trail > 0 then Printf.sprintf "final=R\tout=%d" content
      else Printf.sprintf "final=A\tout=%d" content);

  register "keymax" (fun f ->
    let site = f.(1) and spec = f.(2) in
    let alg d = if Array.length f > 3 then f.(3) else d in
    match site with
    | "hmac_sig" | "hmac_ver" ->
      let md = (match alg "HS256" with "HS512" -> 64 | "HS384" -> 48 | _ -> 32) in
      let jwk = with_member [("kty", jstr "oct")] "k" (member_of_spec spec) in
      site_line (jhmac (n_of_int md) jwk) (fun _ -> true)
    | "aeskw_wrp" ->
      let cek = with_member [("kty", jstr "oct"); ("alg", jstr "A128GCM")] "k" (member_of_spec ~none_int:true spec) in
      site_line (aeskw_wrp_pt cek) (fun n -> openssl_kw_wrap_ok (n_of_int n))
    | "aeskw_unw" ->
      let rcp = with_member [] "encrypted_key" (member_of_spec spec) in
      site_line (aeskw_unw_ct rcp) (fun n -> openssl_kw_unwrap_ok (n_of_int n))
    | "pbes2_k_wrp" | "pbes2_k_unw" ->
      let jwk = with_member [("kty", jstr "oct")] "k" (member_of_spec spec) in
      site_line (pbkdf2_ky jwk) (fun _ -> true)
    | "pbes2_pw_wrp" ->
      site_line (pbkdf2_ky (jstr (String.make (int_of_string spec) 'p'))) (fun _ -> true)
    | "ecdhes_apu_wrp" | "ecdhes_apv_wrp" | "ecdhes_apu_unw" | "ecdhes_apv_unw" | "ecdhes_x_unw" ->
      let v = member_of_spec ~none_int:true spec in
      let x32 = jstr (zeros_text 32) in
      let (hdr, key) =
        if site = "ecdhes_x_unw" then (obj [], with_member [("kty", jstr "EC")] "x" v)
        else (with_member [] (String.sub site 7 3) v, obj [("kty", jstr "EC"); ("x", x32)]) in
      (match ecdhes_derive (Some (n_of_int 16)) hdr key with
       | Proceed _ -> "G=-\tn=-\tfinal=A"
       | Refuse -> "G=-\tn=-\tfinal=R")
    | _ -> "UNKNOWN-SITE");

  register "oct_gen" (fun f ->
    let jwk = with_member [("kty", jstr "oct")] "bytes" (jarg f.(1)) in
    match oct_make jwk with
    | Proceed n -> Printf.sprintf "final=A\tn=%d" (int_of_n n)
    | Refuse -> "final=R\tn=-")
