(* C13: the arithmetic-free part of jose_jwk_exc (type / algorithm / permission / curve-name /
   presence-of-d decisions and the mode ECMR selects), on the symbolic group instance
   [ec_shape] of Jwk/ExcAlg.v.  The numbers are evaluated by coqc (tools/props/c13.py).
     exc <local jwk> <remote jwk>  ->  ERR | OK <crv> <mul|add|sub|other> *)
open Model
open Dcore

let () =
  register "exc" (fun f ->
    match jarg f.(1), jarg f.(2) with
    | Some l, Some r ->
        (match exc_decision l r with
         | None -> "ERR"
         | Some (c, z) ->
             let mode = match z with
               | Zpos XH -> "mul"
               | Zpos (XO XH) -> "add"
               | Zpos (XI XH) -> "sub"
               | _ -> "other" in
             Printf.sprintf "OK %s %s" (string_of_bytes c) mode)
    | _, _ -> "ERR")
