(* C09: model side of `mem <function> <args...>`.
   Every case is expected to leave all reference counts intact and nothing alive:  D=0  L=0  M=0.
   For the glue that has an ownership model (coq/Mem/Own.v: jose_jws_hdr, jose_jwe_hdr, zip_in_protected_header,
   encode_protected) D and L are what the MODEL computes on the heap built from the arguments (so a leak the model
   predicts shows up on both sides); the verdict comes from the functional models (Jose/Jws.v, Jose/Jwe.v,
   Jwk/*.v, Codec/B64Json.v) where one exists, V=* otherwise (dropped by the check's normalize). *)
open Model
open Dcore

let need (s : string) : json = match jarg s with Some j -> j | None -> failwith "model: JSON argument required"
let v b = if b then "ok" else "fail"
let plain verdict = Printf.sprintf "V=%s\tD=0\tL=0\tM=0" verdict

let report (verdict : bool) (r : mem_report) : string =
  if r.mr_stuck then "STUCK"
  else if r.mr_ok <> verdict then "MODEL-INCONSISTENT ownership model and functional model disagree on the verdict"
  else Printf.sprintf "V=%s\tD=%d\tL=%s\tM=0" (v verdict) (int_of_nat r.mr_deltas) (if int_of_nat r.mr_live = 0 then "0" else "+")

let arg f i = if i < Array.length f then f.(i) else "-"

let () =
  register "mem" (fun f ->
    (* the extracted decoder is quadratic in the length of its input: beyond 4000 characters only the memory
       expectation is printed (the check's normalize drops the verdict of such cases on both sides) *)
    let total = Array.fold_left (fun a s -> a + String.length s) 0 f in
    if total > 4000 then plain "*" else
    match f.(1) with
    | "jose_jws_hdr" ->
        let s = need f.(2) in
        report (jws_hdr s <> None) (memr_jws_hdr s)
    | "jose_jwe_hdr" ->
        let j = need f.(2) in
        let r = jarg (arg f 3) in
        report (jwe_hdr j r <> None) (memr_jwe_hdr j r)
    | "zip_in_protected_header" ->
        let j = need f.(2) in
        let r = memr_zip_in_protected_header j in
        report r.mr_ok r
    | "encode_protected" ->
        let j = need f.(2) in
        report (encode_protected j <> None) (memr_encode_protected j)
    | "jose_jwk_pub" -> plain (v (jwk_pub (need f.(2)) <> None))
    | "jose_jwk_thp" -> plain (v (jwk_thp (need f.(2)) (bytes_of_string (arg f 3)) <> None))
    | "jose_jwk_thp_buf" ->
        let len = if arg f 4 = "NULL" then None else Some (n_of_int (int_of_string (arg f 4))) in
        plain (v (fst (jwk_thp_buf (need f.(2)) (bytes_of_string (arg f 3)) len) <> None))
    | "jose_jwk_eql" -> plain (v (jwk_eql (need f.(2)) (need f.(3))))
    | "jose_jwk_prm" ->
        let op = if arg f 4 = "NULL" then None else Some (bytes_of_string (arg f 4)) in
        plain (v (jwk_prm (need f.(2)) (arg f 3 = "1") op))
    | "jose_b64_dec" ->
        let i = need f.(2) in
        let m = arg f 3 in
        let r =
          if m = "q" then (jose_b64_dec i None).ret
          else if m = "x" then
            (match (jose_b64_dec i None).ret with
             | None -> None
             | Some n -> (jose_b64_dec i (Some n)).ret)
          else (jose_b64_dec i (Some (n_of_int (int_of_string m)))).ret in
        plain (v (r <> None))
    | "jose_b64_dec_load" -> plain (v (jose_b64_dec_load (need f.(2)) <> None))
    | "jose_b64_enc_dump" -> plain (v (jose_b64_enc_dump (need f.(2)) <> None))
    | _ -> plain "*")
