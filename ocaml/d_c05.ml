(* C05: permission decision and declared-algorithm checks, on the decision models with ideal primitives *)
open Model
open Dcore

let need (s : string) : json = match jarg s with Some j -> j | None -> failwith "model: JSON argument required"
let js (s : string) : json = need s
let q (s : string) : string = "\"" ^ s ^ "\""   (* names are plain ASCII without quotes/backslashes *)
let with_alg (base : string) (alg : string) : json =
  if alg = "-" then js ("{" ^ base ^ "}") else js ("{" ^ base ^ ",\"alg\":" ^ q alg ^ "}")
let enc_dump (j : json) : string =
  match jose_b64_enc_dump j with Some (JStr s) -> string_of_bytes s | _ -> failwith "model: enc_dump"
let ar b = if b then "A" else "R"

let () =
  register "prm" (fun f ->
    let jwk = need f.(1) in
    let req = f.(2) = "1" in
    let op = if f.(3) = "NULL" then None else Some (bytes_of_string f.(3)) in
    if jwk_prm jwk req op then "T" else "F");
  register "algcheck" (fun f ->
    match f.(1) with
    | "ver" ->
        let a = f.(2) and b = f.(3) in
        if not (registered KSign (bytes_of_string a)) then "N" else begin
          let p = enc_dump (js ("{\"alg\":" ^ q a ^ "}")) in
          let sg = js ("{\"payload\":\"cGF5bG9hZA\",\"protected\":" ^ q p ^ ",\"signature\":\"AA\"}") in
          ar (decide_ver sg (with_alg "\"kty\":\"oct\"" b)) end
    | "sig" ->
        let a = f.(2) and b = f.(3) in
        if not (registered KSign (bytes_of_string a)) then "N" else
          ar (decide_sig (js ("{\"protected\":{\"alg\":" ^ q a ^ "}}")) (with_alg "\"kty\":\"oct\"" b))
    | "decjwk" ->
        let a = f.(2) and e = f.(3) and b = f.(4) in
        if not (registered KWrap (bytes_of_string a) && registered KEncr (bytes_of_string e)) then "N" else begin
          let p = enc_dump (js ("{\"alg\":" ^ q a ^ ",\"enc\":" ^ q e ^ "}")) in
          ar (decide_decjwk (js ("{\"protected\":" ^ q p ^ ",\"encrypted_key\":\"AA\"}")) (with_alg "\"kty\":\"oct\"" b)) end
    | "enccek" ->
        let e = f.(2) and b = f.(3) in
        if not (registered KEncr (bytes_of_string e)) then "N" else
          ar (decide_enccek (js ("{\"protected\":{\"enc\":" ^ q e ^ "}}")) (with_alg "\"kty\":\"oct\"" b))
    | "deccek" ->
        let e = f.(2) and b = f.(3) in
        if not (registered KEncr (bytes_of_string e)) then "N" else begin
          let p = enc_dump (js ("{\"enc\":" ^ q e ^ "}")) in
          ar (decide_deccek (js ("{\"protected\":" ^ q p ^ "}")) (with_alg "\"kty\":\"oct\"" b)) end
    | "deccekU" | "deccekPU" ->
        (* enc carried by the shared unprotected header only (with or without an unrelated protected header) *)
        let e = f.(2) and b = f.(3) in
        if not (registered KEncr (bytes_of_string e)) then "N" else begin
          let p = if f.(1) = "deccekPU" then "\"protected\":" ^ q (enc_dump (js "{\"typ\":\"x\"}")) ^ "," else "" in
          ar (decide_deccek (js ("{" ^ p ^ "\"unprotected\":{\"enc\":" ^ q e ^ "}}")) (with_alg "\"kty\":\"oct\"" b)) end
    | "decjwkU" ->
        let a = f.(2) and e = f.(3) and b = f.(4) in
        if not (registered KWrap (bytes_of_string a) && registered KEncr (bytes_of_string e)) then "N" else
          ar (decide_decjwk (js ("{\"unprotected\":{\"enc\":" ^ q e ^ "},\"header\":{\"alg\":" ^ q a ^ "},\"encrypted_key\":\"AA\"}")) (with_alg "\"kty\":\"oct\"" b))
    | "exc" ->
        ar (decide_exc (with_alg "\"kty\":\"EC\"" f.(2)) (with_alg "\"kty\":\"EC\"" f.(3)))
    | _ -> "?")
