(* JWS/JWE structure commands *)
open Model
open Dcore

let need (s : string) : json = match jarg s with Some j -> j | None -> failwith "model: JSON argument required"

let () =
  register "entity" (fun f ->
    let sg = f.(1) = "sig" in
    let root = ref (Some (need f.(2))) in
    let b = Buffer.create 256 in
    (try
      for i = 3 to Array.length f - 1 do
        if i > 3 then Buffer.add_char b '\t';
        (match !root with
         | None -> ()
         | Some r ->
           let obj = need f.(i) in
           let r' = if sg then add_signature r obj else add_recipient r obj in
           root := r';
           (match r' with
            | None -> Buffer.add_string b "ERR"; raise Exit
            | Some j -> Buffer.add_string b (string_of_bytes (dump j))))
      done
    with Exit -> ());
    Buffer.contents b);
  register "encprot" (fun f -> jout (encode_protected (need f.(1))))
