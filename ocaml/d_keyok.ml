(* C10: the key-material tests of the symmetric algorithms on the model *)
open Model
open Dcore

let need (s : string) : json = match jarg s with Some j -> j | None -> failwith "model: JSON argument required"

let () =
  register "keyok" (fun f ->
    let op = (match f.(1) with "sign" -> KSignOp | "enc" -> KEncOp | "wrap" -> KWrapOp | _ -> failwith "model: op") in
    match keyok_sym op (bytes_of_string f.(2)) (need f.(3)) with
    | Some true -> "A" | Some false -> "R" | None -> "N")
