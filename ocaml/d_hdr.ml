(* C15: merged headers, suggestions, recording *)
open Model
open Dcore

let need (s : string) : json = match jarg s with Some j -> j | None -> failwith "model: JSON argument required"
let name_or_dash = function None -> "-" | Some n -> string_of_bytes n
let dumpj j = string_of_bytes (dump j)

let () =
  register "hdr" (fun f ->
    if f.(1) = "jws" then jout (jws_hdr (need f.(2)))
    else jout (jwe_hdr (need f.(2)) (jarg f.(3))));
  register "sug" (fun f ->
    match f.(1) with
    | "sign" -> name_or_dash (suggest_sign (need f.(2)))
    | "wrap" -> name_or_dash (suggest_wrap (need f.(2)))
    | "encr" -> name_or_dash (suggest_encr (need f.(2)))
    | "wenc" -> if registered KWrap (bytes_of_string f.(2)) then name_or_dash (wrap_enc_of (bytes_of_string f.(2)) (need f.(3))) else "-"
    | "exch" -> name_or_dash (ecdh_sug (need f.(2)) (need f.(3)))
    | _ -> "?");
  register "sigalg" (fun f ->
    let sg = (match jarg f.(1) with Some j -> j | None -> JObj []) in
    let jwk = need f.(2) in
    match sg with
    | JObj _ ->
      (match sig_find_alg sug_sign sg jwk with
       | None -> "ERR"
       | Some (a, s1) when not (sig_key_ok a.sa_name jwk) -> "ERR"
       | Some (_, s1) ->
         (match encode_protected s1 with
          | None -> "ERR"
          | Some s2 ->
            (match prefix_bytes s2 with
             | None -> "ERR"
             | Some _ ->
               let p = (match lookup s_protected s2 with
                        | Some (JStr s) -> (match jose_b64_dec_load (JStr s) with Some j -> dumpj j | None -> "null")
                        | Some j -> dumpj j
                        | None -> "null") in
               let h = (match lookup s_header s2 with Some j -> dumpj j | None -> "-") in
               "P=" ^ p ^ "\tH=" ^ h)))
    | _ -> "ERR");
  (* one template applied to several keys: every key starts from the caller's template (jose deep-copies it) and the
     template itself is left as it was *)
  register "sigmulti" (fun f ->
    let sg = need f.(1) in
    let keys = (match need f.(2) with JArr l -> l | j -> [j]) in
    let one jwk =
      match sig_find_alg sug_sign sg jwk with
      | None -> None
      | Some (a, s1) when not (sig_key_ok a.sa_name jwk) -> None
      | Some (_, s1) ->
        (match encode_protected s1 with
         | None -> None
         | Some s2 ->
           (match prefix_bytes s2 with
            | None -> None
            | Some _ ->
              let p = (match lookup s_protected s2 with
                       | Some (JStr s) -> (match jose_b64_dec_load (JStr s) with Some j -> dumpj j | None -> "null")
                       | _ -> "null") in
              let h = (match lookup s_header s2 with Some j -> dumpj j | None -> "-") in
              Some ("P=" ^ p ^ " H=" ^ h ^ "\t"))) in
    let rs = List.map one keys in
    if keys = [] || List.exists (fun r -> r = None) rs then "ERR" ^ "T=" ^ dumpj sg
    else String.concat "" (List.map (function Some s -> s | None -> "") rs) ^ "T=" ^ dumpj sg);
  register "encalg" (fun f ->
    match enc_cek_prepare real_sug_encr (need f.(1)) (need f.(2)) with
    | None -> "ERR"
    | Some (a, _) when not (enc_key_ok a.ea_name (need f.(2))) -> "ERR"
    | Some (a, jwe2) ->
      let p = (match lookup s_protected jwe2 with
               | Some (JStr s) -> (match jose_b64_dec_load (JStr s) with Some j -> dumpj j | None -> "null")
               | _ -> "null") in
      let u = (match lookup s_unprotected jwe2 with Some j -> dumpj j | None -> "-") in
      let nm = string_of_bytes a.ea_name in
      let is_gcm = String.length nm >= 7 && String.sub nm 4 3 = "GCM" in
      "P=" ^ p ^ "\tU=" ^ u ^ "\tIV=" ^ (if is_gcm then "12" else "16") ^ "\tRT=ok");
  register "wrapalg" (fun f ->
    let jwe = need f.(1) in
    let rcp = (match jarg f.(2) with Some j -> j | None -> JObj []) in
    match wrap_choose jwe rcp (need f.(3)) (need f.(4)) with
    | None -> "ERR"
    | Some ((n, e), rcp') ->
      let ralg = (match lookup s_header rcp' with
                  | Some h -> (match lookup s_alg h with Some j -> dumpj j | None -> "-")
                  | None -> "-") in
      let halg = (match jwe_hdr jwe (Some rcp') with
                  | Some h -> (match lookup s_alg h with Some j -> dumpj j | None -> "null")
                  | None -> "null") in
      "alg=" ^ halg ^ "\trcpalg=" ^ ralg ^ "\tcekalg=" ^ dumpj (JStr e))
