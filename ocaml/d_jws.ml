(* JWS sign / verify on the model with the concrete HMAC family *)
open Model
open Dcore

let need (s : string) : json = match jarg s with Some j -> j | None -> failwith "model: JSON argument required"
let rec int_of_nat' = function O -> 0 | S n -> 1 + int_of_nat' n

let () =
  register "jwsver" (fun f ->
    if jws_ver real_sign_algs (need f.(1)) (jarg f.(2)) (need f.(3)) (f.(4) = "1") then "T" else "F");
  register "jwsverio" (fun f ->
    match ver_io real_sign_algs (need f.(1)) (jarg f.(2)) (need f.(3)) (f.(4) = "1") with
    | None -> "N"
    | Some c ->
      let data = unhex f.(6) in
      let chunks = D_b64io.split_chunks f.(5) data in
      let ((_, acc), v) = runc c chunks in
      let acc = int_of_nat' acc in
      Printf.sprintf "%d %s" acc (if acc < List.length chunks then "-" else if v then "T" else "F"));
  register "jwssig" (fun f ->
    jout (jws_sig real_sign_algs (need f.(1)) (jarg f.(2)) (need f.(3)) []))
