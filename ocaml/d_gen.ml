(* C11: jose_jwk_gen on the model.  The generators OpenSSL provides are replaced by PLACEHOLDERS of the right
   size (random octets = zeros; RSA numbers with N.size n = 2 * (bits / 2) -- what OpenSSL 3 delivers -- and the
   requested e; EC numbers = 1; the model itself refuses sizes outside 2048..16384, the guard at 65536 below is
   never reached): the
   correspondence compares accept/reject and the SHAPE of the result (members, lengths, kty, crv, alg, key_ops,
   what was deleted); tools/props/c11.py masks the random values on both sides. *)
open Model
open Dcore

let need (s : string) : json = match jarg s with Some j -> j | None -> failwith "model: JSON argument required"

let rec pow2_pos (k : int) : positive = if k <= 0 then XH else XO (pow2_pos (k - 1))
(* 2^k + 1, k >= 1 *)
let pow2p1 (k : int) : n = if k <= 0 then Npos (XO XH) else
  let rec go k = if k <= 0 then XH else XO (go (k - 1)) in Npos (XI (go (k - 1)))

let int_of_z = function Z0 -> 0 | Zpos p -> int_of_pos p | Zneg p -> - (int_of_pos p)

let one = Npos XH
(* 0x5a5a5b: a value no template of the run presets *)
let ph = n_of_int 0x5a5a5b

let ext : g_ext =
  { x_rand = List.init 1024 (fun _ -> N0);
    x_rsa = (fun bits e ->
      let b = int_of_z bits in
      if b > 65536 then None else
      let b = 2 * (b / 2) in
      Some { rk_n = pow2p1 (b - 1); rk_e = e; rk_d = ph; rk_p = pow2p1 (b / 2 - 1);
             rk_q = pow2p1 (b / 2 - 1); rk_dp = ph; rk_dq = ph; rk_qi = ph });
    x_ec = (fun _ -> Some { ek_d = one; ek_x = one; ek_y = one }) }

let names l = String.concat "," (List.map string_of_bytes l)

let () =
  register "genx" (fun f ->
    match jwk_gen ext (need f.(1)) with
    | Some j -> "OK\t" ^ string_of_bytes (dump j)
    | None -> "ERR");
  register "genhooks" (fun _ ->
    (* grouped by kind, running order within a kind, exactly as harness/h_gen.c prints it *)
    String.concat " "
      (List.map (fun h -> "prep=" ^ names (gen_hook_probe_prep h)) g_prep_hooks
       @ List.map (fun h -> "make=" ^ names (gen_hook_probe_make h)) g_make_hooks
       @ List.map (fun t -> "type=" ^ string_of_bytes t.t_kty ^ ":" ^ names t.t_req) jwk_types))
