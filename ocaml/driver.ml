(* Model side of the correspondence: reads one case per line (TAB separated,
   same protocol as harness/h.c), runs the extracted Gallina model, prints one
   canonical result line per case. *)
open Model

(* ---- conversions between OCaml values and the extracted inductive numbers *)
let rec pos_of_int (i : int) : positive =
  if i = 1 then XH else if i land 1 = 0 then XO (pos_of_int (i lsr 1)) else XI (pos_of_int (i lsr 1))
let n_of_int (i : int) : n = if i = 0 then N0 else Npos (pos_of_int i)
let rec int_of_pos = function XH -> 1 | XO p -> 2 * int_of_pos p | XI p -> 2 * int_of_pos p + 1
let int_of_n = function N0 -> 0 | Npos p -> int_of_pos p

let bytes_of_string (s : string) : n list =
  let r = ref [] in
  for i = String.length s - 1 downto 0 do r := n_of_int (Char.code s.[i]) :: !r done; !r
let string_of_bytes (l : n list) : string =
  let b = Buffer.create 64 in
  List.iter (fun x -> Buffer.add_char b (Char.chr ((int_of_n x) land 255))) l; Buffer.contents b

let hexv c = match c with
  | '0'..'9' -> Char.code c - 48 | 'a'..'f' -> Char.code c - 87 | 'A'..'F' -> Char.code c - 55 | _ -> 0
let unhex (s : string) : string =
  if s = "-" then "" else
  String.init (String.length s / 2) (fun i -> Char.chr (hexv s.[2*i] * 16 + hexv s.[2*i+1]))
let hex (s : string) : string =
  if s = "" then "-" else begin
    let b = Buffer.create (2 * String.length s) in
    String.iter (fun c -> Buffer.add_string b (Printf.sprintf "%02x" (Char.code c))) s; Buffer.contents b end

let sz = function None -> "MAX" | Some v -> string_of_int (int_of_n v)

(* apply a write list to a buffer of ol bytes of 0xA5; a write outside it breaks the canary *)
let apply_writes (w : (n * n) list) (ol : int) : string * bool =
  let b = Bytes.make ol '\xa5' in
  let ok = ref true in
  List.iter (fun (i, v) ->
    let i = int_of_n i in
    if i < ol then Bytes.set b i (Char.chr ((int_of_n v) land 255)) else ok := false) w;
  (Bytes.to_string b, !ok)

let bufres_line (r : bufres) (ol : string) : string =
  if r.oob then "OOB-READ" else
  if ol = "NULL" then sz r.ret
  else begin
    let (b, ok) = apply_writes r.writes (int_of_string ol) in
    Printf.sprintf "%s %s %s" (sz r.ret) (hex b) (if ok then "canary-ok" else "CANARY-BROKEN")
  end

let olarg s = if s = "NULL" then None else Some (n_of_int (int_of_string s))

let dispatch (f : string array) : string =
  match f.(0) with
  | "b64decbuf" -> bufres_line (dec_buf (bytes_of_string (unhex f.(1))) (olarg f.(2))) f.(2)
  | "b64encbuf" -> bufres_line (enc_buf (bytes_of_string (unhex f.(1))) (olarg f.(2))) f.(2)
  | "b64spec" ->
      (* the RFC-level specification, for the model-internal cross check *)
      (match f.(1) with
       | "enc" -> hex (string_of_bytes (enc (bytes_of_string (unhex f.(2)))))
       | _ -> (match dec (bytes_of_string (unhex f.(2))) with None -> "ERR" | Some b -> hex (string_of_bytes b)))
  | _ -> raise Not_found

let () =
  try
    while true do
      let line = input_line stdin in
      if line <> "" then begin
        let f = Array.of_list (String.split_on_char '\t' line) in
        let out = try dispatch f with
          | Stack_overflow -> "MODEL-STACK-OVERFLOW"
          | Not_found -> "MODEL-UNKNOWN-COMMAND" in
        print_string out; print_char '\n'
      end
    done
  with End_of_file -> ()
