(* Model side of the correspondence: reads one case per line (TAB separated,
   same protocol as harness/h.c), runs the extracted Gallina model, prints one
   canonical result line per case. *)
open Model

(* ---- conversions between OCaml values and the extracted inductive numbers *)
let rec pos_of_int (i : int) : positive =
  if i = 1 then XH else if i land 1 = 0 then XO (pos_of_int (i lsr 1)) else XI (pos_of_int (i lsr 1))
let n_of_int (i : int) : n = if i = 0 then N0 else Npos (pos_of_int i)
let rec int_of_pos = function XH -> 1 | XO p -> 2 * int_of_pos p | XI p -> 2 * int_of_pos p + 1
let int_of_n = function N0 -> 0 | Npos p -> int_of_pos p

let bytes_of_string (s : string) : n list =
  let r = ref [] in
  for i = String.length s - 1 downto 0 do r := n_of_int (Char.code s.[i]) :: !r done; !r
let string_of_bytes (l : n list) : string =
  let b = Buffer.create 64 in
  List.iter (fun x -> Buffer.add_char b (Char.chr ((int_of_n x) land 255))) l; Buffer.contents b

let hexv c = match c with
  | '0'..'9' -> Char.code c - 48 | 'a'..'f' -> Char.code c - 87 | 'A'..'F' -> Char.code c - 55 | _ -> 0
let unhex (s : string) : string =
  if s = "-" then "" else
  String.init (String.length s / 2) (fun i -> Char.chr (hexv s.[2*i] * 16 + hexv s.[2*i+1]))
let hex (s : string) : string =
  if s = "" then "-" else begin
    let b = Buffer.create (2 * String.length s) in
    String.iter (fun c -> Buffer.add_string b (Printf.sprintf "%02x" (Char.code c))) s; Buffer.contents b end

let sz = function None -> "MAX" | Some v -> string_of_int (int_of_n v)

(* apply a write list to a buffer of ol bytes of 0xA5; a write outside it breaks the canary *)
let apply_writes (w : (n * n) list) (ol : int) : string * bool =
  let b = Bytes.make ol '\xa5' in
  let ok = ref true in
  List.iter (fun (i, v) ->
    let i = int_of_n i in
    if i < ol then Bytes.set b i (Char.chr ((int_of_n v) land 255)) else ok := false) w;
  (Bytes.to_string b, !ok)

let bufres_line (r : bufres) (ol : string) : string =
  if r.oob then "OOB-READ" else
  if ol = "NULL" then sz r.ret
  else begin
    let (b, ok) = apply_writes r.writes (int_of_string ol) in
    Printf.sprintf "%s %s %s" (sz r.ret) (hex b) (if ok then "canary-ok" else "CANARY-BROKEN")
  end

let olarg s = if s = "NULL" then None else Some (n_of_int (int_of_string s))

let rec nat_of_int (i : int) : nat = if i <= 0 then O else S (nat_of_int (i - 1))
let rec int_of_nat = function O -> 0 | S n -> 1 + int_of_nat n

(* ---- JSON through the extracted parser / dumper ---- *)
let jarg (s : string) : json option =
  if s = "-" then None else
  match parse_proto (bytes_of_string s) with
  | Some j -> Some j
  | None -> failwith ("model: cannot parse JSON argument: " ^ s)
let jout (j : json option) : string =
  match j with None -> "ERR" | Some j -> string_of_bytes (dump j)

(* ---- chain shapes ---- *)
let parse_shape (s : string) : chain =
  let pos = ref 0 in
  let eat (p : string) : bool =
    let l = String.length p in
    if !pos + l <= String.length s && String.sub s !pos l = p then (pos := !pos + l; true) else false in
  let num () : int =
    let st = !pos in
    if !pos < String.length s && s.[!pos] = '-' then incr pos;
    while !pos < String.length s && s.[!pos] >= '0' && s.[!pos] <= '9' do incr pos done;
    int_of_string (String.sub s st (!pos - st)) in
  let rec build () : chain =
    if eat "malloc" then Sink (SMalloc [])
    else if eat "buffer:" then (let c = num () in Sink (SBuffer (n_of_int c, [])))
    else if eat "file" then Sink (SFile [])
    else if eat "faulty:" then begin
      let ff = num () in
      ignore (eat ":");
      let fd = num () in
      Sink (SFaulty ((if ff < 0 then None else Some (nat_of_int ff)), fd <> 0, O, []))
    end
    else if eat "b64enc(" then (let n = build () in ignore (eat ")"); Stage (b64enc_T, [], n))
    else if eat "b64dec(" then (let n = build () in ignore (eat ")"); Stage (b64dec_T, [], n))
    else if eat "hash:" then begin
      let st = !pos in
      while s.[!pos] <> '(' do incr pos done;
      let name = String.sub s st (!pos - st) in
      incr pos;
      let h = (match name with "S1" -> SHA1 | "S224" -> SHA224 | "S256" -> SHA256 | "S384" -> SHA384
               | "S512" -> SHA512 | _ -> failwith "model: unknown hash") in
      let n = build () in ignore (eat ")");
      Stage (atdone_T (fun m -> Some (hash h m)), [], n)
    end
    else if eat "plexany(" then plex false
    else if eat "plexall(" then plex true
    else failwith "model: unknown shape"
  and plex (all : bool) : chain =
    if eat ")" then Plex (all, []) else begin
      let bs = ref [] in
      let fin = ref false in
      while not !fin do
        let b = build () in
        bs := (true, b) :: !bs;
        if eat "," then () else (ignore (eat ")"); fin := true)
      done;
      Plex (all, List.rev !bs)
    end in
  build ()

let split_chunks (sizes : string) (data : string) : n list list =
  if sizes = "-" then [] else begin
    let off = ref 0 in
    List.map (fun t ->
      let l = int_of_string t in
      let l = if !off + l > String.length data then String.length data - !off else l in
      let c = String.sub data !off l in
      off := !off + l; bytes_of_string c) (String.split_on_char ',' sizes)
  end

let chain_line (f : string array) : string =
  let c = parse_shape f.(1) in
  let data = unhex f.(3) in
  let chunks = split_chunks f.(2) data in
  let ((c', acc), v) = runc c chunks in
  let acc = int_of_nat acc in
  let b = Buffer.create 64 in
  Buffer.add_string b (string_of_int acc);
  Buffer.add_char b ' ';
  Buffer.add_string b (if acc < List.length chunks then "-" else if v then "T" else "F");
  List.iter (fun d -> Buffer.add_char b ' '; Buffer.add_string b (hex (string_of_bytes d))) (all_sinks c');
  Buffer.contents b

let dispatch (f : string array) : string =
  match f.(0) with
  | "b64decbuf" -> bufres_line (dec_buf (bytes_of_string (unhex f.(1))) (olarg f.(2))) f.(2)
  | "b64encbuf" -> bufres_line (enc_buf (bytes_of_string (unhex f.(1))) (olarg f.(2))) f.(2)
  | "b64spec" ->
      (* the RFC-level specification, for the model-internal cross check *)
      (match f.(1) with
       | "enc" -> hex (string_of_bytes (enc (bytes_of_string (unhex f.(2)))))
       | _ -> (match dec (bytes_of_string (unhex f.(2))) with None -> "ERR" | Some b -> hex (string_of_bytes b)))
  | "b64dec" ->
      (match jarg f.(1) with
       | Some j -> bufres_line (jose_b64_dec j (olarg f.(2))) f.(2)
       | None -> "MAX")
  | "b64enc" -> jout (jose_b64_enc (bytes_of_string (unhex f.(1))))
  | "b64load" -> (match jarg f.(1) with Some j -> jout (jose_b64_dec_load j) | None -> "ERR")
  | "b64dump" -> (match jarg f.(1) with Some j -> jout (jose_b64_enc_dump j) | None -> "ERR")
  | "jsonrt" -> (* parse then dump: validates the Gallina parser/dumper against jansson *)
      (match parse_any (bytes_of_string (unhex f.(1))) with None -> "ERR" | Some j -> string_of_bytes (dump j))
  | "chain" -> chain_line f
  | _ -> raise Not_found

let () =
  try
    while true do
      let line = input_line stdin in
      if line <> "" then begin
        let f = Array.of_list (String.split_on_char '\t' line) in
        let out = try dispatch f with
          | Stack_overflow -> "MODEL-STACK-OVERFLOW"
          | Not_found -> "MODEL-UNKNOWN-COMMAND" in
        print_string out; print_char '\n'
      end
    done
  with End_of_file -> ()
