(* Model side of the correspondence: reads one case per line (TAB separated,
   same protocol as harness/h.c), runs the extracted Gallina model, prints one
   canonical result line per case.  Command handlers live in d_*.ml and register
   themselves in Dcore.commands. *)
let () =
  try
    while true do
      let line = input_line stdin in
      if line <> "" then begin
        let f = Array.of_list (String.split_on_char '\t' line) in
        let out =
          match Hashtbl.find_opt Dcore.commands f.(0) with
          | None -> "MODEL-UNKNOWN-COMMAND"
          | Some h -> (try h f with
                       | Stack_overflow -> "MODEL-STACK-OVERFLOW"
                       | Failure m -> "MODEL-FAILURE " ^ m) in
        print_string out; print_char '\n'; flush stdout
      end
    done
  with End_of_file -> ()
