(* C19: `fmt <argv...>` -- the argv of `jose fmt` (TAB separated) is turned into a program of the
   reference interpreter (coq/Cli/Fmt.v); the line printed is the SET of (exit status, stdout,
   files) the manual allows:  status:stdouthex[:path=hex...]|...   (sorted, duplicates removed).
   An argument that is not of the documented shape (JSON constant, #) gives USAGE. *)
open Model
open Dcore

exception Usage

let rec z_of_int (i : int) : z =
  if i = 0 then Z0 else if i > 0 then Zpos (pos_of_int i) else Zneg (pos_of_int (- i))

let int_arg (s : string) : int =
  (* optional sign, decimal digits *)
  let n = String.length s in
  if n = 0 || n > 9 then raise Usage;
  let st = if s.[0] = '-' then 1 else 0 in
  if st = n then raise Usage;
  for i = st to n - 1 do if s.[i] < '0' || s.[i] > '9' then raise Usage done;
  int_of_string s

let dest_of (s : string) : dest = if s = "-" then DStdout else DFile (bytes_of_string s)

let parse_prog (f : string array) : opt list =
  let n = Array.length f in
  let i = ref 1 in
  let acc = ref [] in
  let arg () = (if !i + 1 >= n then raise Usage); incr i; f.(!i) in
  while !i < n do
    let t = f.(!i) in
    if String.length t <> 2 || t.[0] <> '-' then raise Usage;
    let o = match t.[1] with
      | 'X' -> ONot
      | 'O' -> OAssert AObject | 'A' -> OAssert AArray | 'S' -> OAssert AString
      | 'I' -> OAssert AInteger | 'R' -> OAssert AReal | 'N' -> OAssert ANumber
      | 'T' -> OAssert ATrue | 'F' -> OAssert AFalse | 'B' -> OAssert ABoolean
      | '0' -> OAssert ANull | 'E' -> OAssert AEqual
      | 'Q' -> OQuery
      | 'M' -> let v = int_arg (arg ()) in if v < 0 then raise Usage else OMove (nat_of_int v)
      | 'U' -> OUnwind
      | 'j' -> (match parse_any (bytes_of_string (arg ())) with Some v -> OJson v | None -> raise Usage)
      | 'c' -> OCopy
      | 'q' -> OQuote (bytes_of_string (arg ()))
      | 'o' -> OOutput (dest_of (arg ()))
      | 'f' -> OForeach (dest_of (arg ()))
      | 'u' -> OUnquote (dest_of (arg ()))
      | 't' -> OTrunc (z_of_int (int_arg (arg ())))
      | 'i' -> OInsert (z_of_int (int_arg (arg ())))
      | 'a' -> OAppend
      | 'x' -> OExtend
      | 'd' -> ODelete (bytes_of_string (arg ()))
      | 'l' -> OLength
      | 'e' -> OEmpty
      | 'g' -> OGet (bytes_of_string (arg ()))
      | 's' -> OSet (bytes_of_string (arg ()))
      | 'y' -> OB64Load
      | 'Y' -> OB64Dump
      | _ -> raise Usage in
    acc := o :: !acc;
    incr i
  done;
  List.rev !acc

let result_string (((status, out), files) : (n * bytes) * (bytes * bytes) list) : string =
  let fs = List.sort compare (List.map (fun (p, c) -> string_of_bytes p ^ "=" ^ hex (string_of_bytes c)) files) in
  String.concat ":" (string_of_int (int_of_n status) :: hex (string_of_bytes out) :: fs)

let fmt_line (f : string array) : string =
  match (try Some (parse_prog f) with Usage -> None) with
  | None -> "USAGE"
  | Some p ->
      let rs = List.sort_uniq compare (List.map result_string (fmt_runs p)) in
      String.concat "|" rs

let () =
  register "fmt" fmt_line;
  register "fmtb64" (fun f ->
      match f.(1) with
      | "enc" -> hex (string_of_bytes (b64url_enc (bytes_of_string (unhex f.(2)))))
      | _ -> (match b64url_raw (bytes_of_string (unhex f.(2))) with None -> "ERR" | Some b -> hex (string_of_bytes b)))
