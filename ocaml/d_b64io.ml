open Model
open Dcore

(* ---- chain shapes ---- *)
let parse_shape (s : string) : chain =
  let pos = ref 0 in
  let eat (p : string) : bool =
    let l = String.length p in
    if !pos + l <= String.length s && String.sub s !pos l = p then (pos := !pos + l; true) else false in
  let num () : int =
    let st = !pos in
    if !pos < String.length s && s.[!pos] = '-' then incr pos;
    while !pos < String.length s && s.[!pos] >= '0' && s.[!pos] <= '9' do incr pos done;
    int_of_string (String.sub s st (!pos - st)) in
  let rec build () : chain =
    if eat "malloc" then Sink (SMalloc [])
    else if eat "buffer:" then (let c = num () in Sink (SBuffer (n_of_int c, [])))
    else if eat "file" then Sink (SFile [])
    else if eat "faulty:" then begin
      let ff = num () in
      ignore (eat ":");
      let fd = num () in
      Sink (SFaulty ((if ff < 0 then None else Some (nat_of_int ff)), fd <> 0, O, []))
    end
    else if eat "b64enc(" then (let n = build () in ignore (eat ")"); Stage (b64enc_T, [], n))
    else if eat "b64dec(" then (let n = build () in ignore (eat ")"); Stage (b64dec_T, [], n))
    else if eat "hash:" then begin
      let st = !pos in
      while s.[!pos] <> '(' do incr pos done;
      let name = String.sub s st (!pos - st) in
      incr pos;
      let h = (match name with "S1" -> SHA1 | "S224" -> SHA224 | "S256" -> SHA256 | "S384" -> SHA384
               | "S512" -> SHA512 | _ -> failwith "model: unknown hash") in
      let n = build () in ignore (eat ")");
      Stage (atdone_T (fun m -> Some (hash h m)), [], n)
    end
    else if eat "plexany(" then plex false
    else if eat "plexall(" then plex true
    else failwith "model: unknown shape"
  and plex (all : bool) : chain =
    if eat ")" then Plex (all, []) else begin
      let bs = ref [] in
      let fin = ref false in
      while not !fin do
        let b = build () in
        bs := (true, b) :: !bs;
        if eat "," then () else (ignore (eat ")"); fin := true)
      done;
      Plex (all, List.rev !bs)
    end in
  build ()

let split_chunks (sizes : string) (data : string) : n list list =
  if sizes = "-" then [] else begin
    let off = ref 0 in
    List.map (fun t ->
      let l = int_of_string t in
      let l = if !off + l > String.length data then String.length data - !off else l in
      let c = String.sub data !off l in
      off := !off + l; bytes_of_string c) (String.split_on_char ',' sizes)
  end

let chain_line (f : string array) : string =
  let c = parse_shape f.(1) in
  let data = unhex f.(3) in
  let chunks = split_chunks f.(2) data in
  let ((c', acc), v) = runc c chunks in
  let acc = int_of_nat acc in
  let b = Buffer.create 64 in
  Buffer.add_string b (string_of_int acc);
  Buffer.add_char b ' ';
  Buffer.add_string b (if acc < List.length chunks then "-" else if v then "T" else "F");
  List.iter (fun d -> Buffer.add_char b ' '; Buffer.add_string b (hex (string_of_bytes d))) (all_sinks c');
  Buffer.contents b


let () =
  register "b64decbuf" (fun f -> bufres_line (dec_buf (bytes_of_string (unhex f.(1))) (olarg f.(2))) f.(2));
  register "b64encbuf" (fun f -> bufres_line (enc_buf (bytes_of_string (unhex f.(1))) (olarg f.(2))) f.(2));
  register "b64spec" (fun f ->
      match f.(1) with
      | "enc" -> hex (string_of_bytes (enc (bytes_of_string (unhex f.(2)))))
      | _ -> (match dec (bytes_of_string (unhex f.(2))) with None -> "ERR" | Some b -> hex (string_of_bytes b)));
  register "b64dec" (fun f ->
      match jarg f.(1) with
      | Some j -> bufres_line (jose_b64_dec j (olarg f.(2))) f.(2)
      | None -> "MAX");
  register "b64enc" (fun f -> jout (jose_b64_enc (bytes_of_string (unhex f.(1)))));
  register "b64load" (fun f -> match jarg f.(1) with Some j -> jout (jose_b64_dec_load j) | None -> "ERR");
  register "b64dump" (fun f -> match jarg f.(1) with Some j -> jout (jose_b64_enc_dump j) | None -> "ERR");
  register "jsonrt" (fun f ->
      match parse_any (bytes_of_string (unhex f.(1))) with None -> "ERR" | Some j -> string_of_bytes (dump j));
  register "chain" chain_line
