open Model
open Dcore

(* chainx <shape> <chunk sizes|-> <hex data>: like chain, but EVERY chunk is fed whatever the
   earlier feeds answered and done is always called (harness/h_io.c c_chainx); the model is
   the per-call semantics of Io/Step.v, which covers sinks and multiplexers only.
   result: <verdict of each feed T/F, "." when there is none> <verdict of done> <sink contents...> *)

let contains (s : string) (sub : string) : bool =
  let n = String.length s and m = String.length sub in
  let rec go i = i + m <= n && (String.sub s i m = sub || go (i + 1)) in
  go 0

let has_stage (shape : string) : bool =
  List.exists (contains shape) ["b64enc("; "b64dec("; "hash:"; "def("; "inf("]

let chainx_line (f : string array) : string =
  if has_stage f.(1) then "UNSUPPORTED" else begin
    let c = D_b64io.parse_shape f.(1) in
    let data = unhex f.(3) in
    let chunks = D_b64io.split_chunks f.(2) data in
    match chainx c chunks with
    | None -> "UNSUPPORTED"
    | Some ((vs, d), sinks) ->
        let b = Buffer.create 64 in
        if vs = [] then Buffer.add_char b '.'
        else List.iter (fun v -> Buffer.add_char b (if v then 'T' else 'F')) vs;
        Buffer.add_char b ' ';
        Buffer.add_char b (if d then 'T' else 'F');
        List.iter (fun s -> Buffer.add_char b ' '; Buffer.add_string b (hex (string_of_bytes s))) sinks;
        Buffer.contents b
  end

let () = register "chainx" chainx_line
