(* C20 model side of `fail <scenario> <k|-1> [trace|-] [<chunk sizes> <hex data>]`.
   chain:<shape> scenarios: the Gallina fault model (Fault/Alloc.v: build, feed, done with the
   k-th allocation failing) is evaluated and its verdict and sink contents are printed;
   every other scenario: the model line is the specification itself (tools/props/c20.py
   normalises an implementation line that satisfies it to the same text). *)
open Model
open Dcore

let spec = "spec\tverdict in {ok with the fault-free product, fail}; no crash; leaks 0; caller objects intact"

let parse_plan (s : string) : plan =
  let pos = ref 0 in
  let eat (p : string) : bool =
    let l = String.length p in
    if !pos + l <= String.length s && String.sub s !pos l = p then (pos := !pos + l; true) else false in
  let num () : int =
    let st = !pos in
    while !pos < String.length s && s.[!pos] >= '0' && s.[!pos] <= '9' do incr pos done;
    int_of_string (String.sub s st (!pos - st)) in
  let rec build () : plan =
    if eat "malloc" then PMalloc
    else if eat "buffer:" then (let c = num () in PBuffer (n_of_int c))
    else if eat "b64enc(" then (let n = build () in ignore (eat ")"); PStage (VBool, b64enc_T, n))
    else if eat "b64dec(" then (let n = build () in ignore (eat ")"); PStage (VBool, b64dec_T, n))
    else if eat "hash:" then begin
      let st = !pos in
      while s.[!pos] <> '(' do incr pos done;
      let name = String.sub s st (!pos - st) in
      incr pos;
      let h = (match name with "S1" -> SHA1 | "S224" -> SHA224 | "S256" -> SHA256 | "S384" -> SHA384
               | "S512" -> SHA512 | _ -> failwith "model: unknown hash") in
      let n = build () in ignore (eat ")");
      PStage (VBool, atdone_T (fun m -> Some (hash h m)), n)
    end
    else if eat "plexany(" then plex false
    else if eat "plexall(" then plex true
    else failwith "model: unknown shape"
  and plex (all : bool) : plan =
    let bs = ref [] in
    let fin = ref false in
    while not !fin do
      let b = build () in
      bs := b :: !bs;
      if eat "," then () else (ignore (eat ")"); fin := true)
    done;
    PPlex (all, List.rev !bs) in
  build ()

let split_chunks (sizes : string) (data : string) : n list list =
  if sizes = "-" then [] else begin
    let off = ref 0 in
    List.map (fun t ->
      let l = int_of_string t in
      let l = if !off + l > String.length data then String.length data - !off else l in
      let c = String.sub data !off l in
      off := !off + l; bytes_of_string c) (String.split_on_char ',' sizes)
  end

let default_data = String.init 200 (fun i -> Char.chr ((i * 7 + 3) land 255))

let fail_line (f : string array) : string =
  let sc = f.(1) in
  if String.length sc > 6 && String.sub sc 0 6 = "chain:" then begin
    let p = parse_plan (String.sub sc 6 (String.length sc - 6)) in
    let k = int_of_string f.(2) in
    let (sizes, data) = if Array.length f > 5 then (f.(4), unhex f.(5)) else ("70,1,129", default_data) in
    let chunks = split_chunks sizes data in
    let fs = if k < 0 then no_fault else fault_at (nat_of_int k) in
    let (r, cnt) = exec fs p chunks in
    let n = string_of_int (int_of_nat cnt) in
    match r with
    | Some (o, true) ->
        "chain\tok\tn=" ^ n ^ "\t" ^ (match osinks o with
                                      | [] -> "none"
                                      | l -> String.concat " " (List.map (fun d -> hex (string_of_bytes d)) l))
    | _ -> "chain\tfail\tn=" ^ n ^ "\t*"
  end else spec

let () = register "fail" fail_line
