(* JWE decrypt / independent encrypt on the model (symmetric algorithms) *)
open Model
open Dcore

let need (s : string) : json = match jarg s with Some j -> j | None -> failwith "model: JSON argument required"

let () =
  register "jwedec" (fun f ->
    match jwe_dec (need f.(1)) (jarg f.(2)) (need f.(3)) with
    | Some pt -> "OK " ^ hex (string_of_bytes pt)
    | None -> "ERR");
  register "jweunw" (fun f -> jout (dec_jwk real_wrap_algs (need f.(1)) (jarg f.(2)) (need f.(3))));
  (* menc <jwe template> <cek json> <rnd hex> <plaintext hex> : content encryption by the model *)
  register "menc" (fun f ->
    jout (jwe_enc_cek deflate_stored (need f.(1)) (need f.(2)) (bytes_of_string (unhex f.(3))) (bytes_of_string (unhex f.(4)))));
  (* mkw <kek hex> <cek hex> : RFC 3394 wrap by the model *)
  register "mkw" (fun f ->
    match kw_wrap (bytes_of_string (unhex f.(1))) (bytes_of_string (unhex f.(2))) with
    | Some b -> hex (string_of_bytes b) | None -> "ERR");
  register "mgcm" (fun f ->
    let (ct, tag) = gcm_encrypt (bytes_of_string (unhex f.(1))) (bytes_of_string (unhex f.(2))) (bytes_of_string (unhex f.(3))) (bytes_of_string (unhex f.(4))) in
    hex (string_of_bytes ct) ^ " " ^ hex (string_of_bytes tag));
  register "mpbkdf2" (fun f ->
    let h = (match f.(1) with "S256" -> SHA256 | "S384" -> SHA384 | _ -> SHA512) in
    hex (string_of_bytes (pbkdf2 h (bytes_of_string (unhex f.(2))) (bytes_of_string (unhex f.(3))) (n_of_int (int_of_string f.(4))) (n_of_int (int_of_string f.(5))))))
