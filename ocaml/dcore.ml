(* Model side of the correspondence: reads one case per line (TAB separated,
   same protocol as harness/h.c), runs the extracted Gallina model, prints one
   canonical result line per case. *)
open Model

(* command registry: modules register handlers taking the TAB-separated fields *)
let commands : (string, string array -> string) Hashtbl.t = Hashtbl.create 64
let register (name : string) (f : string array -> string) = Hashtbl.replace commands name f

(* ---- conversions between OCaml values and the extracted inductive numbers *)
let rec pos_of_int (i : int) : positive =
  if i = 1 then XH else if i land 1 = 0 then XO (pos_of_int (i lsr 1)) else XI (pos_of_int (i lsr 1))
let n_of_int (i : int) : n = if i = 0 then N0 else Npos (pos_of_int i)
let rec int_of_pos = function XH -> 1 | XO p -> 2 * int_of_pos p | XI p -> 2 * int_of_pos p + 1
let int_of_n = function N0 -> 0 | Npos p -> int_of_pos p

let bytes_of_string (s : string) : n list =
  let r = ref [] in
  for i = String.length s - 1 downto 0 do r := n_of_int (Char.code s.[i]) :: !r done; !r
let string_of_bytes (l : n list) : string =
  let b = Buffer.create 64 in
  List.iter (fun x -> Buffer.add_char b (Char.chr ((int_of_n x) land 255))) l; Buffer.contents b

let hexv c = match c with
  | '0'..'9' -> Char.code c - 48 | 'a'..'f' -> Char.code c - 87 | 'A'..'F' -> Char.code c - 55 | _ -> 0
let unhex (s : string) : string =
  if s = "-" then "" else
  String.init (String.length s / 2) (fun i -> Char.chr (hexv s.[2*i] * 16 + hexv s.[2*i+1]))
let hex (s : string) : string =
  if s = "" then "-" else begin
    let b = Buffer.create (2 * String.length s) in
    String.iter (fun c -> Buffer.add_string b (Printf.sprintf "%02x" (Char.code c))) s; Buffer.contents b end

let sz = function None -> "MAX" | Some v -> string_of_int (int_of_n v)

(* apply a write list to a buffer of ol bytes of 0xA5; a write outside it breaks the canary *)
let apply_writes (w : (n * n) list) (ol : int) : string * bool =
  let b = Bytes.make ol '\xa5' in
  let ok = ref true in
  List.iter (fun (i, v) ->
    let i = int_of_n i in
    if i < ol then Bytes.set b i (Char.chr ((int_of_n v) land 255)) else ok := false) w;
  (Bytes.to_string b, !ok)

let bufres_line (r : bufres) (ol : string) : string =
  if r.oob then "OOB-READ" else
  if ol = "NULL" then sz r.ret
  else begin
    let (b, ok) = apply_writes r.writes (int_of_string ol) in
    Printf.sprintf "%s %s %s" (sz r.ret) (hex b) (if ok then "canary-ok" else "CANARY-BROKEN")
  end

let olarg s = if s = "NULL" then None else Some (n_of_int (int_of_string s))

let rec nat_of_int (i : int) : nat = if i <= 0 then O else S (nat_of_int (i - 1))
let rec int_of_nat = function O -> 0 | S n -> 1 + int_of_nat n

(* ---- JSON through the extracted parser / dumper ---- *)
let jarg (s : string) : json option =
  if s = "-" then None else
  match parse_proto (bytes_of_string s) with
  | Some j -> Some j
  | None -> failwith ("model: cannot parse JSON argument: " ^ s)
let jout (j : json option) : string =
  match j with None -> "ERR" | Some j -> string_of_bytes (dump j)

