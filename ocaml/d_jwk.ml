(* JWK commands on the model *)
open Model
open Dcore

let need (s : string) : json = match jarg s with Some j -> j | None -> failwith "model: JSON argument required"

let () =
  register "pub" (fun f -> jout (jwk_pub (need f.(1))));
  register "thp" (fun f -> jout (jwk_thp (need f.(1)) (bytes_of_string f.(2))));
  register "thpbuf" (fun f ->
    let j = need f.(1) in
    let h = bytes_of_string f.(2) in
    if f.(3) = "NULL" then sz (fst (jwk_thp_buf j h None))
    else begin
      let len = int_of_string f.(3) in
      let (r, d) = jwk_thp_buf j h (Some (n_of_int len)) in
      let b = Bytes.make len '\xa5' in
      let ds = string_of_bytes d in
      (* a digest longer than the buffer cannot happen in the model: it refuses first *)
      String.iteri (fun i c -> if i < len then Bytes.set b i c) ds;
      Printf.sprintf "%s %s canary-ok" (sz r) (hex (Bytes.to_string b))
    end);
  register "eql" (fun f -> if jwk_eql (need f.(1)) (need f.(2)) then "T" else "F")
