(* C12: conversion to the OpenSSL key representation and back, on the model (coq/Jwk/Conv.v).
     osslrt <jwk>  ->  <conv j or ERR> TAB <conv_typed j, or ERR, or "-" for an oct key>
   exactly the line harness/h_ossl.c prints: the JWK after jose_openssl_jwk_to_EVP_PKEY +
   jose_openssl_jwk_from_EVP_PKEY, then the JWK after the type-specific route (to_RSA/from_RSA,
   to_EC_KEY/from_EC_KEY).  JSON is printed as the compact sorted dump, like the harness' putjson.
   EC_KEY_check_key is the function that accepts every point (conv_valid_true): the correspondence
   only offers keys OpenSSL accepts, or keys that are refused before the point check is reached. *)
open Model
open Dcore

let () =
  register "osslrt" (fun f ->
    match jarg f.(1) with
    | None -> "ERR\tERR"                         (* jarg "-" = NULL: both routes fail *)
    | Some j ->
        let a = jout (conv_drv j) in
        let b = if conv_is_oct j then "-" else jout (conv_typed_drv j) in
        a ^ "\t" ^ b)
