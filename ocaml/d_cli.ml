(* C18: the command-line glue on the model side (coq/Cli/Cmds.v, coq/Cli/Compact.v).
   Byte strings travel as hex ("-" = empty, "N" = absent), JSON as text.
     c18ver  <-i ARG hex> <file hex|N> <keys JSON array> <all> <detach> <-I hex|N>               -> USAGE | <exit> <stdout hex>
     c18verg <N|T|F> <-|T|F>                      exit status from the verdicts of the verifier and of the output sink
     c18dec  <-i ARG hex> <file hex|N> <keys> <-I hex|N>                                         -> USAGE | <exit> <stdout hex>
     c18decg <0|1> <0|1> <0|1>                    exit status from unwrapped / decoded / decrypted
     c18thp  <keys> <hash> <find|->                                                              -> <exit> <stdout hex>
     c18pub <keys> <set> ; c18use <keys> <uses JSON array> <all> <req> <output> <set> ; c18eql <keys>
     c18b64enc <hex> ; c18b64dec <hex>
     c18fmt <jws|jwe> <compact> <-i ARG hex> <file hex|N>                                        -> USAGE | <exit> <stdout hex>
     c18sig <template> <-s templates JSON array> <keys> <compact> <detach> <M | D hex>           -> <exit> <stdout hex> *)
open Model
open Dcore

let jlist (s : string) : json list =
  match jarg s with
  | Some (JArr l) -> l
  | _ -> failwith "model: JSON array expected"

let obytes (s : string) : n list option = if s = "N" then None else Some (bytes_of_string (unhex s))
let flag (s : string) : bool = s = "1"
let res ((st, out) : n * n list) : string = Printf.sprintf "%d %s" (int_of_n st) (hex (string_of_bytes out))
let ores = function None -> "USAGE" | Some r -> res r
let strs (s : string) : n list list =
  List.map (function JStr b -> b | _ -> failwith "model: string expected") (jlist s)

let () =
  register "c18ver" (fun f ->
    ores (cli_real_ver (bytes_of_string (unhex f.(1))) (obytes f.(2)) (jlist f.(3)) (flag f.(4)) (flag f.(5)) (obytes f.(6))));
  register "c18verg" (fun f ->
    let v = function "N" | "-" -> None | "T" -> Some true | _ -> Some false in
    string_of_int (int_of_n (cli_ver_glue (v f.(1)) (v f.(2)))));
  register "c18dec" (fun f ->
    ores (cli_real_dec (bytes_of_string (unhex f.(1))) (obytes f.(2)) (jlist f.(3)) (obytes f.(4))));
  register "c18decg" (fun f -> string_of_int (int_of_n (cli_dec_glue (flag f.(1)) (flag f.(2)) (flag f.(3)))));
  register "c18thp" (fun f ->
    let find = if f.(3) = "-" then None else Some (bytes_of_string f.(3)) in
    res (cli_jwk_thp (jlist f.(1)) (bytes_of_string f.(2)) find));
  register "c18pub" (fun f -> res (cli_jwk_pub (jlist f.(1)) (flag f.(2))));
  register "c18use" (fun f ->
    res (cli_jwk_use (jlist f.(1)) (strs f.(2)) (flag f.(3)) (flag f.(4)) (flag f.(5)) (flag f.(6))));
  register "c18eql" (fun f -> string_of_int (int_of_n (cli_jwk_eql (jlist f.(1)))));
  register "c18b64enc" (fun f -> res (cli_b64_enc (bytes_of_string (unhex f.(1)))));
  register "c18b64dec" (fun f -> res (cli_b64_dec (bytes_of_string (unhex f.(1)))));
  register "c18fmt" (fun f ->
    ores (cli_fmt (f.(1) = "jwe") (flag f.(2)) (bytes_of_string (unhex f.(3))) (obytes f.(4))));
  register "c18sig" (fun f ->
    let tmpl = match jarg f.(1) with Some j -> j | None -> failwith "model: template" in
    let src = if f.(6) = "M" then Src_member
              else Src_detached (bytes_of_string (unhex (String.sub f.(6) 1 (String.length f.(6) - 1)))) in
    res (cli_real_sig { cs_jws = tmpl; cs_sigs = jlist f.(2); cs_keys = jlist f.(3); cs_compact = flag f.(4);
                        cs_detach = flag f.(5); cs_src = src }))
